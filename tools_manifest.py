#!/usr/bin/env python3
"""Regenerates MANIFEST.json from the table below (run after landing a check)."""
import json, os, glob
HERE = os.path.dirname(os.path.abspath(__file__))
BASE_OFF = "cd /repo && env -u CUTADAPT_VERIF /venv/bin/python -m pytest -ra -q -p no:cacheprovider --timeout=900 --continue-on-collection-errors"
ALIGN_NOTE = ("Trusted: z3; Cython's parser as front end; symx' interpreter and its models of the C-API accessors (validated differentially on every run: "
              "9000+ vectors incl. all character pairs x wildcard modes and random match_to calls through the compiled extension and the encoding); the harness-owned reference "
              "(IUPAC sets, edit/Hamming distance, placement rules) in harness/align_common.py. The k-mer prefilter is stubbed to 'present' here (C07 decides it separately). "
              "Rates: one representative double per step of r -> trunc(r*L).")
CLAIMS = {
 "C01": dict(engine="symx", design="3 C01",
   technique="symbolic execution of adapters.py constructors/match_to (forking) and _align.pyx Aligner/comparers (state-merged) into SMT; z3 decides placement, errors == reference distance, tolerance for all adapters/reads within the shape bounds",
   text="Bounded model checking of the real matching code: for each adapter class, wildcard/indel switch, rate representative and (adapter length, read length) shape the solver decides for ALL adapter strings over the IUPAC alphabet, all 7-bit ASCII reads and all minimum overlaps that a reported match has in-range coordinates, obeys the class's placement rule, covers the minimum overlap, reports exactly the reference edit/Hamming distance of the reported intervals and stays within rate x non-N aligned bases. Counterexamples are replayed on a build compiled from the same sources.",
   note=ALIGN_NOTE),
 "C02": dict(engine="symx", design="3 C02",
   technique="same SMT encoding of the real aligner as C01; z3 decides, over all adapters/reads within the bounds, that no admissible (error-free / in-tolerance) occurrence exists whenever match_to returns None, and the leftmost/rightmost/exact-removal clauses whenever it returns a match",
   text="Bounded model checking of completeness: on every path where the real match_to returns None the solver shows that none of the interval quadruples admitted by the placement rule is an error-free (all classes) or in-tolerance (classes named in the statement) occurrence; on match paths it shows the cut lies at/before the leftmost exact copy (3'), at/before its end (5'), at/after the rightmost copy's end (rightmost) and that exact anchored copies are removed exactly. An exception from match_to counts as a violation.",
   note=ALIGN_NOTE),
 "C07": dict(engine="symx", design="3 C07",
   technique="symbolic execution of kmer_heuristic.py (forking on equal k-mers), _kmer_finder.pyx (shift-and masks as 64-bit vectors, state-merged) and the aligner into SMT; z3 decides 'prefilter absent => no alignment' and every array bound for all adapters/reads within the bounds",
   text="Bounded model checking of the prefilter against the aligner it guards: match_to of every adapter class (incl. the force-anywhere variants) is executed with kmers_present wrapped so that its symbolic verdict is recorded while the alignment always runs; on every path that returns a match the solver shows the recorded verdict is 'present'. All array reads of kmers_present/shift_and_multiple_is_present carry in-bounds obligations. Adapter (ACGT, or ACGTNRX with adapter wildcards) and read characters are symbolic; class, lengths, rate representative, switches and minimum overlap are enumerated.",
   note=ALIGN_NOTE + " Read alphabet restricted to ACGTNacgtnRYX! (the kernel sees characters only through the match tables). State mutated by a kernel call that raises is not observed afterwards."),
 "C03": dict(engine="crosshair", design="3 C03",
   technique="CrossHair (symbolic execution with z3; only 'Confirmed over all paths' counts) on the real modifier classes and match interval methods with contract stubs for records, adapters and kernels; symbolic lengths, cut positions, match coordinates, scores, flags",
   text="Bounded symbolic checking that every read-modifying class returns a contiguous slice of the record it received with the qualities in step: UnconditionalCutter, Shortener, NEndTrimmer, Quality/Nextseq/PolyA trimmers (kernel results arbitrary within their proved contracts), ZeroCapper, AdapterCutter for every action x match kind (single, linked, two rounds), ReverseComplementer / PairedReverseComplementer (slice of the reverse complement / of the mate's record when swapped) and PairedAdapterCutter for all six actions, each against intervals written from the statement.",
   note="Trusted: CrossHair's models; Rec stands in for dnaio.SequenceRecord (compared with the real class on 1500 concrete vectors each run); kernels return arbitrary values inside the contracts proved by C13/C14; adapters return arbitrary matches inside the C01 contract. Read texts are short fixed strings; coordinates/lengths are symbolic over all values. Linked adapter + crop is documented as unsupported and outside the claim."),
 "C05": dict(engine="crosshair", design="3 C05",
   technique="CrossHair on the real paired steps built by make_pipeline_from_args from natively parsed option sets, with recording writers; symbolic per-mate features (length class, N count, expected errors, CASAVA flag, matched flag, last adapter) and pair id",
   text="Bounded symbolic checking, one paired command line per condition (111 option sets: pair-filter modes x length bounds LEN/LEN:/:LEN2/LEN:LEN2 x discard/redirect/interleaved; untrimmed filters with adapters on R1 only/R2 only/both; max-n/max-ee/max-aer/casava; demultiplexing): every writer call receives both mates of the same pair, the opened files are the documented set, and the keep/redirect/discard decision equals the documented combination (any/both/first, forced 'both' for one-sided adapters, one-sided bounds). PairedAdapterCutter (real _find_best_match_pair, stub adapters with symbolic score/errors): both mates trimmed by the maximal same-rank pair or neither changed.",
   note="Trusted: CrossHair's models; recording output files; one pair per condition (the steps read no state a previous pair wrote: induction over the write sequence); modifiers are not run (their effect is the symbolic features); expected_errors stubbed by a symbolic value."),
 "C15": dict(engine="crosshair", design="3 C15",
   technique="CrossHair on the real Demultiplexer / PairedDemultiplexer / CombinatorialDemultiplexer built by make_pipeline_from_args, recording writers; symbolic match presence, first/last adapter index per mate, lengths, pair id",
   text="Bounded symbolic checking, one demultiplexing command line per condition (32: single/paired/combinatorial x 1-3 names x none/--discard-untrimmed/--untrimmed-output x filters): the set of opened paths equals all names (x names2, plus the documented 'unknown' combinations or the untrimmed file), a read that passes the filters is written exactly once to the writer of the path obtained by substituting the LAST match's name (or unknown / untrimmed / nowhere), and - without an untrimmed option - the same command without {name} writes the same records to its main output iff one demultiplexed file got them.",
   note="Trusted: CrossHair's models; recording output files; dummy match objects carrying real adapter objects; the uncounted drop of the combinatorial --discard-untrimmed case is C04's subject (routing only is checked here)."),
 "C06": dict(engine="crosshair", design="3 C06",
   technique="CrossHair on the real ParallelPipelineRunner.run loop, OrderedChunkWriter, WorkerProcess._send_outfiles, proxy writers and every statistics __iadd__, with the OS scheduler replaced by a nondeterministic stub whose choices (chunk->worker assignment, wait() results) are the symbolic inputs",
   text="Bounded, message-level model checking of the multi-core merge: for every assignment of <= 4 chunks to <= 3 workers and every sequence of connection.wait results the real main loop writes every output file's chunk payloads exactly once in index order with nothing left buffered, and the merged Statistics (counters, length histograms, per-adapter tables) equal those of the serial runner. No process is started.",
   note="Assumed channel contract: FIFO connections; wait returns an arbitrary non-empty subset of connections with pending messages; each chunk goes to exactly one worker, which emits its chunks in increasing order followed by (-1, statistics). Outside the claim: pipe buffering, process start-up/termination, the reader's queue protocol, the output-format decision of proxied writers (C19)."),
 "C10": dict(engine="crosshair", design="3 C10",
   technique="complete native enumeration of option subsets through the real argument parser and make_pipeline_from_args with recording transformers, Boolean/equality structure over the pre-built tables decided by CrossHair",
   text="Every subset of the read-modifying options (3072 single-end, 49152 paired-end trimming subsets x 48 name-option combinations, each parsed from three argv permutations) is built by the real pipeline builder; each modifier is wrapped by a recording transformer and the recorded chain must be x -> f1(x) -> f2(f1(x)) ... in the documented rank order with the documented R1/R2 routing (-q unless -Q, -l unless -L). The solver's part is small here and said so: CrossHair decides the index/mate/value structure over the tables.",
   note="Trusted: argparse; the recording wrappers. The claim is complete enumeration of option subsets inside the listed options, not a symbolic treatment of option values."),
 "C08": dict(engine="symx", design="3 C08",
   technique="symbolic execution of AdapterIndex look-up (merge mode; dictionary look-up with a symbolic key = ite over the keys + KeyError branch; N fallback through the real adapter and aligner) over symbolic reads, for enumerated concrete adapter sets; z3 decides genuineness, uniqueness and agreement with one-by-one search",
   text="Bounded model checking of the index: for each enumerated set of 2-3 anchored adapters (equal/different lengths, Hamming neighbours, prefixes of one another, the two examples of the property text scaled down), every order, both ends, indels on/off, k <= 1 (2 in thorough) and every read length up to longest+1, z3 decides for ALL reads over ACGTNacgn that a reported match lies inside the read with the exact error count within tolerance, that the only occurring adapter is reported, and that equal-length no-indel sets agree with one-by-one search whenever the nearest adapter is unique.",
   note=ALIGN_NOTE + " Adapter sets are enumerated (not symbolic). One-by-one search is represented by its specification (established by C01/C02/C09). The index itself is built by executing _make_index from source with the compiled edit_environment/hamming_sphere on concrete arguments."),
 "C18": dict(engine="symx", design="3 C18",
   technique="forking symbolic execution of parser.py and the adapter constructors from source over specification strings whose sequence part is symbolic (string models for partition/split/strip/re.split decided by z3), grammar enumerated; outcome compared with a structured reference from the user guide",
   text="Bounded symbolic checking of the notation: 1356 specification templates (option letter x restriction syntax x name x parameter texts x linked combinations x ellipsis/brace/file forms x global settings) are each executed through the real make_adapters_from_one_specification with the sequence part a symbolic string (length 1..3 over ACGTUINacgn; XA / xA for the X rules); z3 decides on every path that class, normalised sequence, name, parameters (precedence adapter > file > global), absolute-error conversion (value / non-N bases with a symbolic N count), adapter-wildcard flag and required/optional defaults are the documented ones, and that the documented invalid combinations raise ValueError/KeyError (exit status 2 path).",
   note="Trusted: symx' models of str methods (differentially validated against the real parser on 86 specifications incl. the repo's own test inputs each run); k-mer finders stubbed; the aligner constructor runs for real except where the rate depends on a symbolic N count. The -a linked default 'required iff the part carries a placement restriction' follows the code's notion of anchored. read_adapters_fasta is stubbed with two symbolic records."),
 "C09": dict(engine="crosshair", design="3 C09",
   technique="CrossHair (symbolic execution with z3, exhaustive 'Confirmed over all paths') on the real MultipleAdapters/AdapterCutter/LinkedAdapter classes with contract-stub adapters; symbolic scores, error counts, presence flags and match coordinates",
   text="Bounded symbolic checking of the selection rules on the real classes: best-of-3 (score, then errors, then first), rounds for --times 1..3 x actions x every sequence of match kinds with all match coordinates symbolic, and linked adapters for all four required/optional combinations, each compared with a reference written from the statement. Only 'Confirmed over all paths' with a refuted reachability twin counts.",
   note="Trusted: CrossHair's models of int/str/list; stub adapters return arbitrary matches satisfying the C01 contract (coordinates inside the given sequence); Rec stands in for dnaio.SequenceRecord; read text is fixed (AcN / ACGTA), coordinates -1..4 / -1..6."),
 "C14": dict(engine="symx", design="3 C14",
   technique="symbolic execution of qualtrim.pyx poly_a_trim_index/expected_errors (Cython parse tree) and expected_errors.h (clang JSON AST, every implicit conversion explicit) into SMT with the score table as an uninterpreted function; CrossHair for NEndTrimmer/TooManyN",
   text="Bounded model checking: for every length up to the bound z3 decides, for all sequences over ATCGNa and both orientations, that poly_a_trim_index equals the declarative definition (max score, <= 20% other bases, shortest on ties, tails < 3 ignored) and that PolyATrimmer slices/tallies accordingly; for all byte strings (every value 0..255) and bases 33..64 that the unrolled C loop adds exactly the table entries of the qualities (exact real arithmetic, table = uninterpreted function with one axiom per constant) or returns -1 iff a byte is invalid, and that the Cython wrapper raises exactly then; the 94 constants are compared with 10^(-q/10). NEndTrimmer and TooManyN are confirmed by CrossHair over all strings of length <= 4 over ACNn.",
   note="Trusted: z3, Cython's parser, clang's AST, symx' C-API models (differentially validated each run), CrossHair's str/regex models. Outside the claim: rounding of the double additions and the float truncation in the wrapper's declared return type (a 1e-5 relative margin makes counterexamples observable)."),
 "C13": dict(engine="symx", design="3 C13",
   technique="symbolic execution of qualtrim.pyx (Cython parse tree -> merged SMT terms, z3) against a declarative BWA oracle; bounded in read length",
   text="Bounded model checking of the real kernels: for every read length up to the bound the solver decides, for all quality strings, cut-offs, bases and both quality bases, that quality_trim_index/nextseq_trim_index equal the declarative BWA definition; QualityTrimmer/NextseqQualityTrimmer slicing and trimmed_bases are executed from source on top. Not a proof: lengths beyond the bound are outside the claim.",
   note="Trusted: z3; Cython's parser as front end; symx' models of PyUnicode_* accessors (validated differentially against the compiled extension on every run); record stub for dnaio.SequenceRecord. parse_cutoffs is enumerated concretely on the two documented shapes."),
}
NA = {
 "C12": "faults are detected and raised inside dnaio/xopen/zlib compiled code and the never-hang clause quantifies over OS process scheduling and pipe blocking; neither can be encoded from this repository's source for a solver",
 "C19": "container/layout/format handling is executed inside xopen, zlib/isal/zstd and dnaio on OS file objects; the repository only forwards arguments, so there is no computation of this repository to encode symbolically",
}
PENDING = "check under construction in this build session (design in DESIGN.md section 3); not claimed until its harness is committed"
def main():
    props = [json.loads(l)["id"] for l in open(os.path.join(HERE, "properties.jsonl"))]
    checks = []
    for pid in props:
        if pid in CLAIMS and glob.glob(os.path.join(HERE, "harness", pid.lower() + "_*.py")):
            c = CLAIMS[pid]
            checks.append({
                "property_id": pid,
                "quick_cmd": "./check %s --tier quick" % pid,
                "thorough_cmd": "./check %s --tier thorough" % pid,
                "evidence_file": "evidence/%s.json" % pid,
                "replay_cmd_template": "./check replay {path}",
                "engine": c["engine"],
                "level_claimed": {"category": "model_checking", "text": c["text"], "design_ref": "DESIGN.md section " + c["design"]},
                "level_note": c["note"],
                "technique": c["technique"],
            })
    claimed = {c["property_id"] for c in checks}
    na = [{"property_id": p, "reason": NA.get(p, PENDING)} for p in props if p not in claimed]
    m = {
        "version": 1,
        "setup_cmd": "./setup.sh",
        "hooks": {"guard": "CUTADAPT_VERIF", "enable": "none needed: both engines read the source of /repo's working tree and stub in their own process; no hook commit exists",
                  "baseline_off_cmd": BASE_OFF, "source_commits": [], "add_only": True},
        "engines": [
            {"name": "symx", "path": "symx/", "serves_properties": sorted(p for p in claimed if CLAIMS[p]["engine"] == "symx"),
             "kind_free_text": "own symbolic interpreter (state merging + forking) over Cython's parse tree and Python ast of /repo's current sources; z3 decides every obligation; counterexamples replayed on a shadow build compiled from the same sources"},
            {"name": "crosshair", "path": "harness/", "serves_properties": sorted(p for p in claimed if CLAIMS[p]["engine"] == "crosshair"),
             "kind_free_text": "CrossHair 0.0.110 (per-path symbolic execution with z3) on the real glue classes with contract stubs for compiled kernels"},
        ],
        "checks": checks,
        "not_applicable": na,
        "notes": "Solver-based checking of the real code; see DESIGN.md. Exit 3 = harness error (never a verdict).",
    }
    json.dump(m, open(os.path.join(HERE, "MANIFEST.json"), "w"), indent=1)
    print("claimed:", sorted(claimed))
if __name__ == "__main__":
    main()
