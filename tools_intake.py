#!/usr/bin/env python3
"""Take a sub-agent's change from its scratch worktree into /verif/seeded/<name>/ (patch.diff, demo.py, meta.json stub).

  tools_intake.py <worktree> <name> <property> <demo file in worktree>

Afterwards: tools_seeded.py verify <name>; tools_seeded.py check <name>; fill summary/needs/result in meta.json.
"""
import json
import os
import shutil
import subprocess
import sys

HERE = os.path.dirname(os.path.abspath(__file__))


def main():
    wt, name, pid, demo = sys.argv[1:5]
    d = os.path.join(HERE, "seeded", name)
    os.makedirs(d, exist_ok=True)
    diff = subprocess.check_output(["git", "-C", wt, "diff", "HEAD", "--", "src"], text=True)
    assert diff.strip(), "no source change in " + wt
    open(os.path.join(d, "patch.diff"), "w").write(diff)
    shutil.copy(os.path.join(wt, demo), os.path.join(d, "demo.py"))
    files = [l[6:] for l in diff.splitlines() if l.startswith("+++ b/")]
    meta = {
        "property": pid,
        "summary": "",
        "needs": "",
        "demo_cmd": "PYTHONPATH=src /venv/bin/python demo.py",
        "files": files,
    }
    p = os.path.join(d, "meta.json")
    if not os.path.exists(p):
        json.dump(meta, open(p, "w"), indent=1)
    print(diff)


if __name__ == "__main__":
    main()
