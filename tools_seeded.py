#!/usr/bin/env python3
"""Seeded changes (/verif/seeded/<name>/{patch.diff,meta.json,demo}): verify them and run the checks against them.

  tools_seeded.py verify <name>        apply the patch in a scratch worktree of /repo (under /tmp), run the repository's
                                       test suite and the demonstration with and without the patch, remove the worktree
  tools_seeded.py check <name> [ID..]  copy /repo/src to a scratch directory, apply the patch there, run
                                       ./check <ID> --tier quick with VERIF_SRC pointing at it (default: the property
                                       named in meta.json), remove the scratch directory.  /repo itself is never touched.
"""
import json
import os
import shutil
import subprocess
import sys

HERE = os.path.dirname(os.path.abspath(__file__))
SEEDED = os.path.join(HERE, "seeded")
EXT = ["_align", "_kmer_finder", "qualtrim", "info"]


def sh(cmd, cwd=None, env=None, timeout=None):
    r = subprocess.run(cmd, shell=True, cwd=cwd, env=env, capture_output=True, text=True, timeout=timeout)
    return r.returncode, (r.stdout + r.stderr)


def rebuild_ext(pkgdir, mods):
    inc = subprocess.check_output(["/venv/bin/python", "-c", "import sysconfig;print(sysconfig.get_paths()['include'])"], text=True).strip()
    ext = subprocess.check_output(["/venv/bin/python", "-c", "import sysconfig;print(sysconfig.get_config_var('EXT_SUFFIX'))"], text=True).strip()
    for m in mods:
        c = "/tmp/seedbuild_%s_%d.c" % (m, os.getpid())
        rc, out = sh("/venv/bin/python -m cython -3 -o %s %s/%s.pyx && gcc -shared -fPIC -O2 -fwrapv -I %s -I %s %s -o %s/%s%s; rm -f %s" % (c, pkgdir, m, inc, pkgdir, c, pkgdir, m, ext, c), cwd="/tmp")
        if rc:
            raise RuntimeError("rebuild of %s failed: %s" % (m, out[-800:]))


def changed_ext(patch_text):
    mods = [m for m in EXT if ("/%s.pyx" % m) in patch_text]
    if "expected_errors.h" in patch_text and "qualtrim" not in mods:
        mods.append("qualtrim")
    return mods


def verify(name):
    d = os.path.join(SEEDED, name)
    meta = json.load(open(os.path.join(d, "meta.json")))
    patch = open(os.path.join(d, "patch.diff")).read()
    wt = "/tmp/seedverify_%s_%d" % (name, os.getpid())
    rc, out = sh("git -C /repo worktree add -q --detach %s HEAD" % wt)
    assert rc == 0, out
    res = {}
    try:
        pkg = os.path.join(wt, "src", "cutadapt")
        for f in os.listdir("/repo/src/cutadapt"):
            if f.endswith(".so") or f == "_version.py":
                shutil.copy(os.path.join("/repo/src/cutadapt", f), pkg)
        for f in os.listdir(d):
            if f not in ("patch.diff", "meta.json"):
                shutil.copy(os.path.join(d, f), wt)
        env = dict(os.environ, PYTHONPATH=os.path.join(wt, "src"), PATH="/venv/bin:" + os.environ["PATH"])
        demo = meta["demo_cmd"]
        rc0, out0 = sh(demo, cwd=wt, env=env, timeout=600)
        res["demo_without_patch_passes"] = rc0 == 0
        rc, out = sh("git apply --whitespace=nowarn %s" % os.path.join(d, "patch.diff"), cwd=wt)
        assert rc == 0, "patch does not apply: " + out
        mods = changed_ext(patch)
        if mods:
            rebuild_ext(pkg, mods)
        rc1, out1 = sh(demo, cwd=wt, env=env, timeout=600)
        res["demo_with_patch_fails"] = rc1 != 0
        rc2, out2 = sh("/venv/bin/python -m pytest -q -p no:cacheprovider --timeout=900 -x --deselect tests/test_command.py::test_run_cutadapt_process", cwd=wt, env=env, timeout=1800)
        res["tests_pass_with_patch"] = rc2 == 0
        res["tests_tail"] = out2.strip().splitlines()[-1] if out2.strip() else ""
        res["demo_output_with_patch"] = out1[-600:]
    finally:
        sh("git -C /repo worktree remove --force %s" % wt)
        shutil.rmtree(wt, ignore_errors=True)
    print(json.dumps(res, indent=1))
    return res


def check(name, pids):
    d = os.path.join(SEEDED, name)
    meta = json.load(open(os.path.join(d, "meta.json")))
    pids = pids or [meta["property"]]
    scratch = "/tmp/seedcheck_%s_%d" % (name, os.getpid())
    shutil.rmtree(scratch, ignore_errors=True)
    os.makedirs(scratch)
    out_all = {}
    try:
        shutil.copytree("/repo/src", os.path.join(scratch, "src"), ignore=shutil.ignore_patterns("*.so", "__pycache__"))
        rc, out = sh("patch -p1 -s < %s" % os.path.join(d, "patch.diff"), cwd=scratch)
        assert rc == 0, "patch does not apply: " + out
        for pid in pids:
            env = dict(os.environ, VERIF_SRC=os.path.join(scratch, "src"))
            rc, out = sh("./check %s --tier quick" % pid, cwd=HERE, env=env, timeout=3600)
            lines = [l for l in out.splitlines() if l.startswith(("VIOLATION", "HARNESS-ERROR", pid + " tier", "KNOWN-FINDING", "  "))]
            lines = [l for l in lines if not l.startswith("HARNESS-ERROR")] + [l for l in lines if l.startswith("HARNESS-ERROR")]   # VIOLATION lines first
            out_all[pid] = {"exit": rc, "summary": lines[:12]}
            print(pid, "exit", rc)
            for l in lines[:12]:
                print("   ", l[:300])
    finally:
        shutil.rmtree(scratch, ignore_errors=True)
    return out_all


if __name__ == "__main__":
    cmd = sys.argv[1]
    if cmd == "verify":
        verify(sys.argv[2])
    elif cmd == "check":
        check(sys.argv[2], sys.argv[3:])
    else:
        print(__doc__)
