"""Front end for the C header: clang's JSON AST -> Python ``ast`` in the same conventions as pyxfront.

Every implicit integer conversion the compiler inserts (ImplicitCastExpr / IntegralCast) becomes an explicit
``__cast__('<type>', e)``, so e.g. the wrap-around of ``uint8_t phred = cursor[0] - base`` is taken from the
compiler and not guessed.  Only the constructs that occur in expected_errors.h are supported; anything else is a
FrontEndError (harness error), never silently skipped.
"""
import ast
import json
import subprocess


class FrontEndError(Exception):
    pass


def clang_ast(path):
    r = subprocess.run(["clang", "-Xclang", "-ast-dump=json", "-fsyntax-only", "-x", "c", path], capture_output=True, text=True)
    if r.returncode != 0 or not r.stdout.strip():
        raise FrontEndError("clang failed: " + r.stderr[-500:])
    return json.loads(r.stdout)


def _qt(n):
    return (n.get("type") or {}).get("qualType", "")


def _ctype(q):
    q = q.replace("const ", "").replace(" const", "").strip()
    q = q.replace(" *", "*")
    return q


class CLower:
    def __init__(self):
        self.floats = {}

    def expr(self, n):
        k = n["kind"]
        m = getattr(self, "e_" + k, None)
        if m is None:
            raise FrontEndError("unsupported C expression " + k)
        return m(n)

    def e_ParenExpr(self, n):
        return self.expr(n["inner"][0])

    def e_ImplicitCastExpr(self, n):
        ck = n["castKind"]
        inner = self.expr(n["inner"][0])
        if ck in ("LValueToRValue", "ArrayToPointerDecay", "NoOp", "FunctionToPointerDecay"):
            return inner
        if ck == "IntegralCast":
            return ast.Call(func=ast.Name("__cast__", ast.Load()), args=[ast.Constant(_ctype(_qt(n))), inner], keywords=[])
        if ck in ("IntegralToFloating", "FloatingCast"):
            return inner
        raise FrontEndError("unsupported cast kind " + ck)

    e_CStyleCastExpr = e_ImplicitCastExpr

    def e_DeclRefExpr(self, n):
        return ast.Name(n["referencedDecl"]["name"], ast.Load())

    def e_IntegerLiteral(self, n):
        return ast.Constant(int(n["value"]))

    def e_FloatingLiteral(self, n):
        return ast.Constant(float(n["value"]))

    def e_ArraySubscriptExpr(self, n):
        return ast.Subscript(value=self.expr(n["inner"][0]), slice=self.expr(n["inner"][1]), ctx=ast.Load())

    def e_UnaryOperator(self, n):
        op = n["opcode"]
        x = self.expr(n["inner"][0])
        if op == "*":
            return ast.Subscript(value=x, slice=ast.Constant(0), ctx=ast.Load())
        if op == "-":
            return ast.UnaryOp(op=ast.USub(), operand=x)
        if op == "!":
            return ast.UnaryOp(op=ast.Not(), operand=x)
        raise FrontEndError("unsupported unary operator " + op)

    _BIN = {"+": ast.Add, "-": ast.Sub, "*": ast.Mult, "&": ast.BitAnd, "|": ast.BitOr, "<<": ast.LShift, ">>": ast.RShift}
    _CMP = {"<": ast.Lt, "<=": ast.LtE, ">": ast.Gt, ">=": ast.GtE, "==": ast.Eq, "!=": ast.NotEq}

    def e_BinaryOperator(self, n):
        op = n["opcode"]
        l, r = self.expr(n["inner"][0]), self.expr(n["inner"][1])
        if op in self._BIN:
            return ast.BinOp(left=l, op=self._BIN[op](), right=r)
        if op in self._CMP:
            return ast.Compare(left=l, ops=[self._CMP[op]()], comparators=[r])
        if op == "||":
            return ast.BoolOp(op=ast.Or(), values=[l, r])
        if op == "&&":
            return ast.BoolOp(op=ast.And(), values=[l, r])
        raise FrontEndError("unsupported binary operator " + op)

    # statements
    def stmts(self, n):
        k = n["kind"]
        m = getattr(self, "s_" + k, None)
        if m is None:
            raise FrontEndError("unsupported C statement " + k)
        r = m(n)
        return r if isinstance(r, list) else [r]

    def s_CompoundStmt(self, n):
        out = []
        for c in n.get("inner", []):
            out.extend(self.stmts(c))
        return out or [ast.Pass()]

    def s_DeclStmt(self, n):
        out = []
        for v in n["inner"]:
            if v["kind"] != "VarDecl":
                raise FrontEndError("unsupported declaration " + v["kind"])
            init = v.get("inner", [])
            out.append(ast.AnnAssign(target=ast.Name(v["name"], ast.Store()), annotation=ast.Constant(_ctype(_qt(v))),
                                     value=self.expr(init[0]) if init else None, simple=1))
        return out

    def s_WhileStmt(self, n):
        return ast.While(test=self.expr(n["inner"][0]), body=self.stmts(n["inner"][1]), orelse=[])

    def s_IfStmt(self, n):
        inner = n["inner"]
        return ast.If(test=self.expr(inner[0]), body=self.stmts(inner[1]), orelse=self.stmts(inner[2]) if len(inner) > 2 else [])

    def s_ReturnStmt(self, n):
        return ast.Return(value=self.expr(n["inner"][0]) if n.get("inner") else None)

    def s_CompoundAssignOperator(self, n):
        op = n["opcode"][:-1]
        tgt = self.expr(n["inner"][0])
        tgt.ctx = ast.Store()
        return ast.AugAssign(target=tgt, op=self._BIN[op](), value=self.expr(n["inner"][1]))

    def s_BinaryOperator(self, n):
        if n["opcode"] != "=":
            return ast.Expr(self.expr(n))
        tgt = self.expr(n["inner"][0])
        tgt.ctx = ast.Store()
        return ast.Assign(targets=[tgt], value=self.expr(n["inner"][1]))

    def function(self, fn):
        params = [p for p in fn["inner"] if p["kind"] == "ParmVarDecl"]
        body = [p for p in fn["inner"] if p["kind"] == "CompoundStmt"][0]
        args = ast.arguments(posonlyargs=[], args=[ast.arg(arg=p["name"], annotation=ast.Constant(_ctype(_qt(p)))) for p in params],
                             vararg=None, kwonlyargs=[], kw_defaults=[], kwarg=None, defaults=[])
        rtype = _ctype(_qt(fn).split("(")[0])
        return ast.FunctionDef(name=fn["name"], args=args, body=self.stmts(body),
                               decorator_list=[ast.Call(func=ast.Name("__cfunc__", ast.Load()), args=[ast.Constant(rtype)], keywords=[])], returns=None, type_params=[])


def _floats(n, out):
    if n["kind"] == "FloatingLiteral":
        out.append(float(n["value"]))
    for c in n.get("inner", []):
        _floats(c, out)


def parse_header(path):
    """-> (ast.Module with the functions, {array name: [float constants]})"""
    d = clang_ast(path)
    low = CLower()
    body = []
    tables = {}
    for n in d["inner"]:
        if n.get("isImplicit") or "loc" in n and "includedFrom" in (n.get("loc") or {}):
            continue
        if n["kind"] == "FunctionDecl" and any(c["kind"] == "CompoundStmt" for c in n.get("inner", [])) and n.get("loc", {}).get("file", path).endswith(path.split("/")[-1]) or \
                (n["kind"] == "FunctionDecl" and n.get("name") == "expected_errors_from_phreds"):
            body.append(low.function(n))
        elif n["kind"] == "VarDecl" and "[" in _qt(n) and "double" in _qt(n):
            vals = []
            _floats(n, vals)
            tables[n["name"]] = vals
    mod = ast.Module(body=body, type_ignores=[])
    ast.fix_missing_locations(mod)
    return mod, tables
