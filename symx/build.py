"""Shadow build: a copy of <src>/cutadapt with the four extensions recompiled from the *current*
.pyx sources, cached by content hash under /verif/.cache/build/<hash>/.  /repo is never written to.
"""
import hashlib
import os
import shutil
import subprocess
import sys
import sysconfig
import concurrent.futures

VERIF = os.path.dirname(os.path.dirname(os.path.abspath(__file__)))
CACHE = os.path.join(VERIF, ".cache", "build")
PYX = ["_align", "_kmer_finder", "qualtrim", "info"]


def src_root():
    """Directory that contains the cutadapt package to verify (VERIF_SRC overrides /repo/src)."""
    return os.environ.get("VERIF_SRC", "/repo/src")


def source_files(root=None):
    root = root or src_root()
    pkg = os.path.join(root, "cutadapt")
    out = []
    for fn in sorted(os.listdir(pkg)):
        if fn.endswith((".py", ".pyx", ".h", ".pxd")):
            out.append(os.path.join(pkg, fn))
    return out


def tree_hash(root=None):
    h = hashlib.sha256()
    for p in source_files(root):
        h.update(os.path.basename(p).encode())
        h.update(b"\0")
        with open(p, "rb") as f:
            h.update(f.read())
        h.update(b"\0")
    h.update(sys.version.encode())
    return h.hexdigest()[:20]


def _compile_one(args):
    pkgdir, mod = args
    pyx = os.path.join(pkgdir, mod + ".pyx")
    c = os.path.join(pkgdir, mod + ".c")
    cy = [sys.executable, "-m", "cython", "-3", "-o", c, pyx]
    r = subprocess.run(cy, capture_output=True, text=True)
    if r.returncode != 0:
        return mod, "cython failed:\n" + r.stdout + r.stderr
    inc = sysconfig.get_paths()["include"]
    ext = sysconfig.get_config_var("EXT_SUFFIX")
    so = os.path.join(pkgdir, mod + ext)
    cc = ["gcc", "-shared", "-fPIC", "-O1", "-fwrapv", "-I", inc, "-I", pkgdir, c, "-o", so]
    r = subprocess.run(cc, capture_output=True, text=True)
    if r.returncode != 0:
        return mod, "gcc failed:\n" + r.stderr[-3000:]
    os.unlink(c)
    return mod, None


def shadow_build(root=None, quiet=False):
    """Return the directory to put on sys.path so that ``import cutadapt`` gives the current tree."""
    root = root or src_root()
    h = tree_hash(root)
    dest = os.path.join(CACHE, h)
    marker = os.path.join(dest, ".ok")
    if os.path.exists(marker):
        return dest
    tmp = dest + ".tmp%d" % os.getpid()
    shutil.rmtree(tmp, ignore_errors=True)
    pkgdir = os.path.join(tmp, "cutadapt")
    os.makedirs(pkgdir)
    for p in source_files(root):
        shutil.copy(p, pkgdir)
    with concurrent.futures.ThreadPoolExecutor(4) as ex:
        results = list(ex.map(_compile_one, [(pkgdir, m) for m in PYX]))
    errs = [(m, e) for m, e in results if e]
    if errs:
        shutil.rmtree(tmp, ignore_errors=True)
        raise RuntimeError("shadow build failed: " + "; ".join("%s: %s" % me for me in errs))
    open(os.path.join(tmp, ".ok"), "w").close()
    # prune old builds (keep the cache small)
    try:
        if os.path.isdir(CACHE):
            olds = sorted((os.path.getmtime(os.path.join(CACHE, d)), d) for d in os.listdir(CACHE) if not d.endswith(tuple(".tmp%d" % os.getpid() for _ in [0])))
            for _, d in olds[:-6]:
                shutil.rmtree(os.path.join(CACHE, d), ignore_errors=True)
    except OSError:
        pass
    try:
        os.rename(tmp, dest)
    except OSError:
        shutil.rmtree(tmp, ignore_errors=True)  # somebody else built it meanwhile
    if not quiet:
        print("shadow build %s ready" % h, file=sys.stderr)
    return dest


def activate(root=None):
    """Build (if needed) and make ``import cutadapt`` resolve to the shadow build in this process."""
    d = shadow_build(root)
    for k in [k for k in sys.modules if k == "cutadapt" or k.startswith("cutadapt.")]:
        del sys.modules[k]
    if d in sys.path:
        sys.path.remove(d)
    sys.path.insert(0, d)
    import cutadapt  # noqa

    assert os.path.dirname(os.path.dirname(cutadapt.__file__)) == d, cutadapt.__file__
    return d


if __name__ == "__main__":
    print(shadow_build())
