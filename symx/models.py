"""Models of operators, builtins, string/container methods and of the C-API / libc functions the
kernels call.  Everything here is part of the trusted base and is exercised by the differential
translator validation (symx.validate)."""
import ast
import builtins as _b
import collections
import operator

import z3

from . import values as V
from .values import (SInt, SBool, SBV, SStr, SBytes, SFloatTab, Struct, CArr, Ptr, Union, Indeterminate, Unsupported,
                     mk_bool, mk_int, zb, zi, merge, neg, g_and, FALSE)
from .program import IFunc, IMethod, IClass, Obj


class Extern:
    """A modelled external function: fn(interp, *args)."""

    def __init__(self, fn, name=""):
        self.fn = fn
        self.name = name or getattr(fn, "__name__", "")

    def __repr__(self):
        return "<Extern %s>" % self.name


EXTERN = {}
BUILTIN_MODELS = {}   # id(native callable) -> fn(interp, *args, **kw)
TYPE_MODELS = {}      # live type -> fn(interp, *args, **kw)
METHOD_MODELS = {}    # type name -> set of method names (filled from the m_* functions)


def extern(name):
    def deco(fn):
        EXTERN[name] = Extern(fn, name)
        return fn
    return deco


def builtin(obj):
    def deco(fn):
        BUILTIN_MODELS[id(obj)] = fn
        return fn
    return deco


def deep_sym(x, depth=0):
    if V.is_sym(x) or isinstance(x, (Obj, IClass, IFunc, IMethod, ISet, IDict, Struct, CArr, Ptr)):
        return True
    if depth > 3:
        return False
    if isinstance(x, (list, tuple, set, frozenset)):
        return any(deep_sym(y, depth + 1) for y in x)
    if isinstance(x, dict):
        return any(deep_sym(k, depth + 1) or deep_sym(v, depth + 1) for k, v in x.items())
    return False


# ------------------------------------------------------------------------------ equality
def sym_eq(it, a, b):
    """Generic == : bool | SBool"""
    a, b = it.resolve(a), it.resolve(b)
    if isinstance(a, Union) or isinstance(b, Union):
        if isinstance(b, Union):
            a, b = b, a
        parts = []
        for c, x in a.alts:
            r = sym_eq(it, x, b)
            if r is True:
                parts.append(c)
            elif r is not False:
                parts.append(z3.And(c, r.e))
        return mk_bool(z3.Or(*parts)) if parts else False
    if isinstance(a, (SBV,)) or isinstance(b, SBV):
        if isinstance(a, (int, SInt, SBV, SBool, bool)) and isinstance(b, (int, SInt, SBV, SBool, bool)):
            w = a.w if isinstance(a, SBV) else b.w
            if isinstance(a, SBV) and isinstance(b, SBV):
                w = max(a.w, b.w)
            return mk_bool(z3.simplify(V.to_bv(a, w) == V.to_bv(b, w)))
        return False
    num = (int, SInt, SBool, bool)
    if isinstance(a, num) and isinstance(b, num):
        if isinstance(a, (bool, SBool)) and isinstance(b, (bool, SBool)):
            if isinstance(a, bool) and isinstance(b, bool):
                return a == b
            return mk_bool(zb(a) == zb(b))
        return V.int_cmp("==", a if not isinstance(a, SBool) else mk_int(zi(a), 0, 1), b if not isinstance(b, SBool) else mk_int(zi(b), 0, 1))
    if isinstance(a, V.SFP) or isinstance(b, V.SFP):
        return V.fp_cmp("==", a, b)
    if isinstance(a, SFloatTab) or isinstance(b, SFloatTab):
        return V.float_tab_cmp("==", a, b)
    strs = (str, bytes, SStr)
    if isinstance(a, strs) and isinstance(b, strs):
        return V.str_eq(a, b)
    if isinstance(a, (bytes, SBytes)) and len(a) == 1 and isinstance(b, (int, SInt)) and not isinstance(b, bool):
        return V.int_cmp("==", V.str_chars(a)[0], b)   # Cython: char == b"T"
    if isinstance(b, (bytes, SBytes)) and len(b) == 1 and isinstance(a, (int, SInt)) and not isinstance(a, bool):
        return V.int_cmp("==", a, V.str_chars(b)[0])
    if isinstance(a, (tuple, list)) and isinstance(b, (tuple, list)) and type(a) is type(b):
        if len(a) != len(b):
            return False
        parts = []
        for x, y in zip(a, b):
            r = sym_eq(it, x, y)
            if r is False:
                return False
            if r is not True:
                parts.append(r.e)
        return True if not parts else mk_bool(z3.And(*parts))
    if isinstance(a, Ptr) or isinstance(b, Ptr):
        if isinstance(a, Ptr) and isinstance(b, Ptr):
            if a.arr is not b.arr:
                return False
            return V.int_cmp("==", a.off, b.off)
        return False
    if V.is_sym(a) or V.is_sym(b):
        return False
    if isinstance(a, Obj) or isinstance(b, Obj):
        return a is b
    f = it.lookup_special(a, "__eq__")
    if f is not None and not isinstance(a, (int, str, float, tuple)):
        return mk_or_bool(it, it.call_value(f, [b], {}))
    try:
        return bool(a == b)
    except Unsupported:
        raise
    except Exception:
        return a is b


def mk_or_bool(it, v):
    t = it.truth(v)
    return t if isinstance(t, bool) else SBool(t)


_CMP = {ast.Lt: "<", ast.LtE: "<=", ast.Gt: ">", ast.GtE: ">=", ast.Eq: "==", ast.NotEq: "!="}


def compare(it, op, a, b):
    """-> bool | SBool"""
    t = type(op)
    if t in (ast.Eq, ast.NotEq):
        r = sym_eq(it, a, b)
        if t is ast.Eq:
            return r
        return (not r) if isinstance(r, bool) else mk_bool(neg(r.e))
    if t in (ast.Is, ast.IsNot):
        r = sym_is(it, a, b)
        if t is ast.Is:
            return r
        return (not r) if isinstance(r, bool) else mk_bool(neg(r.e))
    if t in (ast.In, ast.NotIn):
        r = sym_in(it, a, b)
        if t is ast.In:
            return r
        return (not r) if isinstance(r, bool) else mk_bool(neg(r.e))
    o = _CMP[t]
    if isinstance(a, Ptr) and isinstance(b, Ptr):
        if a.arr is not b.arr:
            raise Unsupported("comparison of pointers into different objects")
        return V.int_cmp(o, a.off, b.off)
    setlike = (ISet, set, frozenset)
    if isinstance(a, setlike) and isinstance(b, setlike) and (isinstance(a, ISet) or isinstance(b, ISet)):
        if o == "<=":
            return set_le(it, a, b)
        if o == ">=":
            return set_le(it, b, a)
        raise Unsupported("strict subset test on symbolic sets")
    if isinstance(a, SBV) or isinstance(b, SBV):
        w = a.w if isinstance(a, SBV) else b.w
        sg = a.signed if isinstance(a, SBV) else b.signed
        x, y = V.to_bv(a, w), V.to_bv(b, w)
        if sg:
            e = {"<": x < y, "<=": x <= y, ">": x > y, ">=": x >= y}[o]
        else:
            e = {"<": z3.ULT(x, y), "<=": z3.ULE(x, y), ">": z3.UGT(x, y), ">=": z3.UGE(x, y)}[o]
        return mk_bool(e)
    if isinstance(a, V.SFP) or isinstance(b, V.SFP):
        return V.fp_cmp(o, a, b)
    if isinstance(a, V.SReal) or isinstance(b, V.SReal):
        x, y = V.zr(a), V.zr(b)
        return mk_bool({"<": x < y, "<=": x <= y, ">": x > y, ">=": x >= y}[o])
    if isinstance(a, SFloatTab) or isinstance(b, SFloatTab):
        return V.float_tab_cmp(o, a, b)
    if isinstance(a, (SInt, SBool)) or isinstance(b, (SInt, SBool)):
        if isinstance(a, float) or isinstance(b, float):
            # int compared with a concrete double
            if isinstance(b, float):
                return V.float_tab_cmp(o, a, SFloatTab([(z3.BoolVal(True), b)]))
            return V.float_tab_cmp(o, SFloatTab([(z3.BoolVal(True), a)]), b)
        if isinstance(a, SBool):
            a = mk_int(zi(a), 0, 1)
        if isinstance(b, SBool):
            b = mk_int(zi(b), 0, 1)
        if isinstance(a, (bytes, SBytes)) and len(a) == 1:
            a = V.str_chars(a)[0]
        if isinstance(b, (bytes, SBytes)) and len(b) == 1:
            b = V.str_chars(b)[0]
        return V.int_cmp(o, a, b)
    if isinstance(a, Union) or isinstance(b, Union) or V.is_sym(a) or V.is_sym(b):
        raise Unsupported("ordering comparison of %r and %r" % (a, b))
    return {"<": operator.lt, "<=": operator.le, ">": operator.gt, ">=": operator.ge}[o](a, b)


def sym_is(it, a, b):
    if isinstance(a, Union) or isinstance(b, Union):
        if isinstance(b, Union):
            a, b = b, a
        parts = []
        for c, x in a.alts:
            r = sym_is(it, x, b)
            if r is True:
                parts.append(c)
            elif r is not False:
                parts.append(z3.And(c, r.e))
        return mk_bool(z3.Or(*parts)) if parts else False
    if b is None or a is None:
        return a is b
    if isinstance(a, (bool, SBool)) and isinstance(b, (bool, SBool)):
        return sym_eq(it, a, b)
    if V.is_sym(a) or V.is_sym(b):
        if isinstance(a, (int, SInt)) and isinstance(b, (int, SInt)):
            return sym_eq(it, a, b)
        return a is b
    return a is b


def sym_in(it, x, cont):
    if isinstance(cont, (ISet, IDict)):
        return cont.contains(x)
    if isinstance(cont, (str, SStr, bytes)) and isinstance(x, (str, SStr, bytes)):
        n = len(x)
        if n == 0:
            return True
        cc = V.str_chars(cont)
        parts = []
        for i in range(len(cc) - n + 1):
            r = V.str_eq(V.mk_str(cc[i:i + n], V.str_kind(cont)), x)
            if r is True:
                return True
            if r is not False:
                parts.append(r.e)
        return mk_bool(z3.Or(*parts)) if parts else False
    if isinstance(cont, Union) or isinstance(x, Union):
        u, other_is_cont = (cont, False) if isinstance(cont, Union) else (x, True)
        parts = []
        for c, alt in u.alts:
            if alt is None:
                continue
            r = sym_in(it, x, alt) if not other_is_cont else sym_in(it, alt, cont)
            if r is True:
                parts.append(c)
            elif r is not False:
                parts.append(z3.And(c, r.e))
        return mk_bool(z3.Or(*parts)) if parts else False
    if isinstance(cont, dict):
        cont = list(cont.keys())
    if isinstance(cont, (list, tuple, set, frozenset)):
        if not deep_sym(x) and not deep_sym(cont):
            return x in cont
        if isinstance(x, SStr) and len(x) == 1 and isinstance(x.chars[0], SInt) and x.chars[0].dom is not None \
                and all(isinstance(y, str) and len(y) == 1 for y in cont):
            c = x.chars[0]
            hit = c.dom & frozenset(ord(y) for y in cont)
            if hit == c.dom:
                return True
            if not hit:
                return False
            return mk_bool(V.in_ranges(c.e, hit))
        parts = []
        for y in cont:
            r = sym_eq(it, x, y)
            if r is True:
                return True
            if r is not False:
                parts.append(r.e)
        return mk_bool(z3.Or(*parts)) if parts else False
    if deep_sym(x) or deep_sym(cont):
        raise Unsupported("membership test %r in %r" % (x, cont))
    return x in cont


# ------------------------------------------------------------------------------ arithmetic
_OPS = {ast.Add: operator.add, ast.Sub: operator.sub, ast.Mult: operator.mul, ast.Div: operator.truediv,
        ast.FloorDiv: operator.floordiv, ast.Mod: operator.mod, ast.Pow: operator.pow, ast.LShift: operator.lshift,
        ast.RShift: operator.rshift, ast.BitAnd: operator.and_, ast.BitOr: operator.or_, ast.BitXor: operator.xor}


def _bits_needed(x):
    lo, hi = V.bounds(x)
    if lo is None or hi is None:
        return 64
    for w in (8, 16, 32, 64):
        if -(1 << (w - 1)) <= lo and hi < (1 << w):
            return w
    return 64


def binop(it, op, a, b, aug=False):
    t = type(op)
    if isinstance(a, Union) or isinstance(b, Union):
        raise Unsupported("arithmetic on a union")
    if isinstance(a, Ptr) or isinstance(b, Ptr):
        if t is ast.Add:
            p, n = (a, b) if isinstance(a, Ptr) else (b, a)
            return Ptr(p.arr, V.int_add(p.off, n), p.ctype)
        if t is ast.Sub and isinstance(a, Ptr) and not isinstance(b, Ptr):
            return Ptr(a.arr, V.int_sub(a.off, b), a.ctype)
        if t is ast.Sub and isinstance(b, Ptr) and a.arr is b.arr:
            return V.int_sub(a.off, b.off)
        raise Unsupported("pointer arithmetic")
    if isinstance(a, CArr) and t is ast.Add:
        return Ptr(a, b)
    if isinstance(a, SBool):
        a = mk_int(zi(a), 0, 1)
    if isinstance(b, SBool):
        b = mk_int(zi(b), 0, 1)
    sym_a, sym_b = V.is_sym(a), V.is_sym(b)
    if not sym_a and not sym_b:
        if isinstance(a, (ISet, IDict)) or isinstance(b, (ISet, IDict)):
            return container_binop(it, t, a, b)
        if isinstance(a, list) and aug and t is ast.Add:
            a.extend(b)
            return a
        return _OPS[t](a, b)
    # strings
    if isinstance(a, (SStr, str, bytes)) and isinstance(b, (SStr, str, bytes)) and t is ast.Add:
        return V.mk_str(V.str_chars(a) + V.str_chars(b), V.str_kind(a))
    if isinstance(a, SStr) and isinstance(b, int) and t is ast.Mult:
        return V.mk_str(a.chars * b, a.kind)
    # bit-vectors
    if isinstance(a, SBV) or isinstance(b, SBV):
        w = a.w if isinstance(a, SBV) else b.w
        if isinstance(a, SBV) and isinstance(b, SBV):
            w = max(a.w, b.w)
        sg = (a.signed if isinstance(a, SBV) else True) and (b.signed if isinstance(b, SBV) else True)
        x, y = V.to_bv(a, w), V.to_bv(b, w)
        if t in (ast.LShift, ast.RShift):
            sh = b
            lo, hi = V.bounds(sh) if not isinstance(sh, SBV) else (0, None)
            if lo is None or hi is None or lo < 0 or hi >= w:
                it.oblige(z3.ULT(y, z3.BitVecVal(w, w)), "shift count out of range", "overflow")
            return V.mk_bv(x << y if t is ast.LShift else (x >> y if sg else z3.LShR(x, y)), w, sg)
        f = {ast.Add: lambda: x + y, ast.Sub: lambda: x - y, ast.Mult: lambda: x * y, ast.BitAnd: lambda: x & y,
             ast.BitOr: lambda: x | y, ast.BitXor: lambda: x ^ y}.get(t)
        if f is None:
            raise Unsupported("bit-vector operator " + t.__name__)
        return V.mk_bv(f(), w, sg)
    # IEEE doubles (z3 FloatingPoint)
    if isinstance(a, V.SFP) or isinstance(b, V.SFP):
        o = {ast.Add: "+", ast.Sub: "-", ast.Mult: "*", ast.Div: "/"}.get(t)
        if o is None:
            raise Unsupported("floating-point operator " + t.__name__)
        return V.fp_binop(o, a, b)
    # exact reals (summation of table entries)
    if isinstance(a, V.SReal) or isinstance(b, V.SReal):
        if t is ast.Add and isinstance(a, (V.SReal, float, int)) and isinstance(b, (V.SReal, float, int)):
            return V.SReal(V.zr(a) + V.zr(b))
        raise Unsupported("real arithmetic %s" % t.__name__)
    # floats
    if isinstance(a, float) or isinstance(b, float):
        f, i = (a, b) if isinstance(a, float) else (b, a)
        if t is ast.Mult and isinstance(i, SInt):
            return V.float_tab_mul(i, f)
        if t is ast.Div and isinstance(a, float) and isinstance(b, SInt) and b.lo is not None and b.hi is not None and b.hi - b.lo <= 64:
            if b.lo <= 0 <= b.hi:
                it.oblige(b.e != 0, "division by zero", "arith")
            return SFloatTab([(b.e == v, a / v) for v in range(b.lo, b.hi + 1) if v != 0])
        raise Unsupported("floating-point %s with a symbolic operand" % t.__name__)
    if isinstance(a, SFloatTab) or isinstance(b, SFloatTab):
        raise Unsupported("arithmetic on a symbolic double")
    if isinstance(a, (int, SInt)) and isinstance(b, (int, SInt)):
        if t is ast.Add:
            return V.int_add(a, b)
        if t is ast.Sub:
            return V.int_sub(a, b)
        if t is ast.Mult:
            return V.int_mul(a, b)
        if t is ast.FloorDiv:
            return V.int_floordiv(a, b)
        if t is ast.Mod:
            return V.int_mod(a, b)
        if t in (ast.BitAnd, ast.BitOr, ast.BitXor, ast.LShift, ast.RShift):
            if t is ast.LShift and not isinstance(b, SInt):
                return V.int_mul(a, 1 << b)
            if t is ast.BitAnd and not isinstance(b, SInt) and b >= 0 and (b & (b + 1)) == 0 and V.bounds(a)[0] is not None and V.bounds(a)[0] >= 0:
                return V.int_mod(a, b + 1)
            w = max(_bits_needed(a), _bits_needed(b))
            x, y = V.to_bv(a, w), V.to_bv(b, w)
            e = {ast.BitAnd: lambda: x & y, ast.BitOr: lambda: x | y, ast.BitXor: lambda: x ^ y,
                 ast.LShift: lambda: x << y, ast.RShift: lambda: x >> y}[t]()
            return V.mk_bv(e, w, False)
        if t is ast.Div:
            if isinstance(b, SInt) and not isinstance(a, SInt) and b.lo is not None and b.hi is not None and b.hi - b.lo <= 64:
                if b.lo <= 0 <= b.hi:
                    it.oblige(b.e != 0, "division by zero", "arith")
                return SFloatTab([(b.e == v, a / v) for v in range(b.lo, b.hi + 1) if v != 0])
            if isinstance(a, SInt) and None not in (a.lo, a.hi) and (not isinstance(b, SInt) or None not in (b.lo, b.hi)):
                # int / int -> the exact IEEE quotient of every pair of values (regime (i): enumerated by Python)
                bl, bh = (b.lo, b.hi) if isinstance(b, SInt) else (b, b)
                if (a.hi - a.lo + 1) * (bh - bl + 1) <= 40000:
                    if bl <= 0 <= bh:
                        it.oblige((b.e if isinstance(b, SInt) else z3.IntVal(b)) != 0, "division by zero", "arith")
                    ents = []
                    for j in range(bl, bh + 1):
                        if j == 0:
                            continue
                        cj = (b.e == j) if isinstance(b, SInt) else None
                        for i in range(a.lo, a.hi + 1):
                            ents.append((z3.And(a.e == i, cj) if cj is not None else (a.e == i), i / j))
                    return SFloatTab(ents)
            raise Unsupported("true division with a symbolic operand")
    raise Unsupported("binary %s on %r and %r" % (t.__name__, a, b))


def container_binop(it, t, a, b):
    if isinstance(a, ISet) and t is ast.BitOr:
        r = ISet(it, a.items)
        for x in it.iterate_concrete(b):
            r.add(x)
        return r
    raise Unsupported("container operator")


def cast(it, ctype, v):
    mod = it.frame.module
    t = mod.types.parse(ctype)
    v = it.resolve(v)
    if t.kind == "ptr":
        if isinstance(v, V.RawMem):
            return typed_alloc(it, v, t)
        if isinstance(v, Ptr):
            return Ptr(v.arr, v.off, t.target.name)
        if isinstance(v, (bytes, SBytes)):
            return bytes_ptr(it, v)
        if t.target.name == "PyObject":
            return v
        raise Unsupported("cast of %r to %s" % (v, ctype))
    if t.kind == "int":
        if isinstance(v, float):
            return it.coerce(int(v), ctype, "cast")
        if isinstance(v, SFloatTab):
            return it.coerce(V.float_tab_trunc(v), ctype, "cast")
        if isinstance(v, (SInt, int)) and not mod.types.is_bv(t):
            lo, hi = V.bounds(v)
            if lo is not None and hi is not None and lo >= t.lo and hi <= t.hi:
                return v
            # explicit cast: modular (unsigned) or implementation-defined wrap (signed; gcc wraps)
            m = 1 << t.bits
            if isinstance(v, int):
                r = v % m
                return r - m if t.signed and r >= m // 2 else r
            r = V.int_mod(v, m)
            if t.signed:
                r = V.int_ite(r.e >= m // 2, V.int_sub(r, m), r) if isinstance(r, SInt) else r
            return r
        return it.coerce(v, ctype, "cast")
    if t.kind == "float":
        if isinstance(v, (int, float)):
            return float(v)
        return v
    if t.kind == "bool":
        return it.coerce(v, ctype, "cast")
    return v


# ------------------------------------------------------------------------------ memory
def elem_default(it, ctype, what):
    t = it.frame.module.types.parse(ctype)
    if t.kind == "struct":
        return Struct(t.name, {k: Indeterminate(what + "." + k) for k in t.fields})
    return Indeterminate(what)


def typed_alloc(it, raw, t):
    """<T*> PyMem_Realloc(old, nbytes): a fresh array holding the old elements."""
    et = t.target
    sz = it.frame.module.types.sizeof(et)
    n = raw.nbytes
    if isinstance(n, SInt):
        raise Unsupported("allocation of symbolic size")
    count = n // sz
    old = raw.old
    elems = []
    if isinstance(old, Ptr) and old.arr is not None:
        elems = list(old.arr.elems[: count])
    name = "heap%d" % next(V._counter)
    while len(elems) < count:
        elems.append(elem_default(it, et.name, "%s[%d]" % (name, len(elems))))
    return Ptr(CArr(elems, et.name, name), 0)


def bytes_ptr(it, b):
    if isinstance(b, SBytes):
        return Ptr(b.arr, 0, "char")
    cache = it.__dict__.setdefault("_bytes_arrs", {})
    a = cache.get(id(b))
    if a is None or a[0] is not b:
        # seen through a (signed) char*: bytes >= 0x80 are negative, as in C on this platform
        a = (b, CArr([x - 256 if x >= 128 else x for x in b] + [0], "char", "bytes"))
        cache[id(b)] = a
    return Ptr(a[1], 0, "char")


def _index_candidates(idx, n):
    lo, hi = V.bounds(idx)
    lo = 0 if lo is None else max(lo, 0)
    hi = n - 1 if hi is None else min(hi, n - 1)
    if isinstance(idx, SInt) and idx.dom is not None:
        return [i for i in sorted(idx.dom) if lo <= i <= hi]
    return list(range(lo, hi + 1))


def _table_lookup(it, idx, elems, cand):
    """Read elems[idx] where all candidate elements are concrete ints: piecewise encoding."""
    vals = [elems[i] for i in cand]
    x = idx.e
    # constant runs
    groups = collections.OrderedDict()
    for i, v in zip(cand, vals):
        groups.setdefault(v, []).append(i)
    # affine runs (elem - index constant)
    aff = collections.OrderedDict()
    for i, v in zip(cand, vals):
        aff.setdefault(v - i, []).append(i)
    if len(aff) < len(groups) and len(aff) <= 8:
        items = list(aff.items())
        e = x + items[-1][0]
        for d, idxs in reversed(items[:-1]):
            e = z3.If(V.in_ranges(x, idxs), x + d, e)
        return mk_int(e, min(vals), max(vals))
    items = list(groups.items())
    if len(items) == 1:
        return items[0][0]
    cases = [(V.in_ranges(x, idxs), v) for v, idxs in items]
    e = V.ival(cases[-1][1])
    for c, v in reversed(cases[:-1]):
        e = z3.If(c, V.ival(v), e)
    return SInt(e, min(vals), max(vals), cases=cases, dom=frozenset(groups) if len(groups) <= 64 else None)


def arr_read(it, arr, idx, what="array"):
    n = len(arr.elems)
    if arr is None:
        raise Unsupported("NULL dereference")
    if not isinstance(idx, SInt):
        idx = int(idx)
        if idx < 0 or idx >= n:
            it.oblige(False, "out-of-bounds read %s[%d] (size %d)" % (arr.name or what, idx, n), "bounds")
            return V.fresh_int("oob", -128, 255)
        v = arr.elems[idx]
        if isinstance(v, Indeterminate):
            v = it.materialise(v, arr.ctype, it.frame.module)
            arr.elems[idx] = v
        return it.resolve(v)
    lo, hi = V.bounds(idx)
    if lo is None or hi is None or lo < 0 or hi >= n:
        it.oblige(z3.And(idx.e >= 0, idx.e < n), "out-of-bounds read of %s (size %d)" % (arr.name or what, n), "bounds")
    cand = _index_candidates(idx, n)
    if not cand:
        return V.fresh_int("oob", -128, 255)
    for i in cand:
        if isinstance(arr.elems[i], Indeterminate):
            arr.elems[i] = it.materialise(arr.elems[i], arr.ctype, it.frame.module)
    if all(isinstance(arr.elems[i], int) and not isinstance(arr.elems[i], bool) for i in cand):
        return _table_lookup(it, idx, arr.elems, cand)
    # group identical elements
    index = {}
    groups = []
    for i in cand:
        v = arr.elems[i]
        if isinstance(v, (SInt, SBV)):
            k = ("s", type(v), v.e.get_id())
        elif isinstance(v, (int, bool, str, bytes, type(None))):
            k = ("c", type(v), v)
        else:
            k = ("o", id(v))
        gp = index.get(k)
        if gp is None:
            gp = (v, [i])
            index[k] = gp
            groups.append(gp)
        else:
            gp[1].append(i)
    v = groups[-1][0]
    for x, idxs in reversed(groups[:-1]):
        v = merge(V.in_ranges(idx.e, idxs), x, v)
    return v


def arr_write(it, arr, idx, v, what="array"):
    n = len(arr.elems)
    a = it.sg()
    mod = it.frame.module
    t = mod.types.parse(arr.ctype) if isinstance(arr.ctype, str) else None
    if t is not None and t.kind in ("int", "bool", "struct"):
        v = it.coerce(v, arr.ctype, "store to " + (arr.name or what))
    if not isinstance(idx, SInt):
        idx = int(idx)
        if idx < 0 or idx >= n:
            it.oblige(False, "out-of-bounds write %s[%d] (size %d)" % (arr.name or what, idx, n), "bounds")
            return
        old = arr.elems[idx]
        if a.is_true() or isinstance(old, Indeterminate):
            arr.elems[idx] = v
        else:
            arr.elems[idx] = it.merge_typed(arr.ctype if isinstance(arr.ctype, str) else None, a.e, v, old, a)
        return
    lo, hi = V.bounds(idx)
    if lo is None or hi is None or lo < 0 or hi >= n:
        it.oblige(z3.And(idx.e >= 0, idx.e < n), "out-of-bounds write of %s (size %d)" % (arr.name or what, n), "bounds")
    for i in _index_candidates(idx, n):
        old = arr.elems[i]
        if isinstance(old, Indeterminate):
            old = it.materialise(old, arr.ctype, mod)
        c = idx.e == i
        if not a.is_true():
            c = z3.And(a.e, c)
        arr.elems[i] = it.merge_typed(arr.ctype if isinstance(arr.ctype, str) else None, c, v, old)


def norm_index(i, n):
    if isinstance(i, SInt):
        if i.lo is not None and i.lo >= 0:
            return i
        if i.hi is not None and i.hi < 0:
            return V.int_add(i, n)
        return V.int_ite(i.e < 0, V.int_add(i, n), i)
    return i + n if i < 0 else i


def seq_slice(it, seq, s):
    """Slice of a python sequence / string with concrete or symbolic-but-determined bounds."""
    n = len(seq)
    def fix(x, default):
        if x is None:
            return default
        x = it.resolve(x)
        if isinstance(x, SInt):
            if x.lo is not None and x.lo == x.hi:
                return x.lo
            raise Unsupported("slice with a symbolic bound")
        return x
    step = fix(s.step, 1)
    start, stop = fix(s.start, None), fix(s.stop, None)
    return slice(start, stop, step)


def getitem(it, obj, idx):
    if isinstance(idx, Union) and not isinstance(obj, Union):
        # distribute over the alternatives of the key (exceptions are parked under the alternative's guard)
        g0 = it.g
        outs, gs = [], []
        for c, k in idx.alts:
            gi = g_and(g0, c)
            if gi is FALSE:
                continue
            it.g = gi
            r = getitem(it, obj, k)
            outs.append((c, r))
            gs.append(it.g)
        from .values import g_or
        it.g = g_or(gs)
        if not outs:
            return None
        v = outs[-1][1]
        for c, x in reversed(outs[:-1]):
            v = merge(c, x, v)
        return v
    if isinstance(obj, Union):
        outs = []
        for c, x in obj.alts:
            if x is None:
                continue
            outs.append((c, getitem(it, x, idx)))
        drop = [c for c, x in obj.alts if x is None]
        if drop:
            it.oblige(neg(z3.Or(*drop)) if len(drop) > 1 else neg(drop[0]), "subscript of None", "type")
        v = outs[-1][1]
        for c, x in reversed(outs[:-1]):
            v = merge(c, x, v)
        return v
    if isinstance(obj, V.RealTable):
        n = len(obj.values)
        if not isinstance(idx, SInt):
            if 0 <= idx < n:
                return obj.values[idx]
            it.oblige(False, "out-of-bounds read %s[%d]" % (obj.name, idx), "bounds")
            return 0.0
        lo, hi = V.bounds(idx)
        if lo is None or hi is None or lo < 0 or hi >= n:
            it.oblige(z3.And(idx.e >= 0, idx.e < n), "out-of-bounds read of %s (size %d)" % (obj.name, n), "bounds")
        if not getattr(it.ctx, "_tab_" + obj.name, False):
            setattr(it.ctx, "_tab_" + obj.name, True)
            for ax in obj.axioms():
                it.ctx.assume(ax)
        return V.SReal(obj.fn(idx.e))
    if isinstance(obj, Ptr):
        if obj.arr is None:
            it.oblige(False, "NULL pointer dereference", "bounds")
            return V.fresh_int("null")
        return arr_read(it, obj.arr, V.int_add(obj.off, idx))
    if isinstance(obj, CArr):
        return arr_read(it, obj, idx)
    if isinstance(obj, (str, bytes, SStr)):
        chars = V.str_chars(obj)
        kind = V.str_kind(obj)
        if isinstance(idx, slice):
            return V.mk_str(chars[seq_slice(it, chars, idx)], kind)
        n = len(chars)
        if isinstance(idx, SInt):
            i = norm_index(idx, n)
            lo, hi = V.bounds(i)
            cand = _index_candidates(i, n)
            if lo is None or hi is None or lo < 0 or hi >= n:
                it.oblige(z3.And(zi(i) >= 0, zi(i) < n), "string index out of range", "bounds")
            if not cand:
                return V.mk_str([V.fresh_int("oob", 0, 127)], kind)
            c = chars[cand[-1]]
            for j in reversed(cand[:-1]):
                c = merge(zi(i) == j, chars[j], c)
            return V.mk_str([c], kind) if kind == "str" else c
        i = idx + n if idx < 0 else idx
        if i < 0 or i >= n:
            raise IndexError("string index out of range")
        return V.mk_str([chars[i]], kind) if kind == "str" else chars[i]
    if isinstance(obj, IDict):
        return obj.get_item(idx)
    if isinstance(obj, (list, tuple)):
        if isinstance(idx, slice):
            return obj[seq_slice(it, obj, idx)]
        if isinstance(idx, SInt):
            n = len(obj)
            i = norm_index(idx, n)
            lo, hi = V.bounds(i)
            if lo is None or hi is None or lo < 0 or hi >= n:
                it.oblige(z3.And(zi(i) >= 0, zi(i) < n), "list index out of range", "bounds")
            cand = _index_candidates(i, n)
            v = obj[cand[-1]]
            for j in reversed(cand[:-1]):
                v = merge(zi(i) == j, obj[j], v)
            return v
        return obj[idx]
    if isinstance(obj, dict):
        if deep_sym(idx):
            return IDict.from_native(it, obj).get_item(idx)
        return obj[idx]
    if isinstance(obj, Obj):
        f = obj.cls.find("__getitem__")
        if f is None:
            raise TypeError("object is not subscriptable")
        return it.call_ifunc(f, [obj, idx], {})
    if V.is_sym(obj):
        raise Unsupported("subscript of %r" % (obj,))
    if getattr(obj, "__symx__", False):
        return obj.symx_getitem(it, idx)
    f = it.lookup_special(obj, "__getitem__")
    if f is not None:
        return it.call_value(f, [idx], {})
    if deep_sym(idx):
        raise Unsupported("symbolic subscript of %r" % (type(obj),))
    return obj[idx]


def setitem(it, obj, idx, v):
    if isinstance(obj, Ptr):
        return arr_write(it, obj.arr, V.int_add(obj.off, idx), v)
    if isinstance(obj, CArr):
        return arr_write(it, obj, idx, v)
    if isinstance(obj, IDict):
        return obj.set(idx, v)
    a = it.sg()
    if isinstance(obj, list):
        if isinstance(idx, SInt):
            raise Unsupported("list store at a symbolic index")
        if isinstance(idx, slice):
            raise Unsupported("slice assignment")
        if not a.is_true():
            v = merge(a.e, v, obj[idx], a)
        obj[idx] = v
        return
    if isinstance(obj, dict):
        if deep_sym(idx):
            raise Unsupported("native dict store with a symbolic key")
        if not a.is_true():
            if idx in obj:
                v = merge(a.e, v, obj[idx], a)
            else:
                raise Unsupported("guarded insertion into a dict")
        obj[idx] = v
        return
    if isinstance(obj, Obj):
        f = obj.cls.find("__setitem__")
        return it.call_ifunc(f, [obj, idx, v], {})
    raise Unsupported("item store on %r" % (type(obj),))


def delitem(it, obj, idx):
    if isinstance(obj, IDict):
        return obj.delete(idx)
    if deep_sym(idx):
        raise Unsupported("del with symbolic key")
    del obj[idx]


# ------------------------------------------------------------------------------ containers with symbolic keys
class ISet:
    """Set whose elements may be symbolic: insertion compares with every element; a symbolic
    equality forks (fork mode only).  Elements are pairwise distinct under the path condition."""

    def __init__(self, it, items=(), multi=False):
        self.it = it
        self._items = list(items)
        self.multi = multi   # True: built from a symbolic string without de-duplication (lazy)

    @property
    def items(self):
        if self.multi:
            raw, self._items, self.multi = self._items, [], False
            for x in raw:
                self.add(x)
        return self._items

    def key_eq(self, a, b):
        r = sym_eq(self.it, a, b)
        if isinstance(r, bool):
            return r
        if self.it.merge:
            raise Unsupported("symbolic key comparison in merge mode")
        return self.it.branch(r.e)

    def add(self, x):
        for y in self.items:
            if self.key_eq(x, y):
                return
        self.items.append(x)

    def contains(self, x):
        # a pure query: one disjunction (the caller branches once), never a fork per element
        if isinstance(x, (str, SStr)) and len(x) == 1:
            c = V.str_chars(x)[0]
            if isinstance(c, SInt) and c.dom is not None and all(isinstance(y, str) and len(y) == 1 for y in self._items):
                hit = c.dom & frozenset(ord(y) for y in self._items)
                if hit == c.dom:
                    return True
                if not hit:
                    return False
                return mk_bool(V.in_ranges(c.e, hit))
        parts = []
        for y in self._items:
            r = sym_eq(self.it, x, y)
            if r is True:
                return True
            if r is not False:
                parts.append(r.e)
        return mk_bool(z3.Or(*parts)) if parts else False

    def keys_list(self):
        return list(self.items)

    def simplify(self):
        return self

    def __len__(self):
        return len(self.items)

    def __iter__(self):
        return iter(list(self.items))

    def __contains__(self, x):
        r = self.contains(x)
        if isinstance(r, bool):
            return r
        raise Unsupported("native membership test with symbolic result")

    def to_native(self):
        if deep_sym(self.items):
            raise Unsupported("symbolic set passed to native code")
        return set(self.items)

    def __repr__(self):
        return "ISet(%r)" % (self._items,)


class IDict:
    def __init__(self, it, default_factory=None):
        self.it = it
        self.keys = []
        self.vals = []
        self.default_factory = default_factory

    @classmethod
    def from_native(cls, it, d):
        r = cls(it)
        r.keys = list(d.keys())
        r.vals = list(d.values())
        return r

    def _find(self, k):
        it = self.it
        for i, y in enumerate(self.keys):
            r = sym_eq(it, k, y)
            if r is True:
                return i
            if r is False:
                continue
            if it.merge:
                raise Unsupported("symbolic dict key in merge mode")
            if it.branch(r.e):
                return i
        return -1

    def get_item(self, k):
        it = self.it
        if it.merge and deep_sym(k):
            return self.get_item_merged(k)
        i = self._find(k)
        if i >= 0:
            return self.vals[i]
        if self.default_factory is not None:
            v = it.call_value(self.default_factory, [], {})
            self.keys.append(k)
            self.vals.append(v)
            return v
        raise KeyError(k)

    def get_item_merged(self, k, default=KeyError):
        """Merge-mode lookup with a symbolic key: ite over the keys, KeyError under the rest."""
        it = self.it
        alts = []
        for y, v in zip(self.keys, self.vals):
            r = sym_eq(it, k, y)
            if r is True:
                alts.append((z3.BoolVal(True), v))
                break
            if r is not False:
                alts.append((r.e, v))
        else:
            miss = neg(z3.Or(*[c for c, _ in alts])) if alts else z3.BoolVal(True)
            if default is KeyError:
                g0 = it.g
                it.g = g_and(g0, miss)
                if it.g is not FALSE:
                    it.do_raise(KeyError("symbolic key"))
                it.g = g_and(g0, neg(miss))
            else:
                alts.append((miss, default))
        if not alts:
            return None
        v = alts[-1][1]
        for c, x in reversed(alts[:-1]):
            v = merge(c, x, v)
        return v

    def get(self, k, default=None):
        if self.it.merge and deep_sym(k):
            return self.get_item_merged(k, default)
        i = self._find(k)
        return self.vals[i] if i >= 0 else default

    def set(self, k, v):
        i = self._find(k)
        if i >= 0:
            a = self.it.absg()
            self.vals[i] = v if a.is_true() else merge(a.e, v, self.vals[i], a)
        else:
            if not self.it.absg().is_true():
                raise Unsupported("guarded insertion into a dict")
            self.keys.append(k)
            self.vals.append(v)

    def delete(self, k):
        i = self._find(k)
        if i < 0:
            raise KeyError(k)
        del self.keys[i]
        del self.vals[i]

    def contains(self, k):
        if self.it.merge and deep_sym(k):
            parts = []
            for y in self.keys:
                r = sym_eq(self.it, k, y)
                if r is True:
                    return True
                if r is not False:
                    parts.append(r.e)
            return mk_bool(z3.Or(*parts)) if parts else False
        return self._find(k) >= 0

    def keys_list(self):
        return list(self.keys)

    def items_list(self):
        return list(zip(self.keys, self.vals))

    def simplify(self):
        return self

    def __len__(self):
        return len(self.keys)

    def __iter__(self):
        return iter(list(self.keys))

    def to_native(self):
        if deep_sym(self.keys):
            raise Unsupported("symbolic dict passed to native code")
        return dict(zip(self.keys, self.vals))

    def __getitem__(self, k):
        for y, v in zip(self.keys, self.vals):
            if not deep_sym(y) and not deep_sym(k) and y == k:
                return v
        raise KeyError(k)

    def __repr__(self):
        return "IDict(%r)" % (list(zip(self.keys, self.vals)),)


# ------------------------------------------------------------------------------ methods
class BoundModel:
    def __init__(self, obj, name):
        self.obj = obj
        self.name = name

    def __call__(self, it, args, kwargs):
        obj, name = self.obj, self.name
        kind = kind_of(obj)
        fn = globals().get("m_%s_%s" % (kind, name))
        native_recv = not V.is_sym(obj) and not isinstance(obj, (ISet, IDict))
        if native_recv and (fn is None or not (deep_sym(list(args)) or deep_sym(kwargs))):
            if deep_sym(list(args)) and kind in ("list", "dict") and name in ("append", "extend", "insert", "setdefault", "update", "pop", "items", "keys", "values", "copy", "clear"):
                return getattr(obj, name)(*args, **kwargs)
            if deep_sym(list(args)) or deep_sym(kwargs):
                raise Unsupported("no model for %s.%s with symbolic arguments" % (kind, name))
            return getattr(obj, name)(*args, **kwargs)
        if fn is None:
            raise Unsupported("no model for %s.%s" % (kind, name))
        return fn(it, obj, *args, **kwargs)

    def __repr__(self):
        return "<BoundModel %s.%s>" % (kind_of(self.obj), self.name)


def kind_of(obj):
    if isinstance(obj, (str,)) or (isinstance(obj, SStr) and obj.kind == "str"):
        return "str"
    if isinstance(obj, (bytes, SBytes)):
        return "bytes"
    if isinstance(obj, ISet):
        return "set"
    if isinstance(obj, IDict):
        return "dict"
    if isinstance(obj, (set, frozenset)):
        return "set"
    if isinstance(obj, Union):
        return "union"
    return type(obj).__name__


def _map_chars(s, f):
    return V.mk_str([f(c) for c in V.str_chars(s)], V.str_kind(s))


def _upper_char(c):
    if isinstance(c, int):
        return c - 32 if 97 <= c <= 122 else c
    lo, hi = V.bounds(c)
    if c.dom is not None and all(not (97 <= v <= 122) for v in c.dom):
        return c
    if hi is not None and hi < 97 or lo is not None and lo > 122:
        return c
    return mk_int(z3.If(z3.And(c.e >= 97, c.e <= 122), c.e - 32, c.e), None if lo is None else min(lo, 65), hi,
                  dom=None if c.dom is None else frozenset(v - 32 if 97 <= v <= 122 else v for v in c.dom))


def _lower_char(c):
    if isinstance(c, int):
        return c + 32 if 65 <= c <= 90 else c
    lo, hi = V.bounds(c)
    if c.dom is not None and all(not (65 <= v <= 90) for v in c.dom):
        return c
    if hi is not None and hi < 65 or lo is not None and lo > 90:
        return c
    return mk_int(z3.If(z3.And(c.e >= 65, c.e <= 90), c.e + 32, c.e), lo, None if hi is None else max(hi, 122),
                  dom=None if c.dom is None else frozenset(v + 32 if 65 <= v <= 90 else v for v in c.dom))


def _ascii_only(it, s, what):
    for c in V.str_chars(s):
        lo, hi = V.bounds(c)
        if hi is None or hi > 127:
            raise Unsupported("%s on a string that may contain non-ASCII characters" % what)


def m_str_upper(it, s):
    _ascii_only(it, s, "upper()")
    return _map_chars(s, _upper_char)


def m_str_lower(it, s):
    _ascii_only(it, s, "lower()")
    return _map_chars(s, _lower_char)


m_bytes_upper = m_str_upper
m_bytes_lower = m_str_lower


def m_str_replace(it, s, old, new, count=-1):
    if count != -1:
        raise Unsupported("replace with count")
    if len(old) == 1 and len(new) == 1:
        o, n = V.str_chars(old)[0], V.str_chars(new)[0]
        def f(c):
            r = V.int_cmp("==", c, o)
            if r is True:
                return n
            if r is False:
                return c
            x = V.int_ite(r.e, n, c)
            return x
        return _map_chars(s, f)
    raise Unsupported("replace of multi-character substrings in a symbolic string")


m_bytes_replace = m_str_replace


def m_str_count(it, s, sub, *rest):
    if rest:
        raise Unsupported("count with range")
    if len(sub) != 1:
        raise Unsupported("count of a multi-character substring in a symbolic string")
    o = V.str_chars(sub)[0]
    total = 0
    for c in V.str_chars(s):
        r = V.int_cmp("==", c, o)
        if r is True:
            total = V.int_add(total, 1)
        elif r is not False:
            total = V.int_add(total, mk_int(z3.If(r.e, V.ival(1), V.ival(0)), 0, 1))
    return total


m_bytes_count = m_str_count


def m_str_encode(it, s, encoding="utf-8", errors="strict"):
    chars = V.str_chars(s)
    for c in chars:
        lo, hi = V.bounds(c)
        if hi is None or hi > 127:
            g0 = it.g
            cond = V.int_cmp("<=", c, 127)
            if it.merge:
                it.g = g_and(g0, neg(zb(cond)))
                if it.g is not FALSE:
                    it.do_raise(UnicodeEncodeError("ascii", "?", 0, 1, "ordinal not in range(128)"))
                it.g = g_and(g0, zb(cond))
            elif not it.branch(zb(cond)):
                raise UnicodeEncodeError("ascii", "?", 0, 1, "ordinal not in range(128)")
    return V.mk_str(chars, "bytes") if not isinstance(s, SStr) else SBytes(chars)


def m_bytes_decode(it, s, *a):
    return V.mk_str(V.str_chars(s), "str")


def m_bytes_translate(it, s, table):
    arr = bytes_ptr(it, table).arr if isinstance(table, bytes) else table.arr
    out = [arr_read(it, arr, c) for c in V.str_chars(s)]
    return V.mk_str([x % 256 if isinstance(x, int) else x for x in out], "bytes")


def m_str_isascii(it, s):
    parts = []
    for c in V.str_chars(s):
        r = V.int_cmp("<=", c, 127)
        if r is False:
            return False
        if r is not True:
            parts.append(r.e)
    return mk_bool(z3.And(*parts)) if parts else True


def m_str_startswith(it, s, prefix, *rest):
    if rest:
        raise Unsupported("startswith with range")
    if isinstance(prefix, tuple):
        raise Unsupported("startswith tuple")
    n = len(prefix)
    if n > len(s):
        return False
    return V.str_eq(V.mk_str(V.str_chars(s)[:n], V.str_kind(s)), prefix)


def m_str_endswith(it, s, suffix, *rest):
    if rest:
        raise Unsupported("endswith with range")
    n = len(suffix)
    if n > len(s):
        return False
    return V.str_eq(V.mk_str(V.str_chars(s)[len(s) - n:], V.str_kind(s)), suffix)


def m_str_join(it, sep, items):
    out = []
    first = True
    for x in it.iterate_concrete(items):
        if not first:
            out.extend(V.str_chars(sep))
        first = False
        out.extend(V.str_chars(x))
    return V.mk_str(out, V.str_kind(sep))


def _decide(it, r):
    """bool | SBool -> bool (forks in fork mode)."""
    if isinstance(r, bool):
        return r
    if it.merge:
        raise Unsupported("string structure depends on symbolic characters in merge mode")
    return it.branch(r.e)


def _char_in(it, c, chars):
    """is character code c one of the characters (str) - decided, forking if necessary"""
    codes = [ord(x) for x in chars]
    if isinstance(c, int):
        return c in codes
    hit = [v for v in codes if not (c.dom is not None and v not in c.dom) and not (c.lo is not None and v < c.lo) and not (c.hi is not None and v > c.hi)]
    if not hit:
        return False
    if c.dom is not None and set(c.dom) <= set(hit):
        return True
    return _decide(it, mk_bool(V.in_ranges(c.e, hit)))


def _find_sub(it, chars, sub, start=0):
    """index of the first occurrence of the concrete/symbolic substring sub in chars at or after start, or -1 (decided)"""
    n, m = len(chars), len(sub)
    if m == 0:
        return start
    for i in range(start, n - m + 1):
        r = V.str_eq(V.mk_str(chars[i:i + m]), V.mk_str(sub))
        if _decide(it, r):
            return i
    return -1


def m_str_partition(it, s, sep):
    chars, kind = list(V.str_chars(s)), V.str_kind(s)
    sc = list(V.str_chars(sep))
    i = _find_sub(it, chars, sc)
    if i < 0:
        return (V.mk_str(chars, kind), V.mk_str([], kind), V.mk_str([], kind))
    return (V.mk_str(chars[:i], kind), V.mk_str(chars[i:i + len(sc)], kind), V.mk_str(chars[i + len(sc):], kind))


def m_str_split(it, s, sep=None, maxsplit=-1):
    chars, kind = list(V.str_chars(s)), V.str_kind(s)
    if sep is None:
        # whitespace split
        out, cur = [], []
        i = 0
        n = len(chars)
        while i < n:
            if _char_in(it, chars[i], " \t\n\r\x0b\x0c"):
                if cur:
                    out.append(cur)
                    cur = []
                    if maxsplit >= 0 and len(out) >= maxsplit:
                        j = i
                        while j < n and _char_in(it, chars[j], " \t\n\r\x0b\x0c"):
                            j += 1
                        rest = chars[j:]
                        if rest:
                            out.append(rest)
                        return [V.mk_str(x, kind) for x in out]
            else:
                cur.append(chars[i])
            i += 1
        if cur:
            out.append(cur)
        return [V.mk_str(x, kind) for x in out]
    sc = list(V.str_chars(sep))
    out = []
    start = 0
    while maxsplit < 0 or len(out) < maxsplit:
        i = _find_sub(it, chars, sc, start)
        if i < 0:
            break
        out.append(chars[start:i])
        start = i + len(sc)
    out.append(chars[start:])
    return [V.mk_str(x, kind) for x in out]


def _strip(it, s, chars, left, right):
    cs, kind = list(V.str_chars(s)), V.str_kind(s)
    if chars is None:
        chars = " \t\n\r\x0b\x0c"
    else:
        chars = "".join(chr(c) for c in V.str_chars(chars)) if not isinstance(chars, str) else chars
    a, b = 0, len(cs)
    if left:
        while a < b and _char_in(it, cs[a], chars):
            a += 1
    if right:
        while b > a and _char_in(it, cs[b - 1], chars):
            b -= 1
    return V.mk_str(cs[a:b], kind)


def m_str_strip(it, s, chars=None):
    return _strip(it, s, chars, True, True)


def m_str_lstrip(it, s, chars=None):
    return _strip(it, s, chars, True, False)


def m_str_rstrip(it, s, chars=None):
    return _strip(it, s, chars, False, True)


def m_str_find(it, s, sub, *rest):
    if rest:
        raise Unsupported("find with range")
    return _find_sub(it, list(V.str_chars(s)), list(V.str_chars(sub)))


def re_split_braces(it, pattern, s):
    """re.split("([{}])", s): split at every '{' or '}' keeping the separators."""
    if pattern != "([{}])":
        raise Unsupported("re.split with pattern %r" % (pattern,))
    chars, kind = list(V.str_chars(s)), V.str_kind(s)
    out, cur = [], []
    for c in chars:
        if _char_in(it, c, "{}"):
            out.append(V.mk_str(cur, kind))
            out.append(V.mk_str([c], kind))
            cur = []
        else:
            cur.append(c)
    out.append(V.mk_str(cur, kind))
    return out


def m_str_format(it, s, *a, **k):
    return "<formatted>"


def m_str_rjust(it, s, w, fill=" "):
    chars = list(V.str_chars(s))
    return V.mk_str([ord(fill)] * max(0, w - len(chars)) + chars, "str")


def m_str___len__(it, s):
    return len(s)


def m_list_append(it, lst, x):
    if not it.absg().is_true():
        raise Unsupported("list.append under a symbolic guard")
    lst.append(x)


def m_list_index(it, lst, x):
    for i, y in enumerate(lst):
        r = sym_eq(it, x, y)
        if r is True:
            return i
        if r is not False:
            if it.merge:
                raise Unsupported("list.index with symbolic comparison in merge mode")
            if it.branch(r.e):
                return i
    raise ValueError("not in list")


def m_set_add(it, s, x):
    if isinstance(s, ISet):
        return s.add(x)
    if deep_sym(x):
        raise Unsupported("symbolic element added to a native set")
    s.add(x)


def m_set_issubset(it, s, other):
    return set_le(it, s, other)


def m_set___le__(it, s, other):
    return set_le(it, s, other)


def m_set_update(it, s, other):
    for x in it.iterate_concrete(other):
        m_set_add(it, s, x)


def m_set_union(it, s, *others):
    r = ISet(it, list(s))
    for o in others:
        for x in it.iterate_concrete(o):
            r.add(x)
    return r


def set_le(it, a, b):
    parts = []
    for x in (a._items if isinstance(a, ISet) else a):
        r = sym_in(it, x, b)
        if r is False:
            return False
        if r is not True:
            parts.append(r.e)
    return mk_bool(z3.And(*parts)) if parts else True


def m_dict_get(it, d, k, default=None):
    if isinstance(d, IDict):
        return d.get(k, default)
    return IDict.from_native(it, d).get(k, default)


def m_dict_items(it, d):
    return d.items_list() if isinstance(d, IDict) else list(d.items())


def m_dict_keys(it, d):
    return d.keys_list() if isinstance(d, IDict) else list(d.keys())


def m_dict_values(it, d):
    return list(d.vals) if isinstance(d, IDict) else list(d.values())


def m_dict_update(it, d, other=(), **kw):
    if not isinstance(d, IDict):
        if isinstance(other, IDict):
            other = dict(zip(other.keys, other.vals))
        d.update(other, **kw)
        return None
    items = other.items_list() if isinstance(other, IDict) else (list(other.items()) if isinstance(other, dict) else list(it.iterate_concrete(other)))
    for k, v in items:
        d.set(k, v)
    for k, v in kw.items():
        d.set(k, v)
    return None


def m_dict_copy(it, d):
    if isinstance(d, IDict):
        r = IDict(it, d.default_factory)
        r.keys, r.vals = list(d.keys), list(d.vals)
        return r
    return d.copy()


def m_dict_setdefault(it, d, k, default=None):
    if isinstance(d, IDict):
        i = d._find(k)
        if i >= 0:
            return d.vals[i]
        d.set(k, default)
        return default
    return d.setdefault(k, default)


def m_dict_pop(it, d, k, *default):
    if isinstance(d, IDict):
        i = d._find(k)
        if i >= 0:
            v = d.vals[i]
            del d.keys[i]
            del d.vals[i]
            return v
        if default:
            return default[0]
        raise KeyError(k)
    return d.pop(k, *default)


def m_dict___contains__(it, d, k):
    return sym_in(it, k, d)


# ------------------------------------------------------------------------------ native calls & builtins
_SAFE_CONTAINER_METHODS = {"append", "extend", "insert", "pop", "items", "keys", "values", "copy", "clear", "setdefault", "update", "reverse", "get"}


def call_native(it, f, args, kwargs):
    model = BUILTIN_MODELS.get(id(f))
    if model is not None:
        return model(it, *args, **kwargs)
    if isinstance(f, type) and f in TYPE_MODELS:
        return TYPE_MODELS[f](it, *args, **kwargs)
    recv = getattr(f, "__self__", None)
    if isinstance(recv, (list, dict)) and getattr(f, "__name__", "") in _SAFE_CONTAINER_METHODS:
        if isinstance(recv, dict) and f.__name__ in ("get", "setdefault", "pop") and deep_sym(args[0]):
            raise Unsupported("native dict.%s with a symbolic key" % f.__name__)
        if not it.absg().is_true() and f.__name__ not in ("items", "keys", "values", "copy", "get"):
            raise Unsupported("container mutation %s under a symbolic guard" % f.__name__)
        args = [dict(zip(a.keys, a.vals)) if isinstance(a, IDict) else (list(a._items) if isinstance(a, ISet) else a) for a in args]
        return f(*args, **kwargs)
    if isinstance(f, type) and __import__("dataclasses").is_dataclass(f):
        return f(*args, **kwargs)       # generated __init__ only stores its arguments
    if deep_sym(list(args)) or deep_sym(kwargs):
        if isinstance(f, type) and issubclass(f, BaseException):
            return f(*["<sym>" if deep_sym(a) else a for a in args])
        if id(f) in it.native_ok:
            raise Unsupported("native-only function %r called with symbolic arguments" % (f,))
        raise Unsupported("native call %r with symbolic arguments" % (f,))
    args = [a.to_native() if isinstance(a, (ISet, IDict)) else a for a in args]
    return f(*args, **kwargs)


@builtin(_b.len)
def b_len(it, x):
    if isinstance(x, (SStr, ISet, IDict)):
        return len(x)
    if isinstance(x, Obj):
        f = x.cls.find("__len__")
        return it.call_ifunc(f, [x], {})
    if isinstance(x, Union):
        outs = [(c, b_len(it, v)) for c, v in x.alts if v is not None]
        v = outs[-1][1]
        for c, y in reversed(outs[:-1]):
            v = merge(c, y, v)
        return v
    if getattr(x, "__symx__", False):
        return x.symx_len(it)
    f = it.lookup_special(x, "__len__")
    if f is not None:
        return it.call_value(f, [], {})
    return len(x)


def _flatten_args(it, args):
    if len(args) == 1:
        return list(it.iterate_concrete(args[0]))
    return list(args)


@builtin(_b.min)
def b_min(it, *args, key=None, default=None):
    xs = _flatten_args(it, args)
    if key is not None:
        if deep_sym(xs):
            raise Unsupported("min with key on symbolic values")
        return min(xs, key=lambda x: it.call_value(key, [x], {}))
    if not xs:
        if default is not None:
            return default
        raise ValueError("min() arg is an empty sequence")
    v = it.resolve(xs[0])
    for x in xs[1:]:
        x = it.resolve(x)
        if isinstance(v, (int, SInt)) and isinstance(x, (int, SInt)):
            v = V.int_min(v, x)
        elif deep_sym(v) or deep_sym(x):
            raise Unsupported("min of %r, %r" % (v, x))
        else:
            v = min(v, x)
    return v


@builtin(_b.max)
def b_max(it, *args, key=None, default=None):
    xs = _flatten_args(it, args)
    if key is not None:
        if deep_sym(xs):
            raise Unsupported("max with key on symbolic values")
        return max(xs, key=lambda x: it.call_value(key, [x], {}))
    if not xs:
        if default is not None:
            return default
        raise ValueError("max() arg is an empty sequence")
    v = it.resolve(xs[0])
    for x in xs[1:]:
        x = it.resolve(x)
        if isinstance(v, (int, SInt)) and isinstance(x, (int, SInt)):
            v = V.int_max(v, x)
        elif deep_sym(v) or deep_sym(x):
            raise Unsupported("max of %r, %r" % (v, x))
        else:
            v = max(v, x)
    return v


@builtin(_b.sum)
def b_sum(it, xs, start=0):
    v = start
    for x in it.iterate_concrete(xs):
        v = binop(it, ast.Add(), it.resolve(v), it.resolve(x))
    return v


@builtin(_b.abs)
def b_abs(it, x):
    if isinstance(x, SInt):
        return V.int_max(x, V.int_neg(x))
    return abs(x)


@builtin(_b.round)
def b_round(it, x, *nd):
    x = it.resolve(x)
    if isinstance(x, SFloatTab) and not nd:
        return V.float_tab_trunc(x, round)
    if isinstance(x, SInt) and not nd:
        return x
    if V.is_sym(x) or any(V.is_sym(n) for n in nd):
        raise Unsupported("round() of %r" % (x,))
    return round(x, *nd)


@builtin(_b.any)
def b_any(it, xs):
    parts = []
    for x in it.iterate_concrete(xs):
        t = it.truth(x)
        if t is True:
            return True
        if t is not False:
            parts.append(t)
    return mk_bool(z3.Or(*parts)) if parts else False


@builtin(_b.all)
def b_all(it, xs):
    parts = []
    for x in it.iterate_concrete(xs):
        t = it.truth(x)
        if t is False:
            return False
        if t is not True:
            parts.append(t)
    return mk_bool(z3.And(*parts)) if parts else True


@builtin(_b.ord)
def b_ord(it, c):
    return V.str_chars(c)[0]


@builtin(_b.chr)
def b_chr(it, c):
    return V.mk_str([c], "str")


@builtin(_b.isinstance)
def b_isinstance(it, x, cls):
    if isinstance(cls, tuple):
        return any(b_isinstance(it, x, c) for c in cls)
    cls = it.subst.get(id(cls), cls)
    if isinstance(x, Union):
        parts = [c for c, v in x.alts if b_isinstance(it, v, cls)]
        if len(parts) == len(x.alts):
            return True
        return mk_bool(z3.Or(*parts)) if parts else False
    if isinstance(x, Obj):
        return x.cls.issubclass_of(cls)
    if isinstance(cls, IClass):
        return False
    if isinstance(x, SBytes):
        return cls in (bytes, object)
    if isinstance(x, SStr):
        return cls in (str, object)
    if isinstance(x, SInt):
        return cls in (int, object)
    if isinstance(x, SBool):
        return cls in (bool, int, object)
    if isinstance(x, ISet):
        return cls in (set, object) or cls is collections.abc.Set
    if isinstance(x, IDict):
        return cls in (dict, object, collections.defaultdict)
    return isinstance(x, cls)


@builtin(_b.range)
def b_range(it, *args):
    args = [it.resolve(a) for a in args]
    if any(isinstance(a, SInt) for a in args):
        from .interp import SRange
        if len(args) == 1:
            return SRange(0, args[0])
        if len(args) == 2:
            return SRange(args[0], args[1])
        raise Unsupported("symbolic range with a step")
    return range(*args)


@builtin(_b.reversed)
def b_reversed(it, x):
    from .interp import SRange
    if isinstance(x, SRange):
        return SRange(x.start, x.stop, not x.rev)
    if isinstance(x, SStr):
        return [V.mk_str([c], x.kind) for c in reversed(x.chars)]
    return list(reversed(x))


@builtin(_b.enumerate)
def b_enumerate(it, xs, start=0):
    return [(i, x) for i, x in enumerate(it.iterate_concrete(xs), start)]


@builtin(_b.zip)
def b_zip(it, *xss, strict=False):
    return list(zip(*[list(it.iterate_concrete(xs)) for xs in xss]))


@builtin(_b.sorted)
def b_sorted(it, xs, key=None, reverse=False):
    xs = list(it.iterate_concrete(xs))
    if deep_sym(xs):
        raise Unsupported("sorted on symbolic values")
    if key is not None:
        return sorted(xs, key=lambda x: it.call_value(key, [x], {}), reverse=reverse)
    return sorted(xs, reverse=reverse)


@builtin(_b.print)
def b_print(it, *a, **k):
    return None


@builtin(_b.repr)
def b_repr(it, x):
    return "<sym>" if deep_sym(x) else repr(x)


@builtin(_b.id)
def b_id(it, x):
    return id(x)


@builtin(_b.hasattr)
def b_hasattr(it, o, name):
    try:
        it.getattr(o, name)
        return True
    except AttributeError:
        return False


@builtin(_b.getattr)
def b_getattr(it, o, name, *default):
    try:
        return it.getattr(o, name)
    except AttributeError:
        if default:
            return default[0]
        raise


@builtin(_b.setattr)
def b_setattr(it, o, name, v):
    it.setattr(o, name, v)


@builtin(_b.callable)
def b_callable(it, x):
    return isinstance(x, (IFunc, IMethod, IClass, Extern, BoundModel)) or callable(x)


@builtin(_b.iter)
def b_iter(it, x):
    return iter(list(it.iterate_concrete(x)))


@builtin(_b.next)
def b_next(it, x, *default):
    return next(x, *default)


@builtin(_b.map)
def b_map(it, f, *xss):
    return [it.call_value(f, list(t), {}) for t in zip(*[list(it.iterate_concrete(xs)) for xs in xss])]


@builtin(_b.filter)
def b_filter(it, f, xs):
    out = []
    for x in it.iterate_concrete(xs):
        t = it.truth(it.call_value(f, [x], {}) if f is not None else x)
        if not isinstance(t, bool):
            t = it.branch(t)
        if t:
            out.append(x)
    return out


import re as _re


@builtin(_re.split)
def b_re_split(it, pattern, s, *a, **k):
    if isinstance(s, SStr):
        return re_split_braces(it, pattern, s)
    return _re.split(pattern, s, *a, **k)


def t_int(it, x=0, *base):
    x = it.resolve(x)
    if isinstance(x, SStr):
        raise Unsupported("int() of a string with symbolic characters")
    if isinstance(x, V.SFP):
        return V.fp_trunc(x)
    if isinstance(x, SFloatTab):
        return V.float_tab_trunc(x)
    if isinstance(x, SInt):
        return x
    if isinstance(x, SBool):
        return mk_int(zi(x), 0, 1)
    if isinstance(x, SBV):
        return V.bv_to_int(x)
    if V.is_sym(x):
        raise Unsupported("int() of %r" % (x,))
    return int(x, *base)


def t_bool(it, x=False):
    return mk_bool(it.truth(x))


def t_float(it, x=0.0):
    if V.is_sym(x):
        raise Unsupported("float() of a symbolic value")
    return float(x)


def t_str(it, x=""):
    if isinstance(x, SStr):
        return x
    if deep_sym(x):
        return "<sym>"
    return str(x)


def t_set(it, xs=()):
    if isinstance(xs, SStr) and not xs.is_concrete():
        return ISet(it, [V.mk_str([c], xs.kind) for c in xs.chars], multi=True)
    s = ISet(it)
    for x in it.iterate_concrete(xs):
        s.add(x)
    return s


def t_frozenset(it, xs=()):
    if isinstance(xs, SStr) and not xs.is_concrete():
        return t_set(it, xs)
    xs = list(it.iterate_concrete(xs))
    if not deep_sym(xs):
        return frozenset(xs)
    return t_set(it, xs)


def t_list(it, xs=()):
    return list(it.iterate_concrete(xs))


def t_tuple(it, xs=()):
    return tuple(it.iterate_concrete(xs))


def t_dict(it, *args, **kw):
    d = IDict(it)
    if args:
        src = args[0]
        if isinstance(src, IDict):
            for k, v in src.items_list():
                d.set(k, v)
        elif isinstance(src, dict):
            for k, v in src.items():
                d.set(k, v)
        else:
            for k, v in it.iterate_concrete(src):
                d.set(k, v)
    for k, v in kw.items():
        d.set(k, v)
    return d


def t_defaultdict(it, factory=None, *args):
    return IDict(it, default_factory=factory)


def t_type(it, x, *rest):
    if rest:
        raise Unsupported("three-argument type()")
    if isinstance(x, Obj):
        return x.cls
    if isinstance(x, SStr):
        return bytes if x.kind == "bytes" else str
    if isinstance(x, SInt):
        return int
    if isinstance(x, SBool):
        return bool
    return type(x)


def t_slice(it, *a):
    return slice(*a)


TYPE_MODELS.update({int: t_int, bool: t_bool, float: t_float, str: t_str, set: t_set, frozenset: t_frozenset,
                    list: t_list, tuple: t_tuple, dict: t_dict, collections.defaultdict: t_defaultdict, type: t_type,
                    slice: t_slice})


# ------------------------------------------------------------------------------ C API / libc
@extern("PyUnicode_IS_COMPACT_ASCII")
def x_is_ascii(it, s):
    return m_str_isascii(it, s)


@extern("PyUnicode_KIND")
def x_kind(it, s):
    for c in V.str_chars(s):
        lo, hi = V.bounds(c)
        if hi is None or hi > 255:
            raise Unsupported("PyUnicode_KIND of a string that may contain wide characters")
    return 1


EXTERN["PyUnicode_1BYTE_KIND"] = 1


@extern("PyUnicode_DATA")
def x_data(it, s):
    if isinstance(s, (bytes, SBytes)):
        raise TypeError("expected str")
    return Ptr(CArr(list(V.str_chars(s)) + [0], "unsigned char", "str_data"), 0)


EXTERN["PyUnicode_1BYTE_DATA"] = EXTERN["PyUnicode_DATA"]


@extern("PyUnicode_GET_LENGTH")
def x_getlen(it, s):
    return len(s)


@extern("PyUnicode_CheckExact")
def x_checkexact(it, s):
    return isinstance(s, str) or (isinstance(s, SStr) and s.kind == "str")


@extern("PyBytes_AS_STRING")
def x_bytes_as_string(it, b):
    return bytes_ptr(it, b)


@extern("PyBytes_FromStringAndSize")
def x_bytes_from(it, p, n):
    if isinstance(n, SInt):
        raise Unsupported("bytes of symbolic size")
    if isinstance(p, Ptr) and p.arr is not None:
        return V.mk_str([arr_read(it, p.arr, V.int_add(p.off, i)) for i in range(n)], "bytes")
    return SBytes(arr=CArr([Indeterminate("bytes[%d]" % i) for i in range(n)] + [0], "char", "bytes_new"))


@extern("PyMem_Malloc")
def x_malloc(it, n):
    return V.RawMem(None, n)


@extern("PyMem_Realloc")
def x_realloc(it, old, n):
    return V.RawMem(old, n)


@extern("PyMem_Free")
def x_free(it, p):
    return None


@extern("memset")
def x_memset(it, p, val, nbytes):
    if isinstance(p, CArr):
        p = Ptr(p, 0)
    sz = it.frame.module.types.sizeof(p.arr.ctype)
    if isinstance(nbytes, SInt) or isinstance(val, SInt):
        raise Unsupported("memset with symbolic size")
    if val != 0 and sz != 1:
        raise Unsupported("memset of a non-zero byte into multi-byte elements")
    for i in range(nbytes // sz):
        arr_write(it, p.arr, V.int_add(p.off, i), val)


@extern("memcpy")
def x_memcpy(it, dst, src, nbytes):
    if isinstance(dst, CArr):
        dst = Ptr(dst, 0)
    if isinstance(src, CArr):
        src = Ptr(src, 0)
    sz = it.frame.module.types.sizeof(dst.arr.ctype)
    if isinstance(nbytes, SInt):
        raise Unsupported("memcpy with symbolic size")
    for i in range(nbytes // sz):
        arr_write(it, dst.arr, V.int_add(dst.off, i), arr_read(it, src.arr, V.int_add(src.off, i)))


@extern("strlen")
def x_strlen(it, p):
    if isinstance(p, (bytes, SBytes)):
        p = bytes_ptr(it, p)
    n = 0
    while True:
        c = arr_read(it, p.arr, V.int_add(p.off, n))
        r = V.int_cmp("==", c, 0)
        if r is True:
            return n
        if r is not False:
            raise Unsupported("strlen of a buffer with a symbolic terminator position")
        n += 1


def install(it):
    """Per-interpreter set-up (the tables above are global and immutable)."""
    global METHOD_MODELS
    if not METHOD_MODELS:
        for k in list(globals()):
            if k.startswith("m_"):
                _, kind, name = k.split("_", 2)
                METHOD_MODELS.setdefault(kind, set()).add(name)
        for kind in ("str", "bytes", "list", "dict", "set", "frozenset", "tuple"):
            METHOD_MODELS.setdefault(kind, set())
        METHOD_MODELS["frozenset"] = METHOD_MODELS["set"]
