"""Program loader: ASTs of the package under verification, regenerated from the current source.

.py files -> ast.parse; .pyx files -> symx.pyxfront (Cython's own parser).  Live function objects
of the shadow build are mapped back to their FunctionDef by (file, first line).
"""
import ast
import hashlib
import os

from . import pyxfront
from . import cfront
from .ctypes_ import TypeTable
from .values import Unsupported


class IFunc:
    """An interpretable function: AST + defining module (+ closure environment)."""

    def __init__(self, node, module, qualname, cls=None, closure=None, is_pyx=False, rtype=None):
        self.node = node
        self.module = module          # IModule or PyModule
        self.qualname = qualname
        self.cls = cls                # defining class (IClass or live class) for super()
        self.closure = closure
        self.is_pyx = is_pyx
        self.rtype = rtype            # C return type string for cdef functions
        self.name = node.name if hasattr(node, "name") else "<lambda>"

    def __repr__(self):
        return "<IFunc %s>" % self.qualname


class IMethod:
    def __init__(self, func, self_obj):
        self.func = func
        self.self_obj = self_obj

    def __repr__(self):
        return "<IMethod %s of %r>" % (self.func.qualname, type(self.self_obj).__name__)


class IClass:
    """A class defined in interpreted source whose instances live in the interpreter
    (all ``cdef class``es of the .pyx modules)."""

    def __init__(self, name, bases, module, is_cdef):
        self.name = name
        self.bases = bases            # list of IClass or live classes
        self.module = module
        self.is_cdef = is_cdef
        self.funcs = {}
        self.cattrs = {}              # cdef attribute -> C type string
        self.attrs = {}               # plain class attributes

    def mro(self):
        out = [self]
        for b in self.bases:
            if isinstance(b, IClass):
                for c in b.mro():
                    if c not in out:
                        out.append(c)
        return out

    def find(self, name, after=None):
        m = self.mro()
        if after is not None:
            m = m[m.index(after) + 1:]
        for c in m:
            if name in c.funcs:
                return c.funcs[name]
        return None

    def all_cattrs(self):
        d = {}
        for c in reversed(self.mro()):
            d.update(c.cattrs)
        return d

    def issubclass_of(self, other):
        if isinstance(other, IClass):
            return other in self.mro()
        for c in self.mro():
            for b in c.bases:
                if not isinstance(b, IClass) and isinstance(b, type) and isinstance(other, type) and issubclass(b, other):
                    return True
        return other is object

    def __repr__(self):
        return "<IClass %s>" % self.name


class Obj:
    """Instance of an IClass."""

    def __init__(self, cls):
        self.cls = cls
        self.attrs = {}

    def __repr__(self):
        return "<Obj %s>" % self.cls.name


class IModule:
    """An interpreted (.pyx) module."""

    def __init__(self, name, path, tree, source):
        self.name = name
        self.path = path
        self.tree = tree
        self.source = source
        self.globals = {}
        self.types = TypeTable()
        self.initialised = False

    def __repr__(self):
        return "<IModule %s>" % self.name


class PyModule:
    """A live Python module of the shadow build whose functions are interpreted from source."""

    def __init__(self, name, path, tree, source, live):
        self.name = name
        self.path = path
        self.tree = tree
        self.source = source
        self.live = live
        self.types = TypeTable()
        self.by_line = {}
        for node in ast.walk(tree):
            if isinstance(node, (ast.FunctionDef, ast.AsyncFunctionDef, ast.Lambda)):
                self.by_line[node.lineno] = node
                for d in getattr(node, "decorator_list", []):
                    self.by_line.setdefault(d.lineno, node)

    @property
    def globals(self):
        return self.live.__dict__

    def __repr__(self):
        return "<PyModule %s>" % self.name


class Program:
    def __init__(self, build_dir):
        self.build_dir = build_dir
        self.pkg_dir = os.path.join(build_dir, "cutadapt")
        self.pyx = {}      # module name -> IModule
        self.py = {}       # file path -> PyModule
        self.sources = {}  # path -> text
        self.encoded = {}  # qualname -> sha256 of function source (for the evidence file)
        for fn in sorted(os.listdir(self.pkg_dir)):
            p = os.path.join(self.pkg_dir, fn)
            if fn.endswith(".pyx"):
                src = open(p).read()
                name = "cutadapt." + fn[:-4]
                self.sources[p] = src
                self.pyx[name] = IModule(name, p, pyxfront.parse_pyx(src, fn[:-4]), src)
        self.extra_files = set()   # harness-owned reference models that are executed by the same interpreter
        self.cfuncs = {}
        self.c_modules = {}
        for fn in sorted(os.listdir(self.pkg_dir)):
            if fn.endswith(".h"):
                p = os.path.join(self.pkg_dir, fn)
                src = open(p).read()
                self.sources[p] = src
                tree, tables = cfront.parse_header(p)
                m = IModule("cutadapt." + fn.replace(".", "_"), p, tree, src)
                m.is_c = True
                m.c_tables = tables
                self.c_modules[m.name] = m

    def py_module(self, path):
        path = os.path.realpath(path)
        m = self.py.get(path)
        if m is None:
            import importlib
            import sys
            src = open(path).read()
            self.sources[path] = src
            name = None
            for k, mod in list(sys.modules.items()):
                if getattr(mod, "__file__", None) and os.path.realpath(mod.__file__) == path:
                    name = k
                    break
            if name is None:
                name = "cutadapt." + os.path.basename(path)[:-3]
            live = sys.modules.get(name) or importlib.import_module(name)
            m = PyModule(name, path, ast.parse(src), src, live)
            self.py[path] = m
        return m

    def in_package(self, filename):
        try:
            rp = os.path.realpath(filename)
            return rp.startswith(os.path.realpath(self.pkg_dir) + os.sep) or rp in self.extra_files
        except Exception:
            return False

    def ifunc_of(self, fn, cls=None):
        """IFunc for a live Python function object defined in the package, else None."""
        code = getattr(fn, "__code__", None)
        if code is None or not self.in_package(code.co_filename):
            return None
        if not code.co_filename.endswith(".py"):
            return None
        m = self.py_module(code.co_filename)
        node = m.by_line.get(code.co_firstlineno)
        if node is None:
            raise Unsupported("no AST for %r" % fn)
        key = (id(fn), id(cls))
        cache = self.__dict__.setdefault("_ifunc_cache", {})
        f = cache.get(key)
        if f is None:
            f = IFunc(node, m, fn.__qualname__, cls=cls)
            cache[key] = f
            self.note_encoded(f)
        return f

    def note_encoded(self, f):
        if f.qualname in self.encoded:
            return
        node = f.node
        src = f.module.source
        try:
            if f.is_pyx:
                seg = ast.unparse(node)
            else:
                seg = ast.get_source_segment(src, node) or ast.unparse(node)
        except Exception:
            seg = ast.dump(node)
        self.encoded[f.module.name + ":" + f.qualname] = hashlib.sha256(seg.encode()).hexdigest()[:16]
