"""Check driver shared by all harnesses: job scheduling (16 processes), translator validation,
replay of counterexamples on the real build, known findings, evidence, exit codes.

A harness module (harness/cNN_*.py) provides:
  PROPERTY          'C13'
  ENGINE            'symx' | 'crosshair'
  jobs(tier, seed)  -> list of picklable job dicts, each with a unique 'name'
  run_job(job)      -> result dict (see JobResult below)
  validate(seed)    -> {'vectors': int, 'mismatches': [...]}   translator validation (optional)
  replay(cex)       -> (reproduced: bool, detail: str)          on the real (shadow) build
  describe()        -> dict with 'functions', 'bounds', 'outside_bounds', 'stubs', 'assumptions', 'rule'
  known_witnesses() -> optional: checks each listed known finding on the real build

Result dict of a job:
  name, verdict in {'holds','violation','inconclusive','error'}, obligations, discharged,
  queries, solver_s, max_query_s, paths, nontrivial (int), vacuity (bool or None), sample (small dict),
  cex (dict, for violations), detail (str)
Exit codes: 0 ok / 1 violation (replayed, not a known finding) / 3 harness error.
"""
import hashlib
import importlib
import json
import multiprocessing as mp
import os
import sys
import time
import traceback

VERIF = os.path.dirname(os.path.dirname(os.path.abspath(__file__)))
EVID = os.path.join(VERIF, "evidence")
if (os.environ.get("VERIF_SRC") and os.path.realpath(os.environ["VERIF_SRC"]) != "/repo/src") or os.environ.get("VERIF_ONLY"):
    # runs against a scratch tree (mutation self-test) or on a development subset of the jobs (VERIF_ONLY) must
    # never touch the registered evidence
    EVID = os.environ.get("VERIF_EVID", os.path.join(VERIF, ".cache", "evidence-scratch"))
REPLAYS = os.path.join(EVID, "replays")
KNOWN = os.path.join(VERIF, "known_findings.json")


def load_known(pid):
    try:
        data = json.load(open(KNOWN))
    except FileNotFoundError:
        return []
    return [e for e in data.get("findings", []) if e.get("property") == pid and e.get("status", "open") == "open"]


def _worker(args):
    modname, job = args
    t0 = time.time()
    try:
        mod = importlib.import_module(modname)
        r = mod.run_job(job)
    except BaseException as e:  # noqa
        r = {"name": job.get("name", "?"), "verdict": "error", "detail": "%s: %s\n%s" % (type(e).__name__, e, traceback.format_exc()[-1500:])}
    r.setdefault("name", job.get("name", "?"))
    r["wall_s"] = round(time.time() - t0, 3)
    return r


def _init_worker():
    # each worker activates the shadow build once
    sys.setrecursionlimit(10000)


def run_jobs(modname, jobs, procs, deadline_s):
    results = []
    if not jobs:
        return results
    t0 = time.time()
    procs = max(1, min(procs, len(jobs)))
    if procs == 1:
        for j in jobs:
            results.append(_worker((modname, j)))
        return results
    ctxm = mp.get_context("fork")
    pool = ctxm.Pool(procs, initializer=_init_worker, maxtasksperchild=50)
    pending = {}
    try:
        for j in jobs:
            pending[j["name"]] = pool.apply_async(_worker, ((modname, j),))
        while pending:
            done = [k for k, a in pending.items() if a.ready()]
            for k in done:
                a = pending.pop(k)
                try:
                    results.append(a.get())
                except BaseException as e:  # noqa
                    results.append({"name": k, "verdict": "error", "detail": repr(e)})
            if not done:
                if time.time() - t0 > deadline_s:
                    for k in pending:
                        results.append({"name": k, "verdict": "inconclusive", "detail": "global deadline of %ds reached" % deadline_s})
                    pending.clear()
                    pool.terminate()
                    break
                time.sleep(0.05)
    finally:
        pool.terminate()
        pool.join()
    return results


def write_evidence(pid, ev):
    os.makedirs(EVID, exist_ok=True)
    p = os.path.join(EVID, pid + ".json")
    tmp = p + ".tmp"
    with open(tmp, "w") as f:
        json.dump(ev, f, indent=1, sort_keys=True, default=str)
    os.replace(tmp, p)
    return p


def save_replay(pid, harness, cex):
    os.makedirs(REPLAYS, exist_ok=True)
    blob = json.dumps({"property": pid, "harness": harness, "cex": cex}, sort_keys=True, default=str)
    h = hashlib.sha256(blob.encode()).hexdigest()[:12]
    p = os.path.join(REPLAYS, "%s-%s.json" % (pid, h))
    with open(p, "w") as f:
        f.write(blob)
    return p


def main_check(modname, tier, seed):
    t0 = time.time()
    from . import build
    build_dir = build.activate()
    mod = importlib.import_module(modname)
    pid = mod.PROPERTY
    desc = mod.describe() if hasattr(mod, "describe") else {}
    procs = int(os.environ.get("VERIF_PROCS", "16"))
    deadline = float(os.environ.get("VERIF_DEADLINE", "1500" if tier == "quick" else "10000"))
    harness_errors = []

    # 1. translator validation ---------------------------------------------------------
    tv = {"vectors": 0, "mismatches": []}
    if hasattr(mod, "validate"):
        try:
            tv = mod.validate(seed)
        except BaseException as e:  # noqa
            tv = {"vectors": 0, "mismatches": ["validation crashed: %s: %s" % (type(e).__name__, e)], "trace": traceback.format_exc()[-2000:]}
        if tv["mismatches"]:
            harness_errors.append("translator validation: %d mismatches, first: %s" % (len(tv["mismatches"]), tv["mismatches"][0]))

    # 2. known findings: re-run the recorded witnesses on the real build -----------------
    known = load_known(pid)
    known_lines = []
    known_reproduced = 0
    for e in known:
        try:
            rep, detail = mod.replay(e["witness"])
        except BaseException as ex:  # noqa
            rep, detail = False, "replay crashed: %r" % (ex,)
        if rep:
            known_reproduced += 1
            known_lines.append("KNOWN-FINDING: property=%s %s" % (pid, e["what"]))
        else:
            known_lines.append("NOTE: listed finding '%s' does not reproduce any more (%s)" % (e["id"], detail))

    # 3. the jobs ------------------------------------------------------------------------
    results = []
    if not harness_errors:
        jobs = mod.jobs(tier, seed)
        only = [x for x in os.environ.get("VERIF_ONLY", "").split(";") if x]
        if only:   # development aid: restrict to jobs whose name contains every listed substring
            jobs = [j for j in jobs if all(x in j["name"] for x in only)]
        for j in jobs:
            j.setdefault("seed", seed)
            j.setdefault("tier", tier)
        results = run_jobs(modname, jobs, procs, deadline)
    by_verdict = {}
    for r in results:
        by_verdict.setdefault(r["verdict"], []).append(r)
    try:
        os.makedirs(os.path.join(VERIF, ".cache"), exist_ok=True)
        with open(os.path.join(VERIF, ".cache", "jobs_%s_%s.jsonl" % (pid, tier)), "w") as f:
            for r in results:
                f.write(json.dumps({k: r.get(k) for k in ("name", "verdict", "wall_s", "solver_s", "queries", "obligations", "discharged", "detail")}, default=str) + "\n")
    except OSError:
        pass

    # 4. replay counterexamples -------------------------------------------------------------
    violations = []
    known_hits = []
    for r in by_verdict.get("violation", []):
        cex = r.get("cex")
        try:
            rep, detail = mod.replay(cex)
        except BaseException as e:  # noqa
            rep, detail = False, "replay crashed: %s: %s" % (type(e).__name__, e)
        r["replayed"] = rep
        r["replay_detail"] = detail
        if not rep:
            harness_errors.append("counterexample of %s does not reproduce on the real build: %s / cex=%s" % (r["name"], detail, json.dumps(cex, default=str)[:400]))
            continue
        hit = None
        if hasattr(mod, "known_match"):
            for e in known:
                if mod.known_match(e, cex):
                    hit = e
                    break
        if hit is not None:
            known_hits.append((r, hit))
        else:
            path = save_replay(pid, modname, cex)
            violations.append((r, path))
    for r in by_verdict.get("error", []):
        harness_errors.append("job %s: %s" % (r["name"], r.get("detail", "")[:1500]))

    # 5. evidence ---------------------------------------------------------------------------
    n_obl = sum(r.get("obligations", 0) for r in results)
    n_dis = sum(r.get("discharged", 0) for r in results)
    inconcl = [r for r in results if r["verdict"] == "inconclusive"]
    samples = []
    for r in results[:3] + [x[0] for x in violations][:3] + inconcl[:2]:
        samples.append({k: r.get(k) for k in ("name", "verdict", "sample", "obligations", "discharged", "queries", "solver_s", "wall_s", "cex", "detail") if r.get(k) is not None})
    prog_funcs = {}
    for r in results:
        prog_funcs.update(r.get("functions", {}))
    ev = {
        "property_id": pid,
        "tier": tier,
        "seed": seed,
        "level": "model_checking",
        "wall_s": round(time.time() - t0, 2),
        "violations": len(violations),
        "coverage": {
            "obligations": n_obl,
            "discharged": n_dis,
            "inconclusive": len(inconcl),
            "inconclusive_jobs": [r["name"] + ": " + str(r.get("detail", ""))[:200] for r in inconcl][:40],
            "evaluations": sum(r.get("queries", 0) for r in results),
            "distinct_nontrivial": sum(int(r.get("nontrivial", 0)) for r in results),
            "rule": desc.get("rule", ""),
            "samples": samples or [{"note": "no job ran"}],
            "jobs": len(results),
            "jobs_by_verdict": {k: len(v) for k, v in by_verdict.items()},
            "paths": sum(r.get("paths", 0) for r in results),
            "functions_encoded": desc.get("functions", []),
            "function_hashes": prog_funcs,
            "bounds": desc.get("bounds", {}).get(tier, desc.get("bounds", {})),
            "outside_bounds": desc.get("outside_bounds", []),
            "stubs": desc.get("stubs", []),
            "engine": getattr(mod, "ENGINE", "symx"),
            "solver": {"z3": _z3_version(), "total_s": round(sum(r.get("solver_s", 0) for r in results), 2),
                       "max_query_s": max([r.get("max_query_s", 0) for r in results] or [0]), "seed": seed},
            "translator_validation": {"vectors": tv.get("vectors", 0), "mismatches": len(tv.get("mismatches", []))},
            "traces_validated_against_impl": tv.get("vectors", 0) + len(by_verdict.get("violation", [])) + len(known),
            "vacuity_witnesses": {"checked": sum(1 for r in results if r.get("vacuity") is not None), "reachable": sum(1 for r in results if r.get("vacuity"))},
            "cross_check": _merge_cross(results),
            "exhaustive": bool(results) and not inconcl and not harness_errors and n_obl == n_dis + sum(r.get("violated", 0) for r in results),
            "known_findings_reproduced": known_reproduced,
            "known_findings_hit_by_solver": [h["id"] for _, h in known_hits],
            "source_tree": build_dir.rsplit("/", 1)[-1],
            "harness_errors": harness_errors[:10],
        },
        "assumptions": desc.get("assumptions", []),
    }
    extra = {}
    for r in results:
        for k, v in (r.get("extra") or {}).items():
            extra[k] = extra.get(k, 0) + v if isinstance(v, (int, float)) else v
    if extra:
        ev["coverage"]["extra"] = extra
    write_evidence(pid, ev)

    # 6. report ----------------------------------------------------------------------------
    for l in known_lines:
        print(l)
    for r, h in known_hits:
        print("KNOWN-FINDING: property=%s %s (re-found by the solver: %s)" % (pid, h["what"], r["name"]))
    for r in inconcl:
        print("INCONCLUSIVE %s %s: %s" % (pid, r["name"], str(r.get("detail", ""))[:300]))
    print("%s tier=%s jobs=%d obligations=%d discharged=%d inconclusive=%d violations=%d wall=%.1fs" % (
        pid, tier, len(results), n_obl, n_dis, len(inconcl), len(violations), time.time() - t0))
    # a counterexample that was replayed on the real code is a violation whatever else happened in the run; candidates that
    # do not reproduce (or jobs that failed) are harness errors: reported, and the reserved exit status when nothing reproduced
    for r, path in violations:
        print("VIOLATION property=%s replay=%s" % (pid, path))
        print("  %s: %s" % (r["name"], str(r.get("replay_detail", ""))[:500]))
    for h in harness_errors[:10]:
        print("HARNESS-ERROR %s: %s" % (pid, h))
    if violations:
        return 1
    if harness_errors:
        return 3
    return 0


def _merge_cross(results):
    n = sum((r.get("cross_check") or {}).get("checked", 0) for r in results)
    a = sum((r.get("cross_check") or {}).get("agree", 0) for r in results)
    i = sum((r.get("cross_check") or {}).get("inconclusive", 0) for r in results)
    return {"cvc5_checked": n, "agree": a, "cvc5_timeout_or_unsupported": i}


def _z3_version():
    try:
        import z3
        return z3.get_version_string()
    except Exception:
        return "?"


def main_replay(path):
    from . import build
    build.activate()
    data = json.load(open(path))
    mod = importlib.import_module(data["harness"])
    rep, detail = mod.replay(data["cex"])
    print(detail)
    if rep:
        print("VIOLATION property=%s replay=%s" % (data["property"], path))
        return 1
    print("does not reproduce on the current tree")
    return 0
