"""Exploration context: path condition, decision trail, obligations and the solver."""
import time

import z3

from . import values as V
from .values import G, TRUE, FALSE, Unsupported, Inconclusive


class Infeasible(BaseException):
    """The current path condition is unsatisfiable (path abandoned)."""


class Obligation:
    __slots__ = ("guard", "cond", "what", "kind")

    def __init__(self, guard, cond, what, kind):
        self.guard = guard
        self.cond = cond
        self.what = what
        self.kind = kind


class Stats:
    def __init__(self):
        self.queries = 0
        self.solver_s = 0.0
        self.max_query_s = 0.0
        self.sat = 0
        self.unsat = 0
        self.unknown = 0
        self.paths = 0
        self.infeasible_paths = 0

    def add(self, o):
        for k in self.__dict__:
            if k == "cross":
                continue
            if k == "max_query_s":
                self.max_query_s = max(self.max_query_s, o.max_query_s)
            else:
                setattr(self, k, getattr(self, k) + getattr(o, k))

    def as_dict(self):
        d = {k: v for k, v in self.__dict__.items() if k != "cross"}
        d["solver_s"] = round(d["solver_s"], 3)
        d["max_query_s"] = round(d["max_query_s"], 3)
        return d


class Ctx:
    def __init__(self, trail=(), timeout_ms=60000, feas_timeout_ms=3000, seed=0, stats=None):
        self.trail = list(trail)
        self.pos = 0
        self.pending = []
        self.pc = []
        self.base = []
        self.obligations = []
        self.stack_depth = []
        self.timeout_ms = timeout_ms
        self.feas_timeout_ms = feas_timeout_ms
        self.stats = stats or Stats()
        import os
        mode = os.environ.get("SYMX_SOLVER", "")
        if mode.startswith("logic:"):
            self.solver = z3.SolverFor(mode[6:])
        else:
            self.solver = z3.Solver()
        for kv in os.environ.get("SYMX_SOLVER_OPTS", "").split(","):
            if "=" in kv:
                k, v = kv.split("=")
                self.solver.set(k, int(v) if v.lstrip("-").isdigit() else (v == "true" if v in ("true", "false") else v))
        self.solver.set("random_seed", seed % (1 << 30))
        self.solver.set("timeout", timeout_ms)
        self.decisions = []   # human-readable log of decisions
        self.seed = seed
        self._last = None
        self.lazy = False
        self.region_ran = False
        self.heavy = True    # decide feasibility with the fresh-solver configuration (faster on DP formulas)

    # ------------------------------------------------------------------ assumptions
    def assume(self, cond):
        if isinstance(cond, V.SBool):
            cond = cond.e
        if cond is True:
            return
        if cond is False:
            raise Infeasible()
        self.base.append(cond)
        self.solver.add(cond)

    # ------------------------------------------------------------------ solving
    def _check(self, extra, timeout_ms=None):
        t0 = time.time()
        self._last = None
        self.solver.set("timeout", timeout_ms or self.timeout_ms)
        r = self.solver.check(*extra)
        dt = time.time() - t0
        st = self.stats
        st.queries += 1
        st.solver_s += dt
        st.max_query_s = max(st.max_query_s, dt)
        s = str(r)
        if s == "sat":
            st.sat += 1
        elif s == "unsat":
            st.unsat += 1
        else:
            st.unknown += 1
        return s

    def fresh_sat(self, conds, timeout_ms=None):
        """Same question as is_sat, decided by a fresh (non-incremental) solver: z3 then preprocesses the
        whole formula, which is several times faster on the DP encodings than the incremental core."""
        conds = [c for c in conds if not z3.is_true(c)]
        if any(z3.is_false(c) for c in conds):
            return "unsat"
        tmo = timeout_ms or self.timeout_ms
        t0 = time.time()
        r = "unknown"
        # portfolio: the legacy simplex core is several times faster on the DP encodings but can give up
        # ("incomplete"); then the default configuration decides
        for cfg in ({"arith.solver": 2, "auto_config": False}, {}):
            s = z3.Solver()
            for k, v in cfg.items():
                s.set(k, v)
            s.set("random_seed", self.seed % (1 << 30))
            left = tmo - int((time.time() - t0) * 1000)
            if left < 500:
                break
            s.set("timeout", left)
            s.add(*self.base)
            s.add(*self.pc)
            s.add(*conds)
            r = str(s.check())
            if r in ("sat", "unsat"):
                break
        dt = time.time() - t0
        st = self.stats
        st.queries += 1
        st.solver_s += dt
        st.max_query_s = max(st.max_query_s, dt)
        setattr(st, r if r in ("sat", "unsat") else "unknown", getattr(st, r if r in ("sat", "unsat") else "unknown") + 1)
        if r in ("sat", "unsat") and dt < 5.0:
            self._cross_check(s, r)
        self._last = s
        return r

    def _cross_check(self, solver, z3_result):
        """Second opinion: a seeded sample of the decided queries is exported as SMT-LIB2 and re-decided by cvc5
        (Python wheel, 20 s limit).  A disagreement is recorded and turns the job into a harness error."""
        import os, random
        rate = float(os.environ.get("SYMX_CROSS", "0.02"))
        if rate <= 0:
            return
        self._cross_rng = getattr(self, "_cross_rng", None) or random.Random(self.seed * 7919 + 13)
        if self._cross_rng.random() >= rate:
            return
        cc = self.stats.__dict__.setdefault("cross", {"checked": 0, "agree": 0, "inconclusive": 0, "disagree": []})
        try:
            text = solver.to_smt2()
            if "FloatingPoint" in text or "RoundingMode" in text or len(text) > 3_000_000:
                return
            import tempfile
            import cvc5
            with tempfile.NamedTemporaryFile("w", suffix=".smt2", delete=False) as f:
                f.write("(set-logic ALL)\n" + text)
                path = f.name
            try:
                slv = cvc5.Solver()
                slv.setOption("tlimit-per", "20000")
                parser = cvc5.InputParser(slv)
                parser.setFileInput(cvc5.InputLanguage.SMT_LIB_2_6, path)
                sm = parser.getSymbolManager()
                out = ""
                while True:
                    cmd = parser.nextCommand()
                    if cmd.isNull():
                        break
                    res = cmd.invoke(slv, sm)
                    if res:
                        out += str(res)
            finally:
                os.unlink(path)
            ans = out.strip().split()[-1] if out.strip() else "unknown"
            cc["checked"] += 1
            if ans == z3_result:
                cc["agree"] += 1
            elif ans in ("sat", "unsat"):
                cc["disagree"].append("z3 %s / cvc5 %s" % (z3_result, ans))
            else:
                cc["inconclusive"] += 1
        except Exception as e:  # noqa - the second opinion must never break a check
            cc["inconclusive"] += 1

    def is_sat(self, conds, timeout_ms=None):
        """sat / unsat / unknown of  base & pc & conds."""
        conds = [c for c in conds if not z3.is_true(c)]
        if any(z3.is_false(c) for c in conds):
            return "unsat"
        return self._check(conds, timeout_ms)

    def model(self):
        return (self._last or self.solver).model()

    def feasible(self, g):
        if g is FALSE:
            return False
        if g.is_true():
            return True
        return (self.fresh_sat if self.heavy else self.is_sat)(list(g.atoms), self.feas_timeout_ms) != "unsat"

    # ------------------------------------------------------------------ forking
    def decide(self, c):
        if isinstance(c, V.SBool):
            c = c.e
        if z3.is_true(c):
            return True
        if z3.is_false(c):
            return False
        if self.pos < len(self.trail):
            b = self.trail[self.pos]
        elif self.lazy and self.region_ran:
            # after a kernel has been executed the path condition is a large formula: do not spend a solver
            # call per arm, explore both; an infeasible arm only yields trivially discharged obligations
            self.pending.append(self.trail[: self.pos] + [False])
            b = True
            self.trail.append(b)
        else:
            big = sum(len(str(type(x))) for x in ()) or len(self.base) + len(self.pc) > 0
            chk = self.fresh_sat if self.heavy else self.is_sat
            ft = chk([c], self.feas_timeout_ms) != "unsat"
            ff = True if not ft else chk([z3.Not(c)], self.feas_timeout_ms) != "unsat"
            if ft and ff:
                self.pending.append(self.trail[: self.pos] + [False])
                b = True
            elif ft:
                b = True
            elif ff:
                b = False
            else:
                raise Infeasible()
            self.trail.append(b)
        self.pos += 1
        self.decisions.append(("/".join(self.stack_depth[-2:]), b))
        cond = c if b else z3.Not(c)
        self.pc.append(cond)
        self.solver.add(cond)
        return b

    def choose(self, choices):
        """choices: list of (z3 Bool, outcome) - exhaustive.  Pick one per the trail."""
        for i, (c, out) in enumerate(choices):
            if i == len(choices) - 1:
                # the last alternative holds when all others were refused
                self.pc.append(c)
                self.solver.add(c)
                return out
            if self.decide(c):
                return out
        raise Infeasible()

    # ------------------------------------------------------------------ obligations
    def add_obligation(self, guard, cond, what, kind):
        if guard is FALSE:
            return
        if not isinstance(cond, bool) and z3.is_true(cond):
            return
        if isinstance(cond, bool):
            if cond:
                return
            cond = z3.BoolVal(False)
        self.obligations.append(Obligation(guard, cond, what, kind))

    def violated(self, ob, timeout_ms=None):
        """sat (with model) iff the obligation can fail on this path."""
        return self.fresh_sat(list(ob.guard.atoms) + [z3.Not(ob.cond)], timeout_ms)

    def check_claim(self, claim, timeout_ms=None, assuming=()):
        """Is  base & pc & assuming => claim  valid?  -> 'unsat' (holds) / 'sat' (model available) / 'unknown'."""
        if isinstance(claim, V.SBool):
            claim = claim.e
        if claim is True:
            return "unsat"
        if claim is False:
            claim = z3.BoolVal(False)
        import os
        d = os.environ.get("SYMX_DUMP")
        if d:
            self.solver.push()
            self.solver.add(*assuming)
            self.solver.add(z3.Not(claim))
            n = len(os.listdir(d))
            open(os.path.join(d, "q%03d.smt2" % n), "w").write(self.solver.to_smt2())
            self.solver.pop()
        return self.fresh_sat(list(assuming) + [z3.Not(claim)], timeout_ms)


def explore(run_path, max_paths=2000, seed=0, timeout_ms=60000, stats=None):
    """Depth-first exploration over decision trails.  run_path(ctx) runs the harness once."""
    stats = stats or Stats()
    work = [[]]
    results = []
    n = 0
    while work:
        trail = work.pop()
        n += 1
        if n > max_paths:
            raise Inconclusive("path limit %d reached" % max_paths)
        V._counter = __import__("itertools").count()
        ctx = Ctx(trail, timeout_ms=timeout_ms, seed=seed, stats=stats)
        stats.paths += 1
        try:
            r = run_path(ctx)
            results.append(r)
        except Infeasible:
            stats.infeasible_paths += 1
        work.extend(ctx.pending)
    return results
