"""symx interpreter: predicated (state-merging) symbolic execution of the lowered Cython kernels
and forking symbolic execution of the Python that feeds them.

One executor serves both modes.  Guards (values.G) are conjunctions of z3 atoms; a statement runs
under the current local guard ``self.g``.  In *merge* mode an ``if`` on a symbolic condition runs
both arms under g&c / g&~c and stores become ite(g, new, old); ``break``/``continue``/``return``
park their guard in the loop / frame record and ``raise`` parks it in the region.  In *fork* mode
the guard is always concretely true and a symbolic condition asks the exploration context for a
decision (one path per decision trail).
"""
import ast
import builtins as _pybuiltins
import inspect
import sys

import z3

from . import values as V
from .values import (G, TRUE, FALSE, g_and, g_or, SInt, SBool, SBV, SStr, SBytes, SFloatTab, Struct, CArr, Ptr,
                     Union, Indeterminate, Unsupported, Inconclusive, mk_bool, mk_int, zb, zi, merge, neg)
from .program import IFunc, IMethod, IClass, Obj, IModule, PyModule

MAX_UNROLL = 400
import os as _os
NAME_TERMS = _os.environ.get("SYMX_NAME_TERMS", "0") == "1"


class Frame:
    __slots__ = ("func", "env", "ctypes", "rets", "entry_abs", "module", "closure", "loops", "overlays", "self_cls", "yields")

    def __init__(self, func, module, entry_abs, closure=None):
        self.func = func
        self.env = {}
        self.ctypes = {}
        self.rets = []
        self.entry_abs = entry_abs
        self.module = module
        self.closure = closure
        self.loops = []
        self.overlays = []
        self.yields = None


class Loop:
    __slots__ = ("brk", "cont")

    def __init__(self):
        self.brk = []
        self.cont = []


class Region:
    """A merge region: exceptions raised under symbolic guards are parked here."""

    def __init__(self):
        self.excs = []  # (G absolute, exception instance)
        self.live_ids = set()  # ids of guard atoms that only say "no exception was raised so far"


class Closure:
    __slots__ = ("env", "parent")

    def __init__(self, env, parent):
        self.env = env
        self.parent = parent


class SRange:
    """range() with symbolic bounds (step +1 or -1)."""

    def __init__(self, start, stop, rev=False):
        self.start = start
        self.stop = stop
        self.rev = rev


class Interp:
    def __init__(self, program, ctx, merge_modules=()):
        self.prog = program
        self.ctx = ctx
        self.frame = None
        self.g = TRUE
        self.merge = False
        self.region = None
        self.merge_modules = set(merge_modules)
        self.merge_funcs = set()  # qualnames of Python functions that are executed in merge mode (regions)
        self.overrides = {}      # qualname -> stub(interp, *args) replacing an interpreted function (listed in the evidence)
        self.subst = {}          # id(live object) -> interpreted replacement
        self.native_ok = set()   # ids of live callables that may be called natively with concrete args
        self._absg_cache = None
        from . import models
        self.models = models
        models.install(self)
        for m in program.c_modules.values():
            self.init_c_module(m)
        for m in program.pyx.values():
            self.init_pyx_module(m)

    # ---------------------------------------------------------------- guards
    def absg(self):
        f = self.frame
        if f is None:
            return self.g
        c = self._absg_cache
        if c is not None and c[0] is f and c[1] is self.g:
            return c[2]
        a = g_and(f.entry_abs, self.g)
        self._absg_cache = (f, self.g, a)
        return a

    def sg(self, g=None):
        """Guard for stores: the guard without the atoms that merely say that no exception has been
        raised so far in this merge region (state after a raise inside a kernel is never observed)."""
        g = self.absg() if g is None else g
        r = self.region
        if r is None or not r.live_ids or g is FALSE or not g.atoms:
            return g
        keep = [a for a in g.atoms if a.get_id() not in r.live_ids]
        if len(keep) == len(g.atoms):
            return g
        return G(keep)

    def mark_live(self, cond):
        if self.region is None:
            return
        parts = []
        V._flatten_and(cond, parts)
        for a in parts:
            self.region.live_ids.add(a.get_id())

    def resolve(self, v):
        """Guard-aware simplification of ite-records."""
        while isinstance(v, SInt) and v.ite is not None:
            gs, a, b = v.ite
            cur = self.absg()
            if cur.implies(gs):
                v = a
            elif cur.contradicts(gs):
                v = b
            else:
                break
        return v

    def name_value(self, v):
        """Give a merged integer term a name (fresh variable + definitional equation): keeps the terms
        the solver sees shallow."""
        if NAME_TERMS and isinstance(v, SInt) and z3.is_app(v.e) and v.e.num_args() > 0 and not z3.is_const(v.e):
            k = V.ivar("t!%d" % next(V._counter))
            self.ctx.assume(k == v.e)
            return SInt(k, v.lo, v.hi, v.ite, v.cases, v.dom)
        if NAME_TERMS and isinstance(v, Struct):
            return Struct(v.stype, {f: self.name_value(x) for f, x in v.fields.items()})
        return v

    def merge_typed(self, ctype, c, new, old, grec=None):
        return self.name_value(self._merge_typed(ctype, c, new, old, grec))

    def _merge_typed(self, ctype, c, new, old, grec=None):
        """ite(c, new, old) for a C-typed location: unsigned 64-bit masks stay bit-vectors."""
        if ctype is not None and isinstance(self.frame.module, IModule) and isinstance(new, (int, SBV)) and isinstance(old, (int, SBV)) \
                and not isinstance(new, bool) and not isinstance(old, bool):
            t = self.frame.module.types.parse(ctype)
            if t.kind == "int" and self.frame.module.types.is_bv(t):
                if isinstance(new, int) and isinstance(old, int) and new == old:
                    return new
                return V.mk_bv(z3.If(c, V.to_bv(new, t.bits), V.to_bv(old, t.bits)), t.bits, False)
        return merge(c, new, old, grec)

    def oblige(self, cond, what, kind="safety"):
        """Record: under the current absolute guard, cond must hold."""
        if cond is True:
            return
        self.ctx.add_obligation(self.absg(), zb(cond) if not isinstance(cond, z3.BoolRef) else cond, what, kind)

    # ---------------------------------------------------------------- truth
    def truth(self, v):
        """-> bool or z3 Bool"""
        v = self.resolve(v)
        if isinstance(v, bool):
            return v
        if isinstance(v, SBool):
            return v.e
        if isinstance(v, SInt):
            r = V.int_cmp("!=", v, 0)
            return r if isinstance(r, bool) else r.e
        if isinstance(v, SBV):
            return v.e != 0
        if isinstance(v, (SStr,)):
            return len(v) > 0
        if isinstance(v, Ptr):
            return v.arr is not None
        if isinstance(v, V.RawMem):
            return True
        if isinstance(v, Union):
            parts = []
            for c, x in v.alts:
                t = self.truth(x)
                if t is True:
                    parts.append(c)
                elif t is not False:
                    parts.append(z3.And(c, t))
            return z3.Or(*parts) if parts else False
        if isinstance(v, (Obj, IClass, IFunc, IMethod, Struct)):
            if isinstance(v, Obj):
                f = v.cls.find("__len__") or v.cls.find("__bool__")
                if f is not None:
                    return self.truth(self.call_ifunc(f, [v], {}))
            return True
        if isinstance(v, Indeterminate):
            return V.fresh_bool("indet").e
        if isinstance(v, self.models.ISet) or isinstance(v, self.models.IDict):
            return len(v) > 0
        if V.is_sym(v):
            raise Unsupported("truth of %r" % (v,))
        # real instances whose class defines __len__/__bool__ in the package
        f = self.lookup_special(v, "__bool__") or self.lookup_special(v, "__len__")
        if f is not None:
            return self.truth(self.call_value(f, [], {}))
        return bool(v)

    def branch(self, c):
        """Decide a symbolic condition in fork mode -> bool."""
        return self.ctx.decide(c)

    # ---------------------------------------------------------------- module init
    def init_c_module(self, m):
        m.globals = {name: V.RealTable(name, vals) for name, vals in m.c_tables.items()}
        m.initialised = True
        fr = Frame(None, m, TRUE)
        fr.env = m.globals
        saved = (self.frame, self.g)
        self.frame, self.g = fr, TRUE
        try:
            self.exec_block(m.tree.body)
        finally:
            self.frame, self.g = saved
        for k, v in m.globals.items():
            if isinstance(v, IFunc):
                self.prog.cfuncs[k] = v

    def init_pyx_module(self, m):
        if m.initialised:
            return
        m.initialised = True
        fr = Frame(None, m, TRUE)
        fr.env = m.globals
        saved = (self.frame, self.g)
        self.frame, self.g = fr, TRUE
        try:
            self.exec_block(m.tree.body)
        finally:
            self.frame, self.g = saved
        # map the compiled objects of the shadow build to their interpreted counterparts
        live = sys.modules.get(m.name)
        if live is None:
            import importlib
            live = importlib.import_module(m.name)
        m.live = live
        for k, v in m.globals.items():
            if isinstance(v, (IClass, IFunc)) and hasattr(live, k):
                if isinstance(v, IFunc) and any(isinstance(x, (ast.Yield, ast.YieldFrom)) for x in ast.walk(v.node)):
                    # generator functions (hamming_sphere, edit_environment) are only ever called with concrete
                    # arguments: the compiled originals of the shadow build are used
                    m.globals[k] = getattr(live, k)
                    self.native_ok.add(id(getattr(live, k)))
                    continue
                self.subst[id(getattr(live, k))] = v

    # ---------------------------------------------------------------- statements
    def exec_block(self, stmts):
        for s in stmts:
            if self.g is FALSE:
                return
            self.exec_stmt(s)

    def exec_stmt(self, s):
        m = getattr(self, "x_" + type(s).__name__, None)
        if m is None:
            raise Unsupported("statement %s (line %s)" % (type(s).__name__, getattr(s, "lineno", "?")))
        try:
            m(s)
        except Exception as e:  # noqa
            # an exception raised by a model / native operation while executing under a symbolic guard is an
            # outcome of that guard only: park it in the region like an interpreted raise
            if self.merge and self.region is not None and self.g is FALSE:
                pass   # raised while finishing a statement whose guard had already become false: dead code
            elif self.merge and self.region is not None and not self.absg().is_true():
                self.region.excs.append((self.absg(), e))
                self.g = FALSE
            else:
                raise
        except (Unsupported, Inconclusive) as e:
            if not getattr(e, "located", False):
                e.located = True
                e.args = ("%s [at %s line %s]" % (e.args[0] if e.args else "", "/".join(self.ctx.stack_depth[-3:]), getattr(s, "lineno", "?")),)
            raise

    def x_Pass(self, s):
        pass

    def x_Expr(self, s):
        if isinstance(s.value, ast.Constant):
            return
        self.eval(s.value)

    def x_Import(self, s):
        import importlib
        for a in s.names:
            mod = importlib.import_module(a.name)
            top = a.name.split(".")[0]
            self.store_name(a.asname or top, mod if a.asname else sys.modules[top])

    def x_ImportFrom(self, s):
        import importlib
        mod = self.frame.module
        pkg = mod.name.rsplit(".", 1)[0] if s.level else None
        name = ("." * s.level) + (s.module or "")
        live = importlib.import_module(name, pkg) if s.level else importlib.import_module(s.module)
        for a in s.names:
            v = getattr(live, a.name)
            v = self.subst.get(id(v), v)
            if isinstance(mod, IModule) and callable(v) and getattr(v, "__module__", "").endswith("_match_tables"):
                self.native_ok.add(id(v))
            self.store_name(a.asname or a.name, v)

    def x_Global(self, s):
        raise Unsupported("global statement")

    def x_Assign(self, s):
        v = self.eval(s.value)
        for t in s.targets:
            self.assign(t, v)

    def x_AnnAssign(self, s):
        ann = s.annotation
        ctype = ann.value if isinstance(ann, ast.Constant) and isinstance(ann.value, str) else None
        if not isinstance(s.target, ast.Name):
            if s.value is not None:
                self.assign(s.target, self.eval(s.value))
            return
        name = s.target.id
        f = self.frame
        if ctype is not None and isinstance(f.module, IModule):
            if f.func is None and not isinstance(f.env, dict):
                pass
            f.ctypes[name] = ctype
            t = f.module.types.parse(ctype)
            if s.value is None:
                if t.kind == "array":
                    f.env[name] = CArr([Indeterminate(name) for _ in range(t.length)], t.target.name, name)
                elif t.kind == "struct":
                    f.env[name] = self.new_struct(t, name)
                elif name not in f.env:
                    f.env[name] = Indeterminate(name)
                return
        if s.value is not None:
            self.assign(s.target, self.eval(s.value))

    def new_struct(self, t, what=""):
        return Struct(t.name, {k: Indeterminate(what + "." + k) for k in t.fields})

    def x_AugAssign(self, s):
        t = s.target
        if isinstance(t, ast.Name):
            cur = self.load_name(t.id)
            v = self.binop(s.op, cur, self.eval(s.value), aug=True)
            self.assign(t, v)
        elif isinstance(t, ast.Attribute):
            obj = self.eval(t.value)
            cur = self.getattr(obj, t.attr)
            v = self.binop(s.op, cur, self.eval(s.value), aug=True)
            self.setattr(obj, t.attr, v)
        elif isinstance(t, ast.Subscript):
            obj = self.eval(t.value)
            idx = self.eval_index(t.slice)
            cur = self.getitem(obj, idx)
            v = self.binop(s.op, cur, self.eval(s.value), aug=True)
            self.setitem(obj, idx, v)
        else:
            raise Unsupported("augmented assignment target")

    def x_If(self, s):
        c = self.truth(self.eval(s.test))
        if c is True:
            return self.exec_block(s.body)
        if c is False:
            return self.exec_block(s.orelse)
        if not self.merge:
            if self.branch(c):
                self.push_refine(s.test, True)
                try:
                    self.exec_block(s.body)
                finally:
                    self.pop_refine()
            else:
                self.push_refine(s.test, False)
                try:
                    self.exec_block(s.orelse)
                finally:
                    self.pop_refine()
            return
        g0 = self.g
        gt = g_and(g0, c)
        ge = g_and(g0, neg(c))
        outs = []
        def pure_raise(body):
            return len(body) == 1 and isinstance(body[0], ast.Raise)
        if gt is not FALSE:
            if pure_raise(s.body):
                self.mark_live(neg(c))
            self.g = gt
            self.push_refine(s.test, True)
            try:
                self.exec_block(s.body)
            finally:
                self.pop_refine()
            g1 = self.g
        else:
            g1 = FALSE
        if ge is not FALSE:
            if s.orelse and pure_raise(s.orelse):
                self.mark_live(c)
            self.g = ge
            self.push_refine(s.test, False)
            try:
                self.exec_block(s.orelse)
            finally:
                self.pop_refine()
            g2 = self.g
        else:
            g2 = FALSE
        if g1 is gt and g2 is ge:
            self.g = g0
        else:
            self.g = g_or([g1, g2])

    # interval refinement of local variables inside a branch -------------------------------
    def push_refine(self, test, positive):
        ov = {}
        try:
            self._refine(test, positive, ov)
        except Unsupported:
            ov = {}
        self.frame.overlays.append(ov)

    def pop_refine(self):
        self.frame.overlays.pop()

    def _refine(self, test, positive, ov):
        if isinstance(test, ast.UnaryOp) and isinstance(test.op, ast.Not):
            return self._refine(test.operand, not positive, ov)
        if isinstance(test, ast.BoolOp):
            if (isinstance(test.op, ast.And) and positive) or (isinstance(test.op, ast.Or) and not positive):
                for v in test.values:
                    self._refine(v, positive, ov)
            return
        if not isinstance(test, ast.Compare) or len(test.ops) != 1:
            return
        l, r = test.left, test.comparators[0]
        op = type(test.ops[0]).__name__
        names = {"Lt": "<", "LtE": "<=", "Gt": ">", "GtE": ">=", "Eq": "==", "NotEq": "!="}
        if op not in names:
            return
        op = names[op]
        if not positive:
            op = {"<": ">=", "<=": ">", ">": "<=", ">=": "<", "==": "!=", "!=": "=="}[op]
        for side, other, o in ((l, r, op), (r, l, {"<": ">", "<=": ">=", ">": "<", ">=": "<=", "==": "==", "!=": "!="}[op])):
            if not isinstance(side, ast.Name):
                continue
            cur = ov.get(side.id)
            if cur is None:
                cur = self.peek_name(side.id)
            cur = self.resolve(cur)
            if not isinstance(cur, SInt):
                continue
            oth = self.peek_expr(other)
            if oth is None:
                continue
            ol, oh = V.bounds(oth)
            lo, hi = cur.lo, cur.hi
            if o == "<" and oh is not None:
                hi = oh - 1 if hi is None else min(hi, oh - 1)
            elif o == "<=" and oh is not None:
                hi = oh if hi is None else min(hi, oh)
            elif o == ">" and ol is not None:
                lo = ol + 1 if lo is None else max(lo, ol + 1)
            elif o == ">=" and ol is not None:
                lo = ol if lo is None else max(lo, ol)
            elif o == "==" and ol is not None and oh is not None:
                lo = ol if lo is None else max(lo, ol)
                hi = oh if hi is None else min(hi, oh)
            if (lo, hi) != (cur.lo, cur.hi):
                ov[side.id] = SInt(cur.e, lo, hi, cur.ite, cur.cases, cur.dom)

    def peek_name(self, name):
        f = self.frame
        for ov in reversed(f.overlays):
            if name in ov:
                return ov[name]
        return f.env.get(name)

    def peek_expr(self, e):
        """Side-effect free evaluation of simple expressions (names, constants, +/- constants)."""
        if isinstance(e, ast.Constant) and isinstance(e.value, int):
            return e.value
        if isinstance(e, ast.Name):
            v = self.peek_name(e.id)
            return self.resolve(v) if isinstance(v, (int, SInt)) else None
        if isinstance(e, ast.BinOp) and isinstance(e.op, (ast.Add, ast.Sub)):
            a, b = self.peek_expr(e.left), self.peek_expr(e.right)
            if a is None or b is None:
                return None
            return V.int_add(a, b) if isinstance(e.op, ast.Add) else V.int_sub(a, b)
        if isinstance(e, ast.UnaryOp) and isinstance(e.op, ast.USub):
            a = self.peek_expr(e.operand)
            return None if a is None else V.int_neg(a)
        return None

    # loops --------------------------------------------------------------------------------
    def x_While(self, s):
        loop = Loop()
        self.frame.loops.append(loop)
        exits = []
        n = 0
        try:
            while True:
                if self.g is FALSE:
                    break
                c = self.truth(self.eval(s.test))
                if c is False:
                    exits.append(self.g)
                    self.g = FALSE
                    break
                g0 = self.g
                if c is True:
                    gb = g0
                elif not self.merge:
                    if self.branch(c):
                        gb = g0
                    else:
                        exits.append(g0)
                        self.g = FALSE
                        break
                else:
                    gb = g_and(g0, c)
                    exits.append(g_and(g0, neg(c)))
                    if gb is not FALSE and n >= 6 and n % 4 == 2 and not self.ctx.feasible(g_and(self.frame.entry_abs, gb)):
                        gb = FALSE
                if gb is FALSE:
                    self.g = FALSE
                    break
                n += 1
                if n > MAX_UNROLL:
                    raise Inconclusive("unwinding limit reached in while loop at line %s" % s.lineno)
                self.g = gb
                loop.cont = []
                self.push_refine(s.test, True)
                try:
                    self.exec_block(s.body)
                finally:
                    self.pop_refine()
                self.g = g_or([self.g] + loop.cont)
        finally:
            self.frame.loops.pop()
        g_exit = g_or(exits)
        if s.orelse and g_exit is not FALSE:
            self.g = g_exit
            self.exec_block(s.orelse)
            g_exit = self.g
        self.g = g_or([g_exit] + loop.brk)

    def iterate(self, it):
        """Yield (guard-condition or None, item) for an iterable value."""
        it = self.resolve(it)
        if isinstance(it, SRange):
            a, b = it.start, it.stop
            al, ah = V.bounds(a)
            bl, bh = V.bounds(b)
            if al is None or bh is None:
                raise Inconclusive("range with unbounded symbolic limits")
            idxs = range(al, bh)
            if it.rev:
                idxs = reversed(idxs)
            for i in idxs:
                conds = []
                r1 = V.int_cmp("<=", a, i)
                r2 = V.int_cmp("<", i, b)
                if r1 is False or r2 is False:
                    continue
                c = None
                for r in (r1, r2):
                    if r is not True:
                        c = r.e if c is None else z3.And(c, r.e)
                yield c, i
            return
        if isinstance(it, SStr):
            kind = it.kind
            for ch in it.chars:
                yield None, (V.mk_str([ch], "str") if kind == "str" else ch)
            return
        if isinstance(it, (self.models.ISet, self.models.IDict)):
            for x in it.keys_list():
                yield None, x
            return
        if isinstance(it, Union):
            it = self.narrow(it, lambda x: isinstance(x, (tuple, list)), "iteration")
            if isinstance(it, Union):
                raise Unsupported("iteration over a union of sequences of different shapes")
        if isinstance(it, Obj):
            raise Unsupported("iteration over interpreter object")
        if V.is_sym(it):
            raise Unsupported("iteration over %r" % (it,))
        for x in it:
            yield None, x

    def x_For(self, s):
        it = self.eval(s.iter)
        loop = Loop()
        self.frame.loops.append(loop)
        g_loop = self.g
        try:
            for cond, item in self.iterate(it):
                if g_loop is FALSE:
                    break
                if cond is None:
                    gi = g_loop
                    skipped = FALSE
                else:
                    if not self.merge:
                        self.g = g_loop
                        if not self.branch(cond):
                            continue
                        gi, skipped = g_loop, FALSE
                    else:
                        gi = g_and(g_loop, cond)
                        skipped = g_and(g_loop, neg(cond))
                        if gi is FALSE:
                            continue
                self.g = gi
                loop.cont = []
                self.assign(s.target, item)
                self.exec_block(s.body)
                g_loop = g_or([self.g, skipped] + loop.cont)
        finally:
            self.frame.loops.pop()
        if s.orelse and g_loop is not FALSE:
            self.g = g_loop
            self.exec_block(s.orelse)
            g_loop = self.g
        self.g = g_or([g_loop] + loop.brk)

    def x_Break(self, s):
        self.frame.loops[-1].brk.append(self.g)
        self.g = FALSE

    def x_Continue(self, s):
        self.frame.loops[-1].cont.append(self.g)
        self.g = FALSE

    def x_Return(self, s):
        v = self.eval(s.value) if s.value is not None else None
        if self.g is FALSE:
            return
        f = self.frame
        if f.func is not None and f.func.rtype:
            v = self.coerce(v, f.func.rtype, "return value of " + f.func.qualname)
        f.rets.append((self.g, v))
        self.g = FALSE

    def x_Raise(self, s):
        if s.exc is None:
            raise Unsupported("bare raise")
        e = self.eval(s.exc)
        if isinstance(e, type) and issubclass(e, BaseException):
            e = e()
        if isinstance(e, IClass):
            e = self.instantiate(e, [], {})
        self.do_raise(e)

    def do_raise(self, e):
        a = self.absg()
        if a.is_true() or not self.merge:
            if isinstance(e, Obj):
                raise InterpException(e)
            raise e
        if self.region is None:
            raise Unsupported("symbolic raise outside a merge region")
        self.region.excs.append((a, e))
        self.g = FALSE

    def x_Assert(self, s):
        c = self.truth(self.eval(s.test))
        if c is True:
            return
        if c is False:
            return self.do_raise(AssertionError("assert at line %s" % s.lineno))
        if not self.merge:
            if self.branch(c):
                return
            return self.do_raise(AssertionError("assert at line %s" % s.lineno))
        g0 = self.g
        self.g = g_and(g0, neg(c))
        if self.g is not FALSE:
            self.do_raise(AssertionError("assert at line %s" % s.lineno))
        self.mark_live(c)
        self.g = g_and(g0, c)

    def x_Try(self, s):
        if self.merge and not self.absg().is_true():
            return self.x_Try_merge(s)
        try:
            try:
                if self.merge:
                    return self.x_Try_merge(s, guard_true=True)
                self.exec_block(s.body)
            except Exception as e:  # noqa - interpreter control exceptions are BaseException
                exc = e
                handled = False
                for h in s.handlers:
                    if h.type is None:
                        match = True
                    else:
                        t = self.eval(h.type)
                        match = self.exc_matches(exc, t)
                    if match:
                        if h.name:
                            self.store_name(h.name, exc.obj if isinstance(exc, InterpException) else exc)
                        self.exec_block(h.body)
                        handled = True
                        break
                if not handled:
                    raise
            else:
                self.exec_block(s.orelse)
        finally:
            if s.finalbody:
                saved = self.g
                self.g = TRUE if saved is FALSE else saved
                self.exec_block(s.finalbody)
                if saved is FALSE and self.g is not FALSE:
                    self.g = saved

    def x_Try_merge(self, s, guard_true=False):
        """try/except inside a merge region: exceptions parked in the region during the body that match a handler
        are taken out again and the handler runs under the disjunction of their guards."""
        if s.finalbody:
            raise Unsupported("try/finally in merge mode")
        region = self.region
        n0 = len(region.excs)
        g_entry = self.g
        caught_now = None
        try:
            self.exec_block(s.body)
        except Exception as e:  # raised under a concretely true guard
            if not guard_true:
                raise
            caught_now = e
        g_body = self.g if caught_now is None else FALSE
        new = region.excs[n0:]
        del region.excs[n0:]
        outs = [g_body]
        if caught_now is not None:
            new = [(self.absg() if False else G(()), caught_now)] + new
        remaining = []
        for h in s.handlers:
            t = self.eval(h.type) if h.type is not None else None
            mine = [(g, e) for g, e in new if t is None or self.exc_matches(e, t)]
            new = [(g, e) for g, e in new if not (t is None or self.exc_matches(e, t))]
            if not mine:
                continue
            if h.name:
                raise Unsupported("named exception handler in merge mode")
            cond = z3.Or(*[g.e for g, _ in mine]) if len(mine) > 1 else mine[0][0].e
            self.g = g_and(g_entry, cond)
            if self.g is not FALSE:
                self.exec_block(h.body)
                outs.append(self.g)
        region.excs.extend(new)
        if s.orelse and g_body is not FALSE:
            self.g = g_body
            self.exec_block(s.orelse)
            outs[0] = self.g
        self.g = g_or(outs)

    def exc_matches(self, exc, t):
        if isinstance(t, tuple):
            return any(self.exc_matches(exc, x) for x in t)
        if isinstance(exc, InterpException):
            return isinstance(t, IClass) and exc.obj.cls.issubclass_of(t) or (isinstance(t, type) and exc.obj.cls.issubclass_of(t))
        if isinstance(t, IClass):
            return False
        return isinstance(exc, t)

    def x_FunctionDef(self, s):
        f = self.make_func(s)
        for d in reversed(s.decorator_list):
            if isinstance(d, ast.Call) and isinstance(d.func, ast.Name) and d.func.id == "__cfunc__":
                f.rtype = d.args[0].value
                if f.rtype == "void":
                    f.rtype = None
                continue
            dv = self.eval(d)
            f = self.call_value(dv, [f], {})
        self.store_name(s.name, f)

    def make_func(self, s, cls=None):
        fr = self.frame
        mod = fr.module
        closure = None
        if fr.func is not None:
            closure = Closure(fr.env, fr.closure)
        qual = (fr.func.qualname + "." if fr.func is not None else "") + getattr(s, "name", "<lambda>")
        f = IFunc(s, mod, qual, cls=cls, closure=closure, is_pyx=isinstance(mod, IModule))
        if fr.func is None:
            self.prog.note_encoded(f)
        return f

    def x_ClassDef(self, s):
        decos = [d.id for d in s.decorator_list if isinstance(d, ast.Name)]
        mod = self.frame.module
        if "__cstruct__" in decos:
            fields = {}
            for st in s.body:
                if isinstance(st, ast.AnnAssign):
                    fields[st.target.id] = st.annotation.value
            mod.types.struct(s.name, fields)
            return
        bases = [self.eval(b) for b in s.bases]
        if not isinstance(mod, IModule):
            raise Unsupported("class definition inside interpreted Python code")
        cls = IClass(s.name, bases, mod, "__cdef_class__" in decos)
        for st in s.body:
            if isinstance(st, ast.FunctionDef):
                f = IFunc(st, mod, s.name + "." + st.name, cls=cls, is_pyx=True)
                cls.funcs[st.name] = f
                self.prog.note_encoded(f)
            elif isinstance(st, ast.AnnAssign) and isinstance(st.target, ast.Name):
                cls.cattrs[st.target.id] = st.annotation.value
            elif isinstance(st, ast.Assign) and len(st.targets) == 1 and isinstance(st.targets[0], ast.Name):
                cls.attrs[st.targets[0].id] = self.eval(st.value)
            elif isinstance(st, (ast.Pass, ast.Expr)):
                pass
            else:
                raise Unsupported("class body statement " + type(st).__name__)
        self.store_name(s.name, cls)

    def x_Delete(self, s):
        for t in s.targets:
            if isinstance(t, ast.Name):
                self.frame.env.pop(t.id, None)
            elif isinstance(t, ast.Subscript):
                obj = self.eval(t.value)
                idx = self.eval_index(t.slice)
                self.models.delitem(self, obj, idx)
            else:
                raise Unsupported("del target")

    def x_With(self, s):
        raise Unsupported("with statement")

    # ---------------------------------------------------------------- names & assignment
    def load_name(self, name):
        f = self.frame
        for ov in reversed(f.overlays):
            if name in ov:
                return ov[name]
        if name in f.env:
            v = f.env[name]
            if isinstance(v, Indeterminate):
                v = self.materialise(v, f.ctypes.get(name), f.module)
                f.env[name] = v
            return self.resolve(v)
        c = f.closure
        while c is not None:
            if name in c.env:
                return self.resolve(c.env[name])
            c = c.parent
        return self.load_global(name, f.module)

    def load_global(self, name, mod):
        g = mod.globals
        if name in g:
            v = g[name]
            return self.subst.get(id(v), v)
        ext = self.models.EXTERN.get(name)
        if ext is not None:
            return ext
        cf = self.prog.cfuncs.get(name) if isinstance(mod, IModule) else None
        if cf is not None:
            return cf
        if hasattr(_pybuiltins, name):
            return getattr(_pybuiltins, name)
        raise NameError(name)

    def materialise(self, v, ctype, mod):
        """An indeterminate C value read for the first time becomes a fresh unconstrained symbol."""
        if ctype is None:
            return V.fresh_int("indet_" + v.what)
        t = mod.types.parse(ctype)
        if t.kind == "int":
            if mod.types.is_bv(t):
                return SBV(z3.BitVec("indet_%s!%d" % (v.what, next(V._counter)), t.bits), t.bits, False)
            return V.fresh_int("indet_" + v.what, t.lo, t.hi)
        if t.kind == "bool":
            return V.fresh_bool("indet_" + v.what)
        if t.kind == "ptr":
            raise Unsupported("read of an indeterminate pointer " + v.what)
        return V.fresh_int("indet_" + v.what)

    def store_name(self, name, v):
        f = self.frame
        ct = f.ctypes.get(name)
        if ct is not None:
            v = self.coerce(v, ct, name)
        for ov in f.overlays:
            ov.pop(name, None)
        g = self.sg(self.g)
        if g.is_true() or name not in f.env:
            f.env[name] = v
        else:
            old = f.env[name]
            if isinstance(old, Indeterminate):
                f.env[name] = v
            else:
                f.env[name] = self.merge_typed(ct, g.e, v, old, g)

    def assign(self, t, v):
        if isinstance(t, ast.Name):
            return self.store_name(t.id, v)
        if isinstance(t, (ast.Tuple, ast.List)):
            items = self.unpack(v, len(t.elts), any(isinstance(e, ast.Starred) for e in t.elts))
            if any(isinstance(e, ast.Starred) for e in t.elts):
                raise Unsupported("starred assignment")
            for e, x in zip(t.elts, items):
                self.assign(e, x)
            return
        if isinstance(t, ast.Attribute):
            return self.setattr(self.eval(t.value), t.attr, v)
        if isinstance(t, ast.Subscript):
            return self.setitem(self.eval(t.value), self.eval_index(t.slice), v)
        raise Unsupported("assignment target " + type(t).__name__)

    def unpack(self, v, n, star=False):
        v = self.resolve(v)
        if isinstance(v, Union):
            v = self.narrow(v, lambda x: x is not None and not isinstance(x, (int, bool)), "unpacking")
        if isinstance(v, SStr):
            items = [V.mk_str([c], v.kind) for c in v.chars]
        elif isinstance(v, Struct):
            raise Unsupported("unpacking a struct")
        else:
            items = list(self.iterate_concrete(v))
        if len(items) != n and not star:
            raise ValueError("unpack: expected %d values, got %d" % (n, len(items)))
        return items

    def iterate_concrete(self, v):
        for c, x in self.iterate(v):
            if c is not None:
                raise Unsupported("unpacking a symbolic range")
            yield x

    def narrow(self, u, pred, what):
        """Keep the alternatives of a union that satisfy pred; the others must be infeasible here."""
        keep = [(c, x) for c, x in u.alts if pred(x)]
        drop = [c for c, x in u.alts if not pred(x)]
        if drop:
            self.oblige(z3.Not(z3.Or(*drop)) if len(drop) > 1 else neg(drop[0]), "type error in " + what, "type")
        if not keep:
            raise Unsupported("no viable alternative in " + what)
        v = keep[-1][1]
        for c, x in reversed(keep[:-1]):
            v = merge(c, x, v)
        return v

    # ---------------------------------------------------------------- coercion to C types
    def coerce(self, v, ctype, what):
        mod = self.frame.module
        if not isinstance(mod, IModule):
            return v
        t = mod.types.parse(ctype)
        v = self.resolve(v)
        if isinstance(v, Indeterminate):
            return v
        if t.kind == "bool":
            tr = self.truth(v)
            return mk_bool(tr)
        if t.kind == "int":
            if isinstance(v, Union):
                v = self.narrow(v, lambda x: isinstance(x, (int, SInt, SBV, SBool, bool)), "conversion to " + ctype)
            if isinstance(v, (bytes, SBytes)) and len(v) == 1:
                v = V.str_chars(v)[0]
            if mod.types.is_bv(t):
                if isinstance(v, SBV):
                    return v if v.w == t.bits else V.mk_bv(V.to_bv(v, t.bits), t.bits, False)
                if isinstance(v, SInt):
                    return V.mk_bv(V.to_bv(v, t.bits), t.bits, False)
                if isinstance(v, SBool):
                    return V.mk_bv(V.to_bv(v, t.bits), t.bits, False)
                return int(v) % (1 << t.bits)
            if isinstance(v, SBV):
                v = V.bv_to_int(v)
            if isinstance(v, SBool):
                v = mk_int(zi(v), 0, 1)
            if isinstance(v, float):
                raise Unsupported("implicit float to int conversion for " + what)
            if isinstance(v, SInt):
                lo, hi = v.lo, v.hi
                if lo is None or hi is None or lo < t.lo or hi > t.hi:
                    if not t.signed:
                        # conversion of an integer to an unsigned type is defined: value modulo 2^bits
                        if V.INT_BITS:
                            raise Unsupported("unsigned wrap in bit-vector integer mode")
                        return mk_int(v.e % (1 << t.bits), 0, t.hi)
                    self.oblige(z3.And(v.e >= t.lo, v.e <= t.hi), "signed overflow of %s in %s" % (ctype, what), "overflow")
                    v = SInt(v.e, t.lo if lo is None else max(lo, t.lo), t.hi if hi is None else min(hi, t.hi), v.ite, v.cases, v.dom)
                return v
            if isinstance(v, bool):
                return int(v)
            if isinstance(v, int):
                if v < t.lo or v > t.hi:
                    if t.signed:
                        self.oblige(False, "signed overflow of %s in %s (%d)" % (ctype, what, v), "overflow")
                        return v
                    return v % (1 << t.bits)
                return v
            if v is None:
                raise TypeError("an integer is required for " + what)
            raise Unsupported("coercion of %r to %s" % (v, ctype))
        if t.kind == "float":
            if isinstance(v, (int, float)) and not isinstance(v, bool):
                return float(v)
            return v
        if t.kind == "ptr":
            if isinstance(v, V.RawMem):
                return self.models.typed_alloc(self, v, t)
            if isinstance(v, (bytes, SBytes)):
                return self.models.bytes_ptr(self, v)
            if isinstance(v, Ptr):
                return v
            if isinstance(v, CArr):
                return Ptr(v, 0)
            if v is None:
                return V.NULL
            raise Unsupported("coercion of %r to pointer %s" % (v, ctype))
        if t.kind == "struct":
            if isinstance(v, Struct):
                return v.copy()
            raise Unsupported("coercion to struct")
        return v

    # ---------------------------------------------------------------- attributes
    def lookup_special(self, obj, name):
        if isinstance(obj, (Obj, IClass, IFunc, IMethod)) or V.is_sym(obj) or obj is None:
            return None
        if isinstance(obj, (int, str, bytes, float, tuple, list, dict, set, frozenset, type)):
            return None
        try:
            a = inspect.getattr_static(type(obj), name)
        except AttributeError:
            return None
        f = self.prog.ifunc_of(a, self.defining_class(type(obj), name)) if inspect.isfunction(a) else None
        if f is None:
            return None
        return IMethod(f, obj)

    def defining_class(self, cls, name):
        for c in cls.__mro__:
            if name in c.__dict__:
                return c
        return cls

    def getattr(self, obj, name):
        obj = self.resolve(obj)
        if isinstance(obj, Obj):
            if name in obj.attrs:
                v = obj.attrs[name]
                if isinstance(v, Indeterminate):
                    v = self.materialise(v, obj.cls.all_cattrs().get(name), obj.cls.module)
                    obj.attrs[name] = v
                return self.resolve(v)
            f = obj.cls.find(name)
            if f is not None:
                return IMethod(f, obj)
            for c in obj.cls.mro():
                if name in c.attrs:
                    return c.attrs[name]
            if name == "__class__":
                return obj.cls
            raise AttributeError("%s has no attribute %s" % (obj.cls.name, name))
        if isinstance(obj, Struct):
            v = obj.fields[name]
            if isinstance(v, Indeterminate):
                v = V.fresh_int("indet_" + v.what, -(1 << 31), (1 << 31) - 1)
                obj.fields[name] = v
            return self.resolve(v)
        if isinstance(obj, IClass):
            if name == "__name__":
                return obj.name
            f = obj.find(name)
            if f is not None:
                return f
            for c in obj.mro():
                if name in c.attrs:
                    return c.attrs[name]
            raise AttributeError(name)
        if isinstance(obj, SuperProxy):
            return obj.getattr(self, name)
        if isinstance(obj, (SStr, self.models.ISet, self.models.IDict, SInt, SBool)) or (
                isinstance(obj, (str, bytes, list, dict, set, frozenset, tuple)) and name in self.models.METHOD_MODELS.get(type(obj).__name__, ())):
            return self.models.BoundModel(obj, name)
        if isinstance(obj, Union):
            vals = []
            drop = []
            for c, x in obj.alts:
                if x is None:
                    drop.append(c)
                    continue
                vals.append((c, self.getattr(x, name)))
            if vals and all(isinstance(v, (IMethod, IFunc, self.models.BoundModel)) or callable(v) for _, v in vals):
                return UnionAttr(obj, name)
            if drop:
                self.oblige(neg(z3.Or(*drop)) if len(drop) > 1 else neg(drop[0]), "attribute '%s' of None" % name, "type")
            if not vals:
                raise AttributeError(name)
            v = vals[-1][1]
            for c, x in reversed(vals[:-1]):
                v = merge(c, x, v)
            return v
        if V.is_sym(obj):
            raise Unsupported("attribute %s of %r" % (name, obj))
        if isinstance(obj, IFunc):
            if name == "__name__":
                return obj.name
            raise AttributeError(name)
        # live object
        if isinstance(obj, type):
            try:
                a = inspect.getattr_static(obj, name)
            except AttributeError:
                return getattr(obj, name)
            if isinstance(a, staticmethod):
                a = a.__func__
                f = self.prog.ifunc_of(a, self.defining_class(obj, name))
                return f if f is not None else a
            if isinstance(a, classmethod):
                f = self.prog.ifunc_of(a.__func__, self.defining_class(obj, name))
                return IMethod(f, obj) if f is not None else getattr(obj, name)
            if inspect.isfunction(a):
                f = self.prog.ifunc_of(a, self.defining_class(obj, name))
                return f if f is not None else a
            v = getattr(obj, name)
            return self.subst.get(id(v), v)
        if inspect.ismodule(obj):
            v = getattr(obj, name)
            return self.subst.get(id(v), v)
        cls = type(obj)
        try:
            inst_dict = object.__getattribute__(obj, "__dict__")
        except AttributeError:
            inst_dict = None
        if inst_dict is not None and name in inst_dict:
            return self.resolve(inst_dict[name])
        try:
            a = inspect.getattr_static(cls, name)
        except AttributeError:
            a = None
        if a is not None:
            if inspect.isfunction(a):
                f = self.prog.ifunc_of(a, self.defining_class(cls, name))
                if f is not None:
                    return IMethod(f, obj)
            elif isinstance(a, property):
                f = self.prog.ifunc_of(a.fget, self.defining_class(cls, name)) if a.fget is not None else None
                if f is not None:
                    return self.call_ifunc(f, [obj], {})
            elif isinstance(a, staticmethod):
                f = self.prog.ifunc_of(a.__func__, self.defining_class(cls, name))
                if f is not None:
                    return f
            elif isinstance(a, classmethod):
                f = self.prog.ifunc_of(a.__func__, self.defining_class(cls, name))
                if f is not None:
                    return IMethod(f, cls)
        v = getattr(obj, name)
        return self.resolve(self.subst.get(id(v), v))

    def setattr(self, obj, name, v):
        obj = self.resolve(obj)
        a = self.sg()
        if isinstance(obj, Obj):
            ct = obj.cls.all_cattrs().get(name)
            if ct is not None:
                saved_mod = None
                if self.frame.module is not obj.cls.module:
                    raise Unsupported("cdef attribute store from another module")
                v = self.coerce(v, ct, "%s.%s" % (obj.cls.name, name))
            elif obj.cls.is_cdef:
                raise AttributeError("'%s' object has no attribute '%s'" % (obj.cls.name, name))
            if a.is_true() or name not in obj.attrs or isinstance(obj.attrs[name], Indeterminate):
                obj.attrs[name] = v
            else:
                obj.attrs[name] = self.merge_typed(ct, a.e, v, obj.attrs[name], a)
            return
        if isinstance(obj, Struct):
            ct = self.frame.module.types.structs[obj.stype][name]
            v = self.coerce(v, ct, "%s.%s" % (obj.stype, name))
            old = obj.fields[name]
            if a.is_true() or isinstance(old, Indeterminate):
                # a guarded store into indeterminate memory: where the guard is false the content stays arbitrary,
                # and "the stored value" is one such arbitrary content (keeps intervals finite; see DESIGN 2.1)
                obj.fields[name] = v
            else:
                obj.fields[name] = self.merge_typed(ct, a.e, v, old, a)
            return
        if V.is_sym(obj) or isinstance(obj, (IClass, IFunc)):
            raise Unsupported("attribute store on %r" % (obj,))
        if not a.is_true():
            try:
                old = getattr(obj, name)
                v = merge(a.e, v, old, a)
            except AttributeError:
                pass
        setattr(obj, name, v)

    # ---------------------------------------------------------------- calls
    def call_value(self, f, args, kwargs):
        if isinstance(f, IFunc):
            return self.call_ifunc(f, args, kwargs)
        if isinstance(f, IMethod):
            return self.call_ifunc(f.func, [f.self_obj] + list(args), kwargs)
        if isinstance(f, IClass):
            return self.instantiate(f, args, kwargs)
        if isinstance(f, self.models.BoundModel):
            return f(self, args, kwargs)
        if isinstance(f, self.models.Extern):
            return f.fn(self, *args, **kwargs)
        if isinstance(f, UnionAttr):
            return f.call(self, args, kwargs)
        if isinstance(f, Union):
            raise Unsupported("call of a union of callables")
        if isinstance(f, type):
            return self.instantiate_live(f, args, kwargs)
        if inspect.isfunction(f) and id(f) not in self.native_ok:
            ifn = self.prog.ifunc_of(f)
            if ifn is not None:
                return self.call_ifunc(ifn, args, kwargs)
        if inspect.ismethod(f) and inspect.isfunction(f.__func__):
            ifn = self.prog.ifunc_of(f.__func__, self.defining_class(type(f.__self__), f.__func__.__name__) if not isinstance(f.__self__, type) else f.__self__)
            if ifn is not None:
                return self.call_ifunc(ifn, [f.__self__] + list(args), kwargs)
        return self.models.call_native(self, f, args, kwargs)

    def bind_args(self, f, args, kwargs):
        a = f.node.args
        params = [x.arg for x in a.posonlyargs + a.args]
        env = {}
        args = list(args)
        if len(args) > len(params) and a.vararg is None:
            raise TypeError("%s() takes %d positional arguments but %d were given" % (f.name, len(params), len(args)))
        for p, v in zip(params, args):
            env[p] = v
        if a.vararg is not None:
            env[a.vararg.arg] = tuple(args[len(params):])
        kwargs = dict(kwargs)
        for p in params[len(args):]:
            if p in kwargs:
                env[p] = kwargs.pop(p)
        for p in [x.arg for x in a.kwonlyargs]:
            if p in kwargs:
                env[p] = kwargs.pop(p)
        if a.kwarg is not None:
            env[a.kwarg.arg] = kwargs
        elif kwargs:
            for k in kwargs:
                if k in env:
                    raise TypeError("%s() got multiple values for argument '%s'" % (f.name, k))
            raise TypeError("%s() got an unexpected keyword argument '%s'" % (f.name, list(kwargs)[0]))
        return env, params

    def call_ifunc(self, f, args, kwargs):
        ov = self.overrides.get(f.qualname)
        if ov is not None:
            return ov(self, *args, **kwargs)
        is_region_entry = False
        if not self.merge and (f.module.name in self.merge_modules or f.qualname in self.merge_funcs):
            is_region_entry = True
        if is_region_entry:
            return self.run_region(f, args, kwargs)
        return self._call(f, args, kwargs)

    def _call(self, f, args, kwargs):
        if len(self.ctx.stack_depth) > 200:
            raise Unsupported("recursion too deep")
        # distribute a call over union-valued arguments (merge mode)
        if self.merge:
            for i, x in enumerate(args):
                if isinstance(x, Union):
                    return self.distribute_call(f, args, kwargs, i)
        node = f.node
        env, params = self.bind_args(f, args, kwargs)
        fr = Frame(f, f.module, self.absg(), f.closure)
        saved = (self.frame, self.g)
        nexc = len(self.region.excs) if self.region is not None else 0
        self.frame, self.g = fr, TRUE
        self.ctx.stack_depth.append(f.qualname)
        try:
            a = node.args
            # defaults are evaluated in the defining scope
            all_params = a.posonlyargs + a.args
            defaults = a.defaults
            for p, d in zip(all_params[len(all_params) - len(defaults):], defaults):
                if p.arg not in env:
                    env[p.arg] = self.eval_default(f, d)
            for p, d in zip(a.kwonlyargs, a.kw_defaults):
                if p.arg not in env and d is not None:
                    env[p.arg] = self.eval_default(f, d)
            for p in all_params + a.kwonlyargs:
                if p.arg not in env:
                    raise TypeError("%s() missing required argument '%s'" % (f.name, p.arg))
            if f.is_pyx:
                for p in all_params:
                    if isinstance(p.annotation, ast.Constant) and isinstance(p.annotation.value, str):
                        ct = p.annotation.value
                        fr.ctypes[p.arg] = ct
                        env[p.arg] = self.coerce_arg(env[p.arg], ct, p.arg, f)
            fr.env = env
            if not isinstance(node, ast.Lambda) and _is_generator(node):
                fr.yields = []   # generators are evaluated eagerly into a list (finite, no interleaved side effects here)
            if isinstance(node, ast.Lambda):
                v = self.eval(node.body)
                fr.rets.append((self.g, v))
            else:
                self.exec_block(node.body)
                if self.g is not FALSE:
                    fr.rets.append((self.g, None))
        finally:
            self.ctx.stack_depth.pop()
            self.frame, self.g = saved
        self._absg_cache = None
        if self.region is not None and len(self.region.excs) > nexc:
            new = [g.e for g, _ in self.region.excs[nexc:]]
            noexc = neg(z3.Or(*new)) if len(new) > 1 else neg(new[0])
            self.mark_live(noexc)
            self.g = g_and(self.g, noexc)
        rets = fr.rets
        if fr.yields is not None:
            return list(fr.yields)
        if not rets:
            return None
        v = rets[-1][1]
        for g, x in reversed(rets[:-1]):
            v = merge(g.e, x, v, g)
        return v

    def eval_default(self, f, d):
        if isinstance(d, ast.Constant):
            return d.value
        fr = Frame(None, f.module, TRUE, f.closure)
        saved = (self.frame, self.g)
        self.frame, self.g = fr, TRUE
        try:
            return self.eval(d)
        finally:
            self.frame, self.g = saved

    def coerce_arg(self, v, ct, name, f):
        t = f.module.types.parse(ct)
        if t.kind == "object":
            if ct == "str" and v is not None and not isinstance(v, (str, SStr)) or (ct == "str" and isinstance(v, SBytes)):
                if isinstance(v, Union):
                    return v
                raise TypeError("Argument '%s' has incorrect type (expected str, got %s)" % (name, type(v).__name__))
            return v
        return self.coerce(v, ct, "argument " + name)

    def distribute_call(self, f, args, kwargs, i):
        u = args[i]
        g0 = self.g
        outs = []
        gs = []
        for c, x in u.alts:
            gi = g_and(g0, c)
            if gi is FALSE:
                continue
            self.g = gi
            a2 = list(args)
            a2[i] = x
            r = self._call(f, a2, kwargs)
            outs.append((c, r))
            gs.append(self.g)
        self.g = g_or(gs) if not all(g is gg for g, gg in zip(gs, [g_and(g0, c) for c, _ in u.alts])) else g0
        if not outs:
            return None
        v = outs[-1][1]
        for c, x in reversed(outs[:-1]):
            v = merge(c, x, v)
        return v

    def run_region(self, f, args, kwargs):
        """Fork mode -> merge mode boundary: run f predicated, then fork over its outcomes."""
        self.merge = True
        self.ctx.region_ran = True
        region = Region()
        saved_region = self.region
        self.region = region
        try:
            v = self._call(f, args, kwargs)
        finally:
            self.merge = False
            self.region = saved_region
        alts = []
        excs = region.excs
        exc_cond = [g.e for g, _ in excs]
        if isinstance(v, Union):
            for c, x in v.alts:
                alts.append((c, ("ret", x)))
        else:
            alts.append((None, ("ret", v)))
        if not excs and len(alts) == 1:
            return v
        noexc = neg(z3.Or(*exc_cond)) if len(exc_cond) > 1 else (neg(exc_cond[0]) if exc_cond else None)
        choices = []
        for c, out in alts:
            cond = c if noexc is None else (noexc if c is None else z3.And(noexc, c))
            choices.append((cond if cond is not None else z3.BoolVal(True), out))
        for g, e in excs:
            choices.append((g.e, ("exc", e)))
        kind, val = self.ctx.choose(choices)
        if kind == "exc":
            if isinstance(val, Obj):
                raise InterpException(val)
            raise val
        return val

    def instantiate(self, cls, args, kwargs):
        if cls.find("__init__") is None and cls.find("__cinit__") is None and any(not isinstance(b, IClass) for b in cls.bases) and cls.bases:
            # e.g. "cdef class HasNoQualities(Exception)": build the live counterpart
            live = getattr(cls.module.live, cls.name, None) if hasattr(cls.module, "live") else None
            if live is not None:
                return live(*args, **kwargs)
        o = Obj(cls)
        for c in reversed(cls.mro()):
            for k, ct in c.cattrs.items():
                t = cls.module.types.parse(ct)
                if t.kind == "int":
                    o.attrs[k] = 0
                elif t.kind == "bool":
                    o.attrs[k] = False
                elif t.kind == "float":
                    o.attrs[k] = 0.0
                elif t.kind == "ptr":
                    o.attrs[k] = V.NULL
                else:
                    o.attrs[k] = None
        for c in reversed(cls.mro()):
            f = c.funcs.get("__cinit__")
            if f is not None:
                self.call_ifunc(f, [o] + list(args), kwargs)
        f = cls.find("__init__")
        if f is not None:
            self.call_ifunc(f, [o] + list(args), kwargs)
        return o

    def instantiate_live(self, cls, args, kwargs):
        cls = self.subst.get(id(cls), cls)
        if isinstance(cls, IClass):
            return self.instantiate(cls, args, kwargs)
        model = self.models.TYPE_MODELS.get(cls)
        if model is not None:
            return model(self, *args, **kwargs)
        init = None
        for c in cls.__mro__:
            if "__init__" in c.__dict__:
                init = c.__dict__["__init__"]
                defining = c
                break
        f = self.prog.ifunc_of(init, defining) if inspect.isfunction(init) else None
        if f is None or cls.__new__ is not object.__new__:
            return self.models.call_native(self, cls, args, kwargs)
        o = object.__new__(cls)
        self.call_ifunc(f, [o] + list(args), kwargs)
        return o

    # ---------------------------------------------------------------- expressions
    def eval(self, e):
        m = getattr(self, "e_" + type(e).__name__, None)
        if m is None:
            raise Unsupported("expression %s (line %s)" % (type(e).__name__, getattr(e, "lineno", "?")))
        return m(e)

    def e_Constant(self, e):
        return e.value

    def e_Name(self, e):
        if e.id == "NULL" and isinstance(self.frame.module, IModule):
            return V.NULL
        return self.load_name(e.id)

    def e_Attribute(self, e):
        return self.getattr(self.eval(e.value), e.attr)

    def eval_index(self, s):
        if isinstance(s, ast.Slice):
            return slice(self.eval(s.lower) if s.lower is not None else None,
                         self.eval(s.upper) if s.upper is not None else None,
                         self.eval(s.step) if s.step is not None else None)
        return self.eval(s)

    def e_Subscript(self, e):
        return self.getitem(self.eval(e.value), self.eval_index(e.slice))

    def e_Slice(self, e):
        return self.eval_index(e)

    def getitem(self, obj, idx):
        return self.models.getitem(self, self.resolve(obj), self.resolve(idx) if not isinstance(idx, slice) else idx)

    def setitem(self, obj, idx, v):
        return self.models.setitem(self, self.resolve(obj), self.resolve(idx) if not isinstance(idx, slice) else idx, v)

    def e_Tuple(self, e):
        out = []
        for x in e.elts:
            if isinstance(x, ast.Starred):
                out.extend(self.iterate_concrete(self.eval(x.value)))
            else:
                out.append(self.eval(x))
        return tuple(out)

    def e_List(self, e):
        return list(self.e_Tuple(e))

    def e_Set(self, e):
        s = self.models.ISet(self)
        for x in e.elts:
            s.add(self.eval(x))
        return s.simplify()

    def e_Dict(self, e):
        d = self.models.IDict(self)
        for k, v in zip(e.keys, e.values):
            if k is None:
                raise Unsupported("dict unpacking in display")
            d.set(self.eval(k), self.eval(v))
        return d.simplify()

    def e_JoinedStr(self, e):
        parts = []
        for v in e.values:
            if isinstance(v, ast.Constant):
                parts.append(v.value)
            else:
                x = self.eval(v.value)
                if V.is_sym(x) or isinstance(x, (Obj, IClass)):
                    parts.append("<sym>")
                else:
                    try:
                        spec = ""
                        if v.format_spec is not None:
                            spec = self.e_JoinedStr(v.format_spec)
                        if v.conversion == ord("r"):
                            x = repr(x)
                        elif v.conversion == ord("s"):
                            x = str(x)
                        parts.append(format(x, spec))
                    except Unsupported:
                        parts.append("<sym>")
                    except Exception:
                        parts.append("<unprintable>")
        return "".join(parts)

    def e_IfExp(self, e):
        c = self.truth(self.eval(e.test))
        if c is True:
            return self.eval(e.body)
        if c is False:
            return self.eval(e.orelse)
        if not self.merge:
            return self.eval(e.body) if self.branch(c) else self.eval(e.orelse)
        g0 = self.g
        self.g = g_and(g0, c)
        a = self.eval(e.body) if self.g is not FALSE else None
        self.g = g_and(g0, neg(c))
        b = self.eval(e.orelse) if self.g is not FALSE else None
        self.g = g0
        return merge(c, a, b)

    def e_BoolOp(self, e):
        is_and = isinstance(e.op, ast.And)
        g0 = self.g
        acc = []  # truth terms (z3 Bool) of the symbolic operands seen so far
        n = len(e.values)
        try:
            for i, x in enumerate(e.values):
                v = self.eval(x)
                t = self.truth(v)
                if isinstance(t, bool):
                    if t != is_and:  # short-circuit: "... and False" / "... or True"
                        return v if not acc else (not is_and)
                    if i == n - 1 and not acc:
                        return v
                    continue
                if not self.merge:
                    b = self.branch(t)
                    if b != is_and or i == n - 1:
                        return b if isinstance(v, SBool) else v
                    continue
                acc.append(t)
                if i < n - 1:
                    self.g = g_and(self.g, t if is_and else neg(t))
                    if self.g is FALSE:
                        break
            if not acc:
                return is_and
            if len(acc) == 1:
                return mk_bool(acc[0])
            return mk_bool(z3.And(*acc) if is_and else z3.Or(*acc))
        finally:
            self.g = g0

    def e_UnaryOp(self, e):
        v = self.resolve(self.eval(e.operand))
        if isinstance(e.op, ast.Not):
            t = self.truth(v)
            if isinstance(t, bool):
                return not t
            return mk_bool(neg(t))
        if isinstance(e.op, ast.USub):
            if isinstance(v, (SInt,)):
                return V.int_neg(v)
            if isinstance(v, SBV):
                return V.mk_bv(-v.e, v.w, v.signed)
            return -v
        if isinstance(e.op, ast.UAdd):
            return v
        if isinstance(e.op, ast.Invert):
            if isinstance(v, SBV):
                return V.mk_bv(~v.e, v.w, v.signed)
            if isinstance(v, SInt):
                return V.int_sub(V.int_neg(v), 1)
            return ~v
        raise Unsupported("unary op")

    def e_BinOp(self, e):
        return self.binop(e.op, self.eval(e.left), self.eval(e.right))

    def binop(self, op, a, b, aug=False):
        return self.models.binop(self, op, self.resolve(a), self.resolve(b), aug)

    def e_Compare(self, e):
        left = self.eval(e.left)
        acc = None
        g0 = self.g
        try:
            for op, r in zip(e.ops, e.comparators):
                right = self.eval(r)
                c = self.models.compare(self, op, self.resolve(left), self.resolve(right))
                if c is False:
                    return False
                if c is not True:
                    if not self.merge and len(e.ops) > 1:
                        if not self.branch(c.e):
                            return False
                    else:
                        acc = c.e if acc is None else z3.And(acc, c.e)
                left = right
            return True if acc is None else mk_bool(acc)
        finally:
            self.g = g0

    def e_Call(self, e):
        fnode = e.func
        if isinstance(fnode, ast.Name):
            nm = fnode.id
            if nm == "__cast__":
                return self.models.cast(self, e.args[0].value, self.eval(e.args[1]))
            if nm == "__sizeof__":
                return self.frame.module.types.sizeof(e.args[0].value)
            if nm == "__ctypedef__":
                self.frame.module.types.typedef(e.args[0].value, e.args[1].value)
                return None
            if nm == "super" and not e.args:
                f = self.frame.func
                slf = self.frame.env.get(f.node.args.args[0].arg)
                return SuperProxy(f.cls, slf)
        f = self.eval(fnode)
        args = []
        for a in e.args:
            if isinstance(a, ast.Starred):
                args.extend(self.iterate_concrete(self.eval(a.value)))
            else:
                args.append(self.eval(a))
        kwargs = {}
        for k in e.keywords:
            if k.arg is None:
                d = self.eval(k.value)
                if isinstance(d, self.models.IDict):
                    d = d.to_native()
                kwargs.update(d)
            else:
                kwargs[k.arg] = self.eval(k.value)
        return self.call_value(f, args, kwargs)

    def e_Lambda(self, e):
        return self.make_func(e)

    def _comp(self, gens, i, emit):
        if i == len(gens):
            return emit()
        gen = gens[i]
        for cond, item in self.iterate(self.eval(gen.iter)):
            if cond is not None:
                if self.merge:
                    raise Unsupported("comprehension over a symbolic range in merge mode")
                if not self.branch(cond):
                    continue
            self.assign(gen.target, item)
            ok = True
            for test in gen.ifs:
                t = self.truth(self.eval(test))
                if not isinstance(t, bool):
                    if self.merge:
                        raise Unsupported("symbolic filter in comprehension in merge mode")
                    t = self.branch(t)
                if not t:
                    ok = False
                    break
            if ok:
                self._comp(gens, i + 1, emit)

    def _with_comp_scope(self, fn):
        fr = self.frame
        saved_env = fr.env
        # comprehension scope: names bound by the comprehension do not leak
        fr.env = _ChainEnv(saved_env)
        try:
            return fn()
        finally:
            fr.env = saved_env

    def e_ListComp(self, e):
        out = []
        self._with_comp_scope(lambda: self._comp(e.generators, 0, lambda: out.append(self.eval(e.elt))))
        return out

    def e_GeneratorExp(self, e):
        return self.e_ListComp(e)

    def e_SetComp(self, e):
        s = self.models.ISet(self)
        self._with_comp_scope(lambda: self._comp(e.generators, 0, lambda: s.add(self.eval(e.elt))))
        return s.simplify()

    def e_DictComp(self, e):
        d = self.models.IDict(self)
        self._with_comp_scope(lambda: self._comp(e.generators, 0, lambda: d.set(self.eval(e.key), self.eval(e.value))))
        return d.simplify()

    def e_Yield(self, e):
        fr = self.frame
        if fr.yields is None:
            raise Unsupported("yield outside a generator function")
        if not self.absg().is_true():
            raise Unsupported("yield under a symbolic guard")
        fr.yields.append(self.eval(e.value) if e.value is not None else None)
        return None

    def e_Starred(self, e):
        raise Unsupported("starred expression")

    def e_NamedExpr(self, e):
        v = self.eval(e.value)
        self.assign(e.target, v)
        return v


_gen_cache = {}


def _is_generator(node):
    k = id(node)
    r = _gen_cache.get(k)
    if r is None:
        r = False
        stack = list(node.body)
        while stack:
            x = stack.pop()
            if isinstance(x, (ast.Yield, ast.YieldFrom)):
                r = True
                break
            if isinstance(x, (ast.FunctionDef, ast.Lambda, ast.ClassDef)):
                continue
            stack.extend(ast.iter_child_nodes(x))
        _gen_cache[k] = r
    return r


class _ChainEnv(dict):
    """Local scope of a comprehension layered over the enclosing function scope."""

    def __init__(self, parent):
        super().__init__()
        self.parent = parent

    def __contains__(self, k):
        return dict.__contains__(self, k) or k in self.parent

    def __getitem__(self, k):
        if dict.__contains__(self, k):
            return dict.__getitem__(self, k)
        return self.parent[k]

    def get(self, k, d=None):
        if k in self:
            return self[k]
        return d


class UnionAttr:
    """obj.name where obj is a union of objects: reads and calls distribute over the alternatives."""

    def __init__(self, u, name):
        self.u = u
        self.name = name

    def call(self, it, args, kwargs):
        g0 = it.g
        outs, gs = [], []
        for c, x in self.u.alts:
            gi = g_and(g0, c)
            if gi is FALSE:
                continue
            if x is None:
                it.g = gi
                it.do_raise(AttributeError("'NoneType' object has no attribute '%s'" % self.name))
                continue
            it.g = gi
            r = it.call_value(it.getattr(x, self.name), list(args), dict(kwargs))
            outs.append((c, r))
            gs.append(it.g)
        it.g = g_or(gs)
        if not outs:
            return None
        v = outs[-1][1]
        for c, x in reversed(outs[:-1]):
            v = merge(c, x, v)
        return v


class SuperProxy:
    def __init__(self, cls, obj):
        self.cls = cls
        self.obj = obj

    def getattr(self, interp, name):
        cls, obj = self.cls, self.obj
        if isinstance(cls, IClass):
            f = obj.cls.find(name, after=cls)
            if f is None:
                if name == "__init__":
                    return interp.models.Extern(lambda it, *a, **k: None)
                raise AttributeError("super has no " + name)
            return IMethod(f, obj)
        mro = type(obj).__mro__ if not isinstance(obj, type) else obj.__mro__
        i = mro.index(cls)
        for c in mro[i + 1:]:
            if name in c.__dict__:
                a = c.__dict__[name]
                if isinstance(a, (staticmethod, classmethod)):
                    a = a.__func__
                if inspect.isfunction(a):
                    f = interp.prog.ifunc_of(a, c)
                    if f is not None:
                        return IMethod(f, obj)
                # native (object.__init__ ...)
                return interp.models.Extern(lambda it, *args, _a=a, **kw: interp.models.call_native(it, _a, [obj] + list(args), kw))
        raise AttributeError("super has no " + name)


class InterpException(Exception):
    """An exception object of an interpreted class raised in fork mode."""

    def __init__(self, obj):
        super().__init__(repr(obj))
        self.obj = obj
