"""E2 runner: CrossHair 0.0.110 in library mode on harness functions that drive the real glue classes.

A harness module lists CONDITIONS = [{"name":..., "fn": "<function name>", "param": {...}, "timeout": s}, ...].
Each function carries PEP 316 conditions in its docstring (pre:/post:).  run_condition() analyses one
function with a fixed per-condition timeout and maps CrossHair's verdict:

  CONFIRMED ("Confirmed over all paths")      -> holds      (exhaustive over the symbolic inputs)
  POST_FAIL / POST_ERR / EXEC_ERR              -> violation  (counterexample call parsed and replayed natively)
  CANNOT_CONFIRM / PRE_UNSAT / anything else   -> inconclusive
A reachability twin (same body and preconditions, postcondition False) must be refuted, otherwise the
condition is vacuous -> inconclusive.
"""
import collections
import importlib
import inspect
import os
import re
import sys
import textwrap
import time
import traceback

VERIF = os.path.dirname(os.path.dirname(os.path.abspath(__file__)))


def _crosshair():
    # import order matters: cutadapt's dependencies first (see DESIGN section 6)
    import dnaio  # noqa
    import xopen  # noqa
    import cutadapt.cli  # noqa
    from crosshair.core_and_libs import analyze_function, run_checkables
    from crosshair.options import AnalysisOptionSet, DEFAULT_OPTIONS, AnalysisKind
    from crosshair.statespace import MessageType
    return analyze_function, run_checkables, AnalysisOptionSet, DEFAULT_OPTIONS, AnalysisKind, MessageType


def analyse(fn, timeout_s):
    analyze_function, run_checkables, AnalysisOptionSet, DEFAULT_OPTIONS, AnalysisKind, MessageType = _crosshair()
    opts = DEFAULT_OPTIONS.overlay(AnalysisOptionSet(per_condition_timeout=float(timeout_s), report_all=True, analysis_kind=[AnalysisKind.PEP316]))
    opts.stats = collections.Counter()
    t0 = time.time()
    msgs = list(run_checkables(analyze_function(fn, opts)))
    return msgs, dict(opts.stats), time.time() - t0, MessageType


_CALL_RE = re.compile(r"when calling (.*?)(?: \(which |$)", re.S)


def parse_call(message):
    m = _CALL_RE.search(message)
    return m.group(1).strip() if m else None


def posts_of(fn):
    out = []
    for line in (fn.__doc__ or "").splitlines():
        line = line.strip()
        if line.startswith("post:"):
            out.append(line[5:].strip())
    return out


def pres_of(fn):
    out = []
    for line in (fn.__doc__ or "").splitlines():
        line = line.strip()
        if line.startswith("pre:"):
            out.append(line[4:].strip())
    return out


def native_check(mod, fn, call_src):
    """Re-run a counterexample call natively (real classes, same stubs) and evaluate the postconditions.
    -> (violated: bool, detail)"""
    g = dict(vars(mod))
    name = fn.__name__
    m = re.match(r"\s*%s\((.*)\)\s*$" % re.escape(name), call_src, re.S)
    if not m:
        return False, "cannot parse counterexample call %r" % call_src
    try:
        args, kwargs = eval("(lambda *a, **k: (a, k))(%s)" % m.group(1), g)
    except Exception as e:  # noqa
        return False, "cannot evaluate counterexample arguments %r: %r" % (call_src, e)
    sig = inspect.signature(fn)
    try:
        bound = sig.bind(*args, **kwargs)
    except TypeError as e:
        return False, "bad arguments: %r" % (e,)
    bound.apply_defaults()
    env = dict(bound.arguments)
    for p in pres_of(fn):
        try:
            if not eval(p, g, dict(env)):
                return False, "counterexample does not satisfy precondition %r" % p
        except Exception as e:  # noqa
            return False, "precondition %r raised %r" % (p, e)
    try:
        ret = fn(*args, **kwargs)
    except Exception as e:  # noqa
        declared = [l.strip()[7:].strip() for l in (fn.__doc__ or "").splitlines() if l.strip().startswith("raises:")]
        names = [x.strip() for d in declared for x in d.split(",")]
        if type(e).__name__ in names:
            return False, "raises declared %s" % type(e).__name__
        return True, "%s raises %s: %s" % (call_src, type(e).__name__, e)
    env["_"] = ret
    env["__return__"] = ret
    for p in posts_of(fn):
        try:
            ok = eval(p, g, dict(env))
        except Exception as e:  # noqa
            return True, "postcondition %r raised %r on %s" % (p, e, call_src)
        if not ok:
            return True, "%s returns %r, violating post: %s" % (call_src, ret, p)
    return False, "%s returns %r and satisfies every postcondition natively" % (call_src, ret)


_twin_dir = os.path.join(VERIF, ".cache", "twins")


def make_twin(mod, fn):
    """Same function with every postcondition replaced by False, in an importable module (CrossHair needs source)."""
    src = textwrap.dedent(inspect.getsource(fn))
    src = re.sub(r"^def\s+%s\b" % re.escape(fn.__name__), "def %s__reach" % fn.__name__, src, count=1, flags=re.M)
    lines = []
    done = False
    for line in src.splitlines():
        if line.strip().startswith("post:"):
            if not done:
                lines.append(re.sub(r"post:.*", "post: False", line))
                done = True
            continue
        lines.append(line)
    os.makedirs(_twin_dir, exist_ok=True)
    modname = "twin_%s_%s_%d" % (mod.__name__.replace(".", "_"), fn.__name__, os.getpid())
    path = os.path.join(_twin_dir, modname + ".py")
    with open(path, "w") as f:
        f.write("from %s import *\nfrom %s import %s\n" % (mod.__name__, mod.__name__, ", ".join(k for k in vars(mod) if k.startswith("_") and not k.startswith("__")) or "__name__"))
        f.write("import %s as _src\nglobals().update({k: v for k, v in vars(_src).items() if not k.startswith('__')})\n\n" % mod.__name__)
        f.write("\n".join(lines) + "\n")
    if _twin_dir not in sys.path:
        sys.path.insert(0, _twin_dir)
    importlib.invalidate_caches()
    tm = importlib.import_module(modname)
    return getattr(tm, fn.__name__ + "__reach")


def run_condition(modname, cond):
    """-> job result dict in the driver's format."""
    mod = importlib.import_module(modname)
    name = cond["name"]
    fn = getattr(mod, cond["fn"])
    if "param" in cond and hasattr(mod, "set_param"):
        mod.set_param(cond["param"])
    timeout = cond.get("timeout", 60)
    res = {"name": name, "obligations": 1, "discharged": 0, "violated": 0, "queries": 0, "solver_s": 0.0, "max_query_s": 0.0, "paths": 0,
           "nontrivial": 0, "vacuity": None, "sample": {"condition": cond["fn"], "param": cond.get("param"), "pre": pres_of(fn), "post": posts_of(fn)}, "extra": {}}
    try:
        msgs, stats, dt, MT = analyse(fn, timeout)
    except BaseException as e:  # noqa
        res.update(verdict="error", detail="CrossHair crashed: %s: %s\n%s" % (type(e).__name__, e, traceback.format_exc()[-1200:]))
        return res
    res["paths"] = int(stats.get("num_paths", 0))
    res["queries"] = int(stats.get("num_paths", 0))
    res["solver_s"] = round(dt, 2)
    res["extra"] = {"crosshair_stats": {k: int(v) for k, v in stats.items() if isinstance(v, (int, float))}}
    states = [m.state for m in msgs]
    fails = [m for m in msgs if m.state in (MT.POST_FAIL, MT.POST_ERR, MT.EXEC_ERR)]
    if fails:
        m = fails[0]
        call = parse_call(m.message)
        res.update(verdict="violation", violated=1, detail=m.message[:600],
                   cex={"condition": cond["fn"], "param": cond.get("param"), "call": call, "message": m.message[:1000], "harness": modname})
        return res
    if msgs and all(s == MT.CONFIRMED for s in states):
        # reachability twin
        if cond.get("twin", True):
            try:
                twin = make_twin(mod, fn)
                tmsgs, tstats, tdt, _ = analyse(twin, min(timeout, 30))
                reach = any(m.state in (MT.POST_FAIL,) for m in tmsgs)
            except BaseException as e:  # noqa
                reach = False
                res["extra"]["twin_error"] = "%s: %s" % (type(e).__name__, e)
            res["vacuity"] = reach
            res["solver_s"] = round(dt + (tdt if 'tdt' in dir() else 0), 2)
            if not reach:
                res.update(verdict="inconclusive", detail="vacuous: the reachability twin (post: False) was not refuted")
                return res
        res.update(verdict="holds", discharged=1, nontrivial=1 if res["paths"] > 1 else 0, detail="Confirmed over all paths (%d paths)" % res["paths"])
        return res
    res.update(verdict="inconclusive", detail="; ".join("%s: %s" % (m.state.name, m.message[:120]) for m in msgs) or "no verdict from CrossHair")
    return res


def replay_cex(cex):
    mod = importlib.import_module(cex["harness"])
    if cex.get("param") is not None and hasattr(mod, "set_param"):
        mod.set_param(cex["param"])
    fn = getattr(mod, cex["condition"])
    if not cex.get("call"):
        return False, "no counterexample call in CrossHair's message: " + cex.get("message", "")[:300]
    return native_check(mod, fn, cex["call"])
