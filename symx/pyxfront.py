"""Front end: Cython source (.pyx) -> Python ``ast`` with C declarations kept.

The same Cython parser that builds the real extension (the pinned Cython in /venv) parses the
file; the parse tree is lowered to a Python ``ast.Module`` that the symx interpreter executes.
C-level constructs are kept as conventions the interpreter understands:

* ``cdef int x = e``        -> ``x: 'int' = e``   (ast.AnnAssign, annotation = C type string)
* ``cdef int i, j``         -> ``i: 'int'`` ; ``j: 'int'``   (declared, indeterminate value)
* ``<T> e``                 -> ``__cast__('T', e)``
* ``sizeof(T)``             -> ``__sizeof__('T')``
* ``ctypedef struct S``     -> ``@__cstruct__ class S: f: 'int' ...``
* ``ctypedef B T``          -> ``__ctypedef__('T', 'B')``
* ``cdef class C``          -> ``@__cdef_class__ class C(...)``
* ``cdef T f(args)``        -> ``@__cfunc__('T') def f(args)``, arguments annotated with C types
* ``with nogil`` / ``with gil`` -> body inlined
* ``NULL``                  -> name ``NULL``
* cimports / extern blocks / ``property`` blocks are dropped (externals are modelled by name).
"""
import ast

from Cython.Compiler.TreeFragment import parse_from_strings
from Cython.Compiler import Nodes, ExprNodes


class FrontEndError(Exception):
    pass


def _loc(node, new):
    pos = getattr(node, "pos", None)
    line = pos[1] if pos else 1
    col = pos[2] if pos else 0
    for n in ast.walk(new) if isinstance(new, ast.AST) else []:
        if not hasattr(n, "lineno") or getattr(n, "lineno", None) is None:
            n.lineno = line
            n.col_offset = col
            n.end_lineno = line
            n.end_col_offset = col
    return new


def base_type_str(bt):
    """C type string for a *BaseTypeNode."""
    name = type(bt).__name__
    if name == "CSimpleBaseTypeNode":
        if bt.name is None:
            return None
        if bt.is_basic_c_type:
            n = bt.name
            if n == "int":
                if bt.longness == 1:
                    n = "long"
                elif bt.longness == 2:
                    n = "long long"
                elif bt.longness == -1:
                    n = "short"
            if bt.signed == 0 and n in ("int", "long", "long long", "short", "char"):
                n = "unsigned " + n
            return n
        return bt.name
    if name == "CQualifierTypeNode" or name == "CConstTypeNode":
        return base_type_str(bt.base_type)
    if name == "TemplatedTypeNode":
        inner = base_type_str(bt.base_type_node)
        dims = [str(int(a.value)) for a in bt.positional_args]
        return inner + "".join("[%s]" % d for d in dims)
    if name == "CConstOrVolatileTypeNode":
        return base_type_str(bt.base_type)
    raise FrontEndError("unsupported base type node " + name)


def declarator_name_type(base, decl):
    """-> (name, ctype string, default expr node or None)"""
    t = base
    d = decl
    while True:
        n = type(d).__name__
        if n == "CPtrDeclaratorNode":
            t = t + "*"
            d = d.base
        elif n == "CArrayDeclaratorNode":
            dim = d.dimension
            t = t + "[%s]" % (int(dim.value) if dim is not None else "")
            d = d.base
        elif n == "CNameDeclaratorNode":
            return d.name, t, getattr(d, "default", None)
        elif n == "CFuncDeclaratorNode":
            return declarator_name_type(base, d.base)
        else:
            raise FrontEndError("unsupported declarator " + n)


class Lower:
    def __init__(self, modname):
        self.modname = modname

    # ---- statements -------------------------------------------------------------------
    def stmts(self, node):
        """Lower a statement node to a list of ast statements."""
        if node is None:
            return []
        m = getattr(self, "s_" + type(node).__name__, None)
        if m is None:
            raise FrontEndError("unsupported statement node %s at %s" % (type(node).__name__, node.pos[1:]))
        res = m(node)
        if isinstance(res, ast.AST):
            res = [res]
        return [_loc(node, r) for r in res]

    def body(self, node):
        b = self.stmts(node)
        return b or [_loc(node, ast.Pass())]

    def s_StatListNode(self, n):
        out = []
        for s in n.stats:
            out.extend(self.stmts(s))
        return out

    def s_PassStatNode(self, n):
        return ast.Pass()

    def s_ExprStatNode(self, n):
        return ast.Expr(self.expr(n.expr))

    def s_FromCImportStatNode(self, n):
        return []

    def s_CImportStatNode(self, n):
        return []

    def s_CDefExternNode(self, n):
        return []

    def s_PropertyNode(self, n):
        return []

    def s_FromImportStatNode(self, n):
        mod = n.module
        modname = mod.module_name.value
        level = mod.level if mod.level is not None else 0
        if level is None or level < 0:
            level = 0
        names = []
        for name, target in n.items:
            names.append(ast.alias(name=name, asname=target.name if target.name != name else None))
        return ast.ImportFrom(module=modname or None, names=names, level=level)

    def s_SingleAssignmentNode(self, n):
        rhs = n.rhs
        if type(rhs).__name__ == "ImportNode":
            # "import x" statements
            name = rhs.module_name.value
            return ast.Import(names=[ast.alias(name=name, asname=None)])
        return ast.Assign(targets=[self.target(n.lhs)], value=self.expr(rhs))

    def s_CascadedAssignmentNode(self, n):
        return ast.Assign(targets=[self.target(t) for t in n.lhs_list], value=self.expr(n.rhs))

    def s_InPlaceAssignmentNode(self, n):
        return ast.AugAssign(target=self.target(n.lhs), op=self.binop(n.operator), value=self.expr(n.rhs))

    def s_CVarDefNode(self, n):
        base = base_type_str(n.base_type)
        out = []
        for d in n.declarators:
            name, ctype, default = declarator_name_type(base, d)
            ann = ast.Constant(ctype)
            vis = getattr(n, "visibility", "private")
            node = ast.AnnAssign(
                target=ast.Name(id=name, ctx=ast.Store()),
                annotation=ann,
                value=self.expr(default) if default is not None else None,
                simple=1,
            )
            node.c_visibility = vis
            out.append(node)
        return out

    def s_CTypeDefNode(self, n):
        base = base_type_str(n.base_type)
        name, ctype, _ = declarator_name_type(base, n.declarator)
        return ast.Expr(
            ast.Call(func=ast.Name(id="__ctypedef__", ctx=ast.Load()), args=[ast.Constant(name), ast.Constant(ctype)], keywords=[])
        )

    def s_CStructOrUnionDefNode(self, n):
        body = []
        for a in n.attributes or []:
            body.extend(self.stmts(a))
        return ast.ClassDef(
            name=n.name, bases=[], keywords=[], body=body or [ast.Pass()],
            decorator_list=[ast.Name(id="__cstruct__", ctx=ast.Load())], type_params=[],
        )

    def s_CClassDefNode(self, n):
        bases = []
        if getattr(n, "bases", None) is not None and n.bases.args:
            bases = [self.expr(b) for b in n.bases.args]
        elif getattr(n, "base_class_name", None):
            bases = [ast.Name(id=n.base_class_name, ctx=ast.Load())]
        return ast.ClassDef(
            name=n.class_name, bases=bases, keywords=[], body=self.body(n.body),
            decorator_list=[ast.Name(id="__cdef_class__", ctx=ast.Load())], type_params=[],
        )

    def s_PyClassDefNode(self, n):
        bases = [self.expr(b) for b in n.bases.args] if getattr(n, "bases", None) is not None and hasattr(n.bases, "args") else []
        return ast.ClassDef(name=n.name, bases=bases, keywords=[], body=self.body(n.body), decorator_list=[], type_params=[])

    def _args(self, args, star_arg=None, starstar_arg=None):
        a_args, defaults = [], []
        for a in args:
            base = base_type_str(a.base_type)
            if base is None:
                name, ctype, _ = declarator_name_type("object", a.declarator)
                ann = None
                if ctype != "object":
                    ann = ast.Constant(ctype)
            else:
                name, ctype, _ = declarator_name_type(base, a.declarator)
                if name == "" or name is None:
                    # "def f(self, int)" style is not used; a bare name without type is parsed as a type
                    name, ctype = base, "object"
                    ann = None
                else:
                    ann = ast.Constant(ctype)
            a_args.append(ast.arg(arg=name, annotation=ann))
            if a.default is not None:
                defaults.append(self.expr(a.default))
            elif defaults:
                raise FrontEndError("non-default argument after default")
        return ast.arguments(
            posonlyargs=[], args=a_args,
            vararg=ast.arg(arg=star_arg.name) if star_arg is not None else None,
            kwonlyargs=[], kw_defaults=[],
            kwarg=ast.arg(arg=starstar_arg.name) if starstar_arg is not None else None,
            defaults=defaults,
        )

    def s_DefNode(self, n):
        decos = []
        for d in n.decorators or []:
            decos.append(self.expr(d.decorator))
        return ast.FunctionDef(
            name=n.name, args=self._args(n.args, n.star_arg, n.starstar_arg), body=self.body(n.body),
            decorator_list=decos, returns=None, type_params=[],
        )

    def s_CFuncDefNode(self, n):
        base = base_type_str(n.base_type)
        d = n.declarator
        rtype = base
        while type(d).__name__ == "CPtrDeclaratorNode":
            rtype += "*"
            d = d.base
        if type(d).__name__ != "CFuncDeclaratorNode":
            raise FrontEndError("unsupported cdef function declarator")
        name = d.base.name
        return ast.FunctionDef(
            name=name, args=self._args(d.args), body=self.body(n.body),
            decorator_list=[ast.Call(func=ast.Name(id="__cfunc__", ctx=ast.Load()), args=[ast.Constant(rtype)], keywords=[])],
            returns=None, type_params=[],
        )

    def s_GILStatNode(self, n):
        return self.stmts(n.body)

    def s_IfStatNode(self, n):
        clauses = n.if_clauses
        orelse = self.stmts(n.else_clause) if n.else_clause is not None else []
        node = None
        for c in reversed(clauses):
            node = ast.If(test=self.expr(c.condition), body=self.body(c.body), orelse=orelse)
            _loc(c, node)
            orelse = [node]
        return node

    def s_WhileStatNode(self, n):
        return ast.While(test=self.expr(n.condition), body=self.body(n.body),
                         orelse=self.stmts(n.else_clause) if n.else_clause is not None else [])

    def s_ForInStatNode(self, n):
        return ast.For(target=self.target(n.target), iter=self.expr(n.iterator.sequence), body=self.body(n.body),
                       orelse=self.stmts(n.else_clause) if n.else_clause is not None else [])

    def s_BreakStatNode(self, n):
        return ast.Break()

    def s_ContinueStatNode(self, n):
        return ast.Continue()

    def s_ReturnStatNode(self, n):
        return ast.Return(value=self.expr(n.value) if n.value is not None else None)

    def s_RaiseStatNode(self, n):
        return ast.Raise(exc=self.expr(n.exc_type) if n.exc_type is not None else None, cause=None)

    def s_AssertStatNode(self, n):
        cond = getattr(n, "condition", None)
        if cond is None:
            cond = n.cond
        val = getattr(n, "value", None)
        return ast.Assert(test=self.expr(cond), msg=self.expr(val) if val is not None else None)

    # ---- expressions -------------------------------------------------------------------
    def target(self, n):
        e = self.expr(n)
        for x in ast.walk(e):
            if isinstance(x, (ast.Name, ast.Attribute, ast.Subscript, ast.Tuple, ast.List, ast.Starred)):
                pass
        self._set_store(e)
        return e

    def _set_store(self, e):
        if isinstance(e, (ast.Name, ast.Attribute, ast.Subscript, ast.Starred)):
            e.ctx = ast.Store()
            if isinstance(e, ast.Starred):
                self._set_store(e.value)
        elif isinstance(e, (ast.Tuple, ast.List)):
            e.ctx = ast.Store()
            for x in e.elts:
                self._set_store(x)

    def expr(self, n):
        m = getattr(self, "e_" + type(n).__name__, None)
        if m is None:
            raise FrontEndError("unsupported expression node %s at %s" % (type(n).__name__, getattr(n, "pos", (0, 0, 0))[1:]))
        return _loc(n, m(n))

    def e_NameNode(self, n):
        return ast.Name(id=n.name, ctx=ast.Load())

    def e_IntNode(self, n):
        v = n.value
        try:
            iv = int(v, 0)
        except ValueError:
            iv = int(v)
        c = ast.Constant(iv)
        if n.unsigned or n.longness:
            ctype = ("unsigned " if n.unsigned else "") + {"": "int", "L": "long", "LL": "long long"}[n.longness]
            return ast.Call(func=ast.Name(id="__cast__", ctx=ast.Load()), args=[ast.Constant(ctype), c], keywords=[])
        return c

    def e_FloatNode(self, n):
        return ast.Constant(float(n.value))

    def e_BoolNode(self, n):
        return ast.Constant(bool(n.value))

    def e_NoneNode(self, n):
        return ast.Constant(None)

    def e_NullNode(self, n):
        return ast.Name(id="NULL", ctx=ast.Load())

    def e_UnicodeNode(self, n):
        return ast.Constant(str(n.value))

    e_IdentifierStringNode = e_UnicodeNode

    def e_BytesNode(self, n):
        v = n.value
        if isinstance(v, str):
            v = v.encode("latin-1")
        return ast.Constant(bytes(v))

    def e_JoinedStrNode(self, n):
        return ast.JoinedStr(values=[self.expr(v) for v in n.values])

    def e_FormattedValueNode(self, n):
        conv = ord(n.conversion_char) if n.conversion_char else -1
        return ast.FormattedValue(value=self.expr(n.value), conversion=conv,
                                  format_spec=self.expr(n.format_spec) if n.format_spec is not None else None)

    def e_AttributeNode(self, n):
        return ast.Attribute(value=self.expr(n.obj), attr=n.attribute, ctx=ast.Load())

    def e_IndexNode(self, n):
        return ast.Subscript(value=self.expr(n.base), slice=self.expr(n.index), ctx=ast.Load())

    def e_SliceIndexNode(self, n):
        return ast.Subscript(
            value=self.expr(n.base),
            slice=ast.Slice(lower=self.expr(n.start) if n.start is not None else None,
                            upper=self.expr(n.stop) if n.stop is not None else None, step=None),
            ctx=ast.Load())

    def e_SliceNode(self, n):
        def opt(x):
            return None if type(x).__name__ == "NoneNode" else self.expr(x)
        return ast.Slice(lower=opt(n.start), upper=opt(n.stop), step=opt(n.step))

    def e_TupleNode(self, n):
        return ast.Tuple(elts=[self.expr(a) for a in n.args], ctx=ast.Load())

    def e_ListNode(self, n):
        return ast.List(elts=[self.expr(a) for a in n.args], ctx=ast.Load())

    def e_DictNode(self, n):
        return ast.Dict(keys=[self.expr(kv.key) for kv in n.key_value_pairs],
                        values=[self.expr(kv.value) for kv in n.key_value_pairs])

    def e_SimpleCallNode(self, n):
        f = n.function
        if type(f).__name__ == "NameNode" and f.name == "sizeof" and len(n.args) == 1:
            return self._sizeof_of(n.args[0])
        return ast.Call(func=self.expr(f), args=[self.expr(a) for a in n.args], keywords=[])

    def e_GeneralCallNode(self, n):
        args = [self.expr(a) for a in n.positional_args.args] if hasattr(n.positional_args, "args") else [ast.Starred(self.expr(n.positional_args), ast.Load())]
        kws = []
        if n.keyword_args is not None:
            if type(n.keyword_args).__name__ == "DictNode":
                for kv in n.keyword_args.key_value_pairs:
                    kws.append(ast.keyword(arg=str(kv.key.value), value=self.expr(kv.value)))
            else:
                kws.append(ast.keyword(arg=None, value=self.expr(n.keyword_args)))
        return ast.Call(func=self.expr(n.function), args=args, keywords=kws)

    def _sizeof_of(self, operand):
        if type(operand).__name__ == "NameNode":
            return ast.Call(func=ast.Name(id="__sizeof__", ctx=ast.Load()), args=[ast.Constant(operand.name)], keywords=[])
        raise FrontEndError("sizeof of a non-name expression")

    def e_SizeofVarNode(self, n):
        return self._sizeof_of(n.operand)

    def e_SizeofTypeNode(self, n):
        base = base_type_str(n.base_type)
        _, ctype, _ = declarator_name_type(base, n.declarator)
        return ast.Call(func=ast.Name(id="__sizeof__", ctx=ast.Load()), args=[ast.Constant(ctype)], keywords=[])

    def e_TypecastNode(self, n):
        base = base_type_str(n.base_type)
        _, ctype, _ = declarator_name_type(base, n.declarator)
        return ast.Call(func=ast.Name(id="__cast__", ctx=ast.Load()), args=[ast.Constant(ctype), self.expr(n.operand)], keywords=[])

    _BIN = {"+": ast.Add, "-": ast.Sub, "*": ast.Mult, "/": ast.Div, "//": ast.FloorDiv, "%": ast.Mod, "**": ast.Pow,
            "<<": ast.LShift, ">>": ast.RShift, "&": ast.BitAnd, "|": ast.BitOr, "^": ast.BitXor, "@": ast.MatMult}

    def binop(self, op):
        return self._BIN[op]()

    def _binop(self, n):
        return ast.BinOp(left=self.expr(n.operand1), op=self.binop(n.operator), right=self.expr(n.operand2))

    e_AddNode = e_SubNode = e_MulNode = e_DivNode = e_ModNode = e_IntBinopNode = e_PowNode = e_BitwiseOrNode = _binop

    def e_BoolBinopNode(self, n):
        op = ast.And() if n.operator == "and" else ast.Or()
        l, r = self.expr(n.operand1), self.expr(n.operand2)
        return ast.BoolOp(op=op, values=[l, r])

    def e_NotNode(self, n):
        return ast.UnaryOp(op=ast.Not(), operand=self.expr(n.operand))

    def e_UnaryMinusNode(self, n):
        return ast.UnaryOp(op=ast.USub(), operand=self.expr(n.operand))

    def e_UnaryPlusNode(self, n):
        return ast.UnaryOp(op=ast.UAdd(), operand=self.expr(n.operand))

    def e_TildeNode(self, n):
        return ast.UnaryOp(op=ast.Invert(), operand=self.expr(n.operand))

    _CMP = {"==": ast.Eq, "!=": ast.NotEq, "<": ast.Lt, "<=": ast.LtE, ">": ast.Gt, ">=": ast.GtE,
            "is": ast.Is, "is_not": ast.IsNot, "in": ast.In, "not_in": ast.NotIn, "is not": ast.IsNot, "not in": ast.NotIn}

    def e_PrimaryCmpNode(self, n):
        ops = [self._CMP[n.operator]()]
        comps = [self.expr(n.operand2)]
        c = n.cascade
        while c is not None:
            ops.append(self._CMP[c.operator]())
            comps.append(self.expr(c.operand2))
            c = c.cascade
        return ast.Compare(left=self.expr(n.operand1), ops=ops, comparators=comps)

    def e_CondExprNode(self, n):
        return ast.IfExp(test=self.expr(n.test if hasattr(n, 'test') else n.condition), body=self.expr(n.true_val), orelse=self.expr(n.false_val))

    def e_YieldExprNode(self, n):
        return ast.Yield(value=self.expr(n.arg) if n.arg is not None else None)

    def _comp_loops(self, loop):
        """ForInStatNode nest of a comprehension -> ([ast.comprehension], innermost append node)"""
        gens = []
        node = loop
        while True:
            tn = type(node).__name__
            if tn == "ForInStatNode":
                gens.append(ast.comprehension(target=self.target(node.target), iter=self.expr(node.iterator.sequence), ifs=[], is_async=0))
                node = node.body
            elif tn == "IfStatNode":
                if len(node.if_clauses) != 1 or node.else_clause is not None:
                    raise FrontEndError("unsupported comprehension condition")
                gens[-1].ifs.append(self.expr(node.if_clauses[0].condition))
                node = node.if_clauses[0].body
            elif tn == "StatListNode" and len(node.stats) == 1:
                node = node.stats[0]
            elif tn == "ExprStatNode":
                node = node.expr
            else:
                return gens, node

    def e_ComprehensionNode(self, n):
        gens, app = self._comp_loops(n.loop)
        tn = type(app).__name__
        if tn == "ComprehensionAppendNode":
            elt = self.expr(app.expr)
            kind = type(n.type).__name__
            tname = str(n.type)
            if "Set" in tname:
                return ast.SetComp(elt=elt, generators=gens)
            return ast.ListComp(elt=elt, generators=gens)
        if tn == "DictComprehensionAppendNode":
            return ast.DictComp(key=self.expr(app.key_expr), value=self.expr(app.value_expr), generators=gens)
        raise FrontEndError("unsupported comprehension body " + tn)

    def e_GeneratorExpressionNode(self, n):
        loop = getattr(n, "loop", None)
        if loop is None:
            loop = n.def_node.gbody.body
        gens, y = self._comp_loops(loop)
        if type(y).__name__ == "YieldExprNode":
            return ast.GeneratorExp(elt=self.expr(y.arg), generators=gens)
        raise FrontEndError("unsupported generator expression body " + type(y).__name__)


def parse_pyx(source: str, modname: str) -> ast.Module:
    tree = parse_from_strings(modname, source)
    low = Lower(modname)
    body = low.stmts(tree.body)
    mod = ast.Module(body=body, type_ignores=[])
    ast.fix_missing_locations(mod)
    return mod


if __name__ == "__main__":
    import sys
    src = open(sys.argv[1]).read()
    print(ast.unparse(parse_pyx(src, "m")))
