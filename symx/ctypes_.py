"""C type table for the Cython kernels."""
from .values import Unsupported


class CType:
    __slots__ = ("kind", "name", "bits", "signed", "target", "length", "fields")

    def __init__(self, kind, name, bits=0, signed=True, target=None, length=None, fields=None):
        self.kind = kind  # 'int' | 'bool' | 'float' | 'ptr' | 'array' | 'struct' | 'object' | 'void'
        self.name = name
        self.bits = bits
        self.signed = signed
        self.target = target
        self.length = length
        self.fields = fields

    def __repr__(self):
        return "CType(%s)" % self.name

    @property
    def lo(self):
        return -(1 << (self.bits - 1)) if self.signed else 0

    @property
    def hi(self):
        return (1 << (self.bits - 1)) - 1 if self.signed else (1 << self.bits) - 1


_BASIC = {
    "char": ("int", 8, True),
    "signed char": ("int", 8, True),
    "unsigned char": ("int", 8, False),
    "short": ("int", 16, True),
    "unsigned short": ("int", 16, False),
    "int": ("int", 32, True),
    "unsigned int": ("int", 32, False),
    "long": ("int", 64, True),
    "unsigned long": ("int", 64, False),
    "long long": ("int", 64, True),
    "unsigned long long": ("int", 64, False),
    "size_t": ("int", 64, False),
    "ssize_t": ("int", 64, True),
    "Py_ssize_t": ("int", 64, True),
    "uint8_t": ("int", 8, False),
    "int8_t": ("int", 8, True),
    "uint16_t": ("int", 16, False),
    "uint32_t": ("int", 32, False),
    "int32_t": ("int", 32, True),
    "uint64_t": ("int", 64, False),
    "int64_t": ("int", 64, True),
    "Py_UCS4": ("int", 32, False),
}

_OBJECT = {"object", "str", "bytes", "list", "dict", "tuple", "set", "bytearray", "unicode"}

# unsigned types whose wrap-around is part of the algorithm: represented as bit-vectors
BV_TYPES = {"uint64_t", "unsigned long long", "unsigned long", "bitmask_t"}


class TypeTable:
    def __init__(self):
        self.typedefs = {}
        self.structs = {}

    def typedef(self, name, base):
        self.typedefs[name] = base

    def struct(self, name, fields):
        self.structs[name] = fields  # ordered dict name -> ctype string

    def parse(self, s):
        s = s.strip()
        if s.startswith("const "):
            s = s[6:].strip()
        if s.endswith("]"):
            i = s.rindex("[")
            n = s[i + 1:-1]
            return CType("array", s, target=self.parse(s[:i]), length=int(n) if n else None)
        if s.endswith("*"):
            return CType("ptr", s, bits=64, signed=False, target=self.parse(s[:-1]))
        if s in self.typedefs:
            t = self.parse(self.typedefs[s])
            t2 = CType(t.kind, s, t.bits, t.signed, t.target, t.length, t.fields)
            return t2
        if s in _BASIC:
            k, b, sg = _BASIC[s]
            return CType(k, s, b, sg)
        if s == "bint":
            return CType("bool", s, 32)
        if s in ("double", "float"):
            return CType("float", s, 64 if s == "double" else 32)
        if s == "void":
            return CType("void", s)
        if s in self.structs:
            return CType("struct", s, fields=self.structs[s])
        if s in _OBJECT:
            return CType("object", s)
        # extension types and unknown names are Python objects
        return CType("object", s)

    def is_bv(self, t):
        return t.kind == "int" and not t.signed and t.bits == 64 and (t.name in BV_TYPES or self.typedefs.get(t.name) in BV_TYPES)

    def sizeof(self, s):
        t = self.parse(s) if isinstance(s, str) else s
        if t.kind in ("int",):
            return t.bits // 8
        if t.kind == "bool":
            return 4
        if t.kind == "float":
            return t.bits // 8
        if t.kind == "ptr":
            return 8
        if t.kind == "struct":
            total = 0
            for f, ft in t.fields.items():
                sz = self.sizeof(ft)
                total = (total + sz - 1) // sz * sz + sz
            return (total + 7) // 8 * 8 if any(self.sizeof(ft) == 8 for ft in t.fields.values()) else total
        if t.kind == "array":
            return self.sizeof(t.target) * t.length
        raise Unsupported("sizeof " + t.name)
