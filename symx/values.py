"""Symbolic value layer of symx (z3 back end).

Python ``int`` and C signed integers -> z3 Int (SInt, with an interval used for loop bounds and to
discharge range obligations without the solver); C unsigned fixed-width values whose wrap-around is
intended -> z3 bit-vectors (SBV); Booleans -> SBool; bounded strings / bytes with concrete length
and symbolic characters -> SStr / SBytes; C structs, arrays and pointers -> Struct / CArr / Ptr;
values that cannot be merged into one term -> Union of guarded alternatives.
"""
import itertools
import math

import z3

_counter = itertools.count()

# Integer back end: 0 -> z3 Int (mathematical integers); W > 0 -> bit-vectors of W bits in which every
# term is kept inside [-2^(W-1), 2^(W-1)) by interval analysis (a term whose interval may leave that range
# is refused, so the bit-vector arithmetic never wraps and coincides with integer arithmetic).
import os as _os
INT_BITS = int(_os.environ.get("SYMX_INT_BITS", "0") or 0)


def ival(n):
    return z3.BitVecVal(int(n), INT_BITS) if INT_BITS else z3.IntVal(int(n))


def ivar(name):
    return z3.BitVec(name, INT_BITS) if INT_BITS else z3.Int(name)


def is_ival(e):
    return z3.is_bv_value(e) if INT_BITS else z3.is_int_value(e)


def ival_of(e):
    if INT_BITS:
        v = e.as_long()
        return v - (1 << INT_BITS) if v >= (1 << (INT_BITS - 1)) else v
    return e.as_long()


def isum(terms):
    terms = list(terms)
    if not terms:
        return ival(0)
    r = terms[0]
    for t in terms[1:]:
        r = r + t
    return r


def _chk(lo, hi, what="arithmetic"):
    if INT_BITS:
        lim = 1 << (INT_BITS - 1)
        if lo is None or hi is None or lo < -lim or hi >= lim:
            raise Unsupported("%s may leave the %d-bit integer range [%s, %s]" % (what, INT_BITS, lo, hi))


class Unsupported(BaseException):
    """The interpreter met a construct it has no model for (a harness error, never a verdict)."""


class Inconclusive(BaseException):
    """A bound was exhausted (e.g. an unwinding limit); the run must not be counted as a pass."""


# ----------------------------------------------------------------------------------- guards
class G:
    """A conjunction of z3 Boolean atoms.  G(()) is true; FALSE is the distinguished false guard."""

    __slots__ = ("atoms", "ids", "_e", "_neg_ids")

    def __init__(self, atoms=()):
        self.atoms = tuple(atoms)
        self.ids = frozenset(a.get_id() for a in self.atoms)
        self._e = None
        self._neg_ids = None

    @property
    def neg_ids(self):
        if self._neg_ids is None:
            self._neg_ids = frozenset(neg_id(a) for a in self.atoms)
        return self._neg_ids

    @property
    def e(self):
        if self._e is None:
            if not self.atoms:
                self._e = z3.BoolVal(True)
            elif len(self.atoms) == 1:
                self._e = self.atoms[0]
            else:
                self._e = z3.And(*self.atoms)
        return self._e

    def is_true(self):
        return self is not FALSE and not self.atoms

    def is_false(self):
        return self is FALSE

    def implies(self, other):
        """Syntactic: every atom of other is an atom of self."""
        if self is FALSE:
            return True
        if other is FALSE:
            return False
        return other.ids <= self.ids

    def contradicts(self, other):
        """Syntactic: some atom of other occurs negated in self."""
        if self is FALSE or other is FALSE:
            return True
        return not self.neg_ids.isdisjoint(other.ids)

    def __repr__(self):
        if self is FALSE:
            return "G(FALSE)"
        return "G(%s)" % ", ".join(str(a) for a in self.atoms)


class _False(G):
    def __init__(self):
        self.atoms = ()
        self.ids = frozenset()
        self._e = z3.BoolVal(False)
        self._neg_ids = frozenset()


FALSE = _False()
TRUE = G(())

_neg_cache = {}


def neg_id(a):
    """id of the negation of atom a (memoised; the negated term is kept alive by the cache)."""
    k = a.get_id()
    r = _neg_cache.get(k)
    if r is None:
        n = neg(a)
        r = (n.get_id(), n, a)
        _neg_cache[k] = r
    return r[0]


def neg(a):
    """Negation of a z3 Bool with double negation removed (hash-consed by z3)."""
    if z3.is_not(a):
        return a.arg(0)
    if z3.is_true(a):
        return z3.BoolVal(False)
    if z3.is_false(a):
        return z3.BoolVal(True)
    return z3.Not(a)


def _flatten_and(e, out):
    if z3.is_and(e):
        for c in e.children():
            _flatten_and(c, out)
    else:
        out.append(e)


def g_and(g, cond):
    """g AND cond, where cond is a python bool, z3 Bool, SBool or G."""
    if g is FALSE:
        return FALSE
    if isinstance(cond, G):
        if cond is FALSE:
            return FALSE
        if not cond.atoms:
            return g
        if not g.atoms:
            return cond
        atoms = list(g.atoms)
        ids = set(g.ids)
        for a in cond.atoms:
            if a.get_id() in ids:
                continue
            if neg(a).get_id() in ids:
                return FALSE
            atoms.append(a)
            ids.add(a.get_id())
        return G(atoms)
    if isinstance(cond, SBool):
        cond = cond.e
    if cond is True:
        return g
    if cond is False:
        return FALSE
    if z3.is_true(cond):
        return g
    if z3.is_false(cond):
        return FALSE
    parts = []
    _flatten_and(cond, parts)
    atoms = list(g.atoms)
    ids = set(g.ids)
    for a in parts:
        if z3.is_true(a):
            continue
        if z3.is_false(a):
            return FALSE
        if a.get_id() in ids:
            continue
        if neg(a).get_id() in ids:
            return FALSE
        atoms.append(a)
        ids.add(a.get_id())
    return G(atoms)


def g_or(gs):
    """Disjunction of guards with common atoms factored out."""
    gs = [g for g in gs if g is not FALSE]
    if not gs:
        return FALSE
    for g in gs:
        if not g.atoms:
            return TRUE
    if len(gs) == 1:
        return gs[0]
    # absorb: drop guards implied by a weaker one
    keep = []
    for i, g in enumerate(gs):
        absorbed = False
        for j, h in enumerate(gs):
            if i != j and h.ids <= g.ids and (h.ids != g.ids or j < i):
                absorbed = True
                break
        if not absorbed:
            keep.append(g)
    gs = keep
    if len(gs) == 1:
        return gs[0]
    common = set(gs[0].ids)
    for g in gs[1:]:
        common &= g.ids
    rests = []
    for g in gs:
        rest = [a for a in g.atoms if a.get_id() not in common]
        rests.append(rest)
    # complementary single atoms: (c) or (not c) == true
    if len(rests) == 2 and len(rests[0]) == 1 and len(rests[1]) == 1 and rests[0][0].get_id() == neg(rests[1][0]).get_id():
        return G([a for a in gs[0].atoms if a.get_id() in common])
    disj = z3.Or(*[z3.And(*r) if len(r) != 1 else r[0] for r in rests])
    disj = z3.simplify(disj) if len(rests) <= 4 else disj
    if z3.is_true(disj):
        return G([a for a in gs[0].atoms if a.get_id() in common])
    return G([a for a in gs[0].atoms if a.get_id() in common] + [disj])


def g_not_of(g):
    """z3 Bool for the negation of guard g."""
    if g is FALSE:
        return z3.BoolVal(True)
    if not g.atoms:
        return z3.BoolVal(False)
    return neg(g.e) if len(g.atoms) == 1 else z3.Not(g.e)


# ----------------------------------------------------------------------------------- scalars
class SBool:
    __slots__ = ("e",)

    def __init__(self, e):
        self.e = e

    def __bool__(self):
        raise Unsupported("truth value of a symbolic Boolean used natively: %s" % self.e)

    def __repr__(self):
        return "SBool(<%d>)" % self.e.get_id()


def mk_bool(e):
    """Normalise a z3 Bool / python bool to bool or SBool."""
    if isinstance(e, bool):
        return e
    if isinstance(e, SBool):
        return e
    if z3.is_true(e):
        return True
    if z3.is_false(e):
        return False
    return SBool(e)


def zb(x):
    """z3 Bool of bool / SBool."""
    if isinstance(x, bool):
        return z3.BoolVal(x)
    if isinstance(x, SBool):
        return x.e
    if isinstance(x, z3.BoolRef):
        return x
    raise Unsupported("not a Boolean: %r" % (x,))


class SInt:
    """Symbolic mathematical integer.  lo/hi: inclusive interval or None (unknown).
    ite: optional (guard G, then, else) record enabling guard-aware resolution.
    cases: optional list of (z3 Bool, int) - exhaustive, disjoint - for table-derived values.
    dom: optional frozenset of the only values the term can take."""

    __slots__ = ("e", "lo", "hi", "ite", "cases", "dom", "_bv")

    def __init__(self, e, lo=None, hi=None, ite=None, cases=None, dom=None):
        self.e = e
        self.lo = lo
        self.hi = hi
        self.ite = ite
        self.cases = cases
        self.dom = dom
        self._bv = {}

    def __repr__(self):
        return "SInt(<%d> in [%s,%s])" % (self.e.get_id(), self.lo, self.hi)

    def __bool__(self):
        raise Unsupported("truth value of a symbolic int used natively")

    def __index__(self):
        raise Unsupported("symbolic int used as a native index: %r" % self)

    def __hash__(self):
        return id(self)


def is_sym(v):
    return isinstance(v, (SInt, SBool, SBV, SFloatTab, SStr, SBytes, Union, SReal, SFP))


def zi(x):
    """z3 Int of int / bool / SInt."""
    if isinstance(x, SInt):
        return x.e
    if isinstance(x, bool):
        return ival(int(x))
    if isinstance(x, int):
        return ival(x)
    if isinstance(x, SBool):
        return z3.If(x.e, ival(1), ival(0))
    if isinstance(x, (z3.ArithRef, z3.BitVecRef)):
        return x
    raise Unsupported("not an integer: %r" % (x,))


def bounds(x):
    if isinstance(x, SInt):
        return x.lo, x.hi
    if isinstance(x, bool):
        return int(x), int(x)
    if isinstance(x, int):
        return x, x
    if isinstance(x, SBool):
        return 0, 1
    return None, None


def mk_int(e, lo=None, hi=None, **kw):
    if lo is not None and hi is not None and lo == hi:
        return lo
    if is_ival(e):
        return ival_of(e)
    _chk(lo, hi)
    return SInt(e, lo, hi, **kw)


def fresh_int(name, lo=None, hi=None):
    if INT_BITS and (lo is None or hi is None):
        lim = 1 << (INT_BITS - 2)
        lo, hi = (-lim if lo is None else lo), (lim - 1 if hi is None else hi)
    return SInt(ivar("%s!%d" % (name, next(_counter))), lo, hi)


def fresh_bool(name):
    return SBool(z3.Bool("%s!%d" % (name, next(_counter))))


def _add_b(a, b):
    return None if a is None or b is None else a + b


def int_add(a, b):
    if not isinstance(a, SInt) and not isinstance(b, SInt):
        return int(a) + int(b)
    (al, ah), (bl, bh) = bounds(a), bounds(b)
    if not isinstance(b, SInt) and int(b) == 0:
        return a
    if not isinstance(a, SInt) and int(a) == 0:
        return b
    return mk_int(zi(a) + zi(b), _add_b(al, bl), _add_b(ah, bh))


def int_neg(a):
    if not isinstance(a, SInt):
        return -int(a)
    return mk_int(-a.e, None if a.hi is None else -a.hi, None if a.lo is None else -a.lo)


def int_sub(a, b):
    if not isinstance(a, SInt) and not isinstance(b, SInt):
        return int(a) - int(b)
    if not isinstance(b, SInt) and int(b) == 0:
        return a
    (al, ah), (bl, bh) = bounds(a), bounds(b)
    return mk_int(zi(a) - zi(b), None if al is None or bh is None else al - bh, None if ah is None or bl is None else ah - bl)


def int_mul(a, b):
    if not isinstance(a, SInt) and not isinstance(b, SInt):
        return int(a) * int(b)
    if isinstance(a, SInt) and isinstance(b, SInt):
        (al, ah), (bl, bh) = bounds(a), bounds(b)
        lo = hi = None
        if None not in (al, ah, bl, bh):
            ps = [al * bl, al * bh, ah * bl, ah * bh]
            lo, hi = min(ps), max(ps)
        return mk_int(a.e * b.e, lo, hi)
    if isinstance(b, SInt):
        a, b = b, a
    c = int(b)
    if c == 0:
        return 0
    if c == 1:
        return a
    lo, hi = a.lo, a.hi
    if c > 0:
        lo2, hi2 = (None if lo is None else lo * c), (None if hi is None else hi * c)
    else:
        lo2, hi2 = (None if hi is None else hi * c), (None if lo is None else lo * c)
    return mk_int(a.e * c, lo2, hi2)


def int_floordiv(a, b):
    if not isinstance(a, SInt) and not isinstance(b, SInt):
        return int(a) // int(b)
    if isinstance(b, SInt):
        raise Unsupported("division by a symbolic integer")
    c = int(b)
    if c <= 0:
        raise Unsupported("floor division by a non-positive constant with symbolic dividend")
    # z3 div on Int is floor division for positive divisors; on bit-vectors it truncates (same for a >= 0)
    if INT_BITS and (a.lo is None or a.lo < 0):
        raise Unsupported("floor division of a possibly negative symbolic value in bit-vector mode")
    return mk_int(a.e / c, None if a.lo is None else a.lo // c, None if a.hi is None else a.hi // c)


def int_mod(a, b):
    if not isinstance(a, SInt) and not isinstance(b, SInt):
        return int(a) % int(b)
    if isinstance(b, SInt):
        raise Unsupported("modulo by a symbolic integer")
    c = int(b)
    if c <= 0:
        raise Unsupported("modulo by a non-positive constant with symbolic dividend")
    if INT_BITS and (a.lo is None or a.lo < 0):
        raise Unsupported("modulo of a possibly negative symbolic value in bit-vector mode")
    return mk_int((z3.URem(a.e, ival(c)) if INT_BITS else a.e % c), 0, c - 1)


def _mk_ite_record(g, a, b):
    return (g, a, b) if isinstance(g, G) else None


def int_ite(c, a, b, grec=None):
    """c: z3 Bool."""
    (al, ah), (bl, bh) = bounds(a), bounds(b)
    lo = None if al is None or bl is None else min(al, bl)
    hi = None if ah is None or bh is None else max(ah, bh)
    if not isinstance(a, SInt) and not isinstance(b, SInt) and int(a) == int(b):
        return int(a)
    if isinstance(a, SInt) and isinstance(b, SInt) and a.e.get_id() == b.e.get_id():
        return a
    r = mk_int(z3.If(c, zi(a), zi(b)), lo, hi)
    if isinstance(r, SInt) and grec is not None:
        r.ite = (grec, a, b)
    if isinstance(r, SInt):
        da = a.dom if isinstance(a, SInt) else (frozenset([int(a)]) if not isinstance(a, SBool) else None)
        db = b.dom if isinstance(b, SInt) else (frozenset([int(b)]) if not isinstance(b, SBool) else None)
        if da is not None and db is not None and len(da) + len(db) <= 64:
            r.dom = da | db
    return r


def int_min(a, b):
    if not isinstance(a, SInt) and not isinstance(b, SInt):
        return min(a, b)
    (al, ah), (bl, bh) = bounds(a), bounds(b)
    if ah is not None and bl is not None and ah <= bl:
        return a
    if bh is not None and al is not None and bh <= al:
        return b
    lo = None if al is None or bl is None else min(al, bl)
    hi = ah if bh is None else (bh if ah is None else min(ah, bh))
    return mk_int(z3.If(zi(a) <= zi(b), zi(a), zi(b)), lo, hi)


def int_max(a, b):
    if not isinstance(a, SInt) and not isinstance(b, SInt):
        return max(a, b)
    (al, ah), (bl, bh) = bounds(a), bounds(b)
    if al is not None and bh is not None and al >= bh:
        return a
    if bl is not None and ah is not None and bl >= ah:
        return b
    hi = None if ah is None or bh is None else max(ah, bh)
    lo = al if bl is None else (bl if al is None else max(al, bl))
    return mk_int(z3.If(zi(a) >= zi(b), zi(a), zi(b)), lo, hi)


def int_cmp(op, a, b):
    """op in '<','<=','>','>=','==','!='; returns bool or SBool.  Folds by intervals."""
    if not isinstance(a, (SInt, SBool)) and not isinstance(b, (SInt, SBool)):
        a, b = int(a), int(b)
        return {"<": a < b, "<=": a <= b, ">": a > b, ">=": a >= b, "==": a == b, "!=": a != b}[op]
    (al, ah), (bl, bh) = bounds(a), bounds(b)
    if op == "<":
        if ah is not None and bl is not None and ah < bl:
            return True
        if al is not None and bh is not None and al >= bh:
            return False
        return SBool(zi(a) < zi(b))
    if op == "<=":
        if ah is not None and bl is not None and ah <= bl:
            return True
        if al is not None and bh is not None and al > bh:
            return False
        return SBool(zi(a) <= zi(b))
    if op == ">":
        return int_cmp("<", b, a)
    if op == ">=":
        return int_cmp("<=", b, a)
    if op in ("==", "!="):
        res = None
        if (ah is not None and bl is not None and ah < bl) or (al is not None and bh is not None and al > bh):
            res = False
        else:
            da = a.dom if isinstance(a, SInt) else None
            db = b.dom if isinstance(b, SInt) else None
            if da is not None and not isinstance(b, (SInt, SBool)) and int(b) not in da:
                res = False
            elif db is not None and not isinstance(a, (SInt, SBool)) and int(a) not in db:
                res = False
            elif da is not None and db is not None and not (da & db):
                res = False
            elif isinstance(a, SInt) and isinstance(b, SInt) and a.e.get_id() == b.e.get_id():
                res = True
        if res is None:
            e = zi(a) == zi(b)
            return SBool(e if op == "==" else neg(e))
        return res if op == "==" else (not res)
    raise Unsupported("comparison " + op)


def in_ranges(x, values):
    """z3 Bool: Int term x is one of the (sorted) integer values; consecutive values become ranges."""
    vals = sorted(set(values))
    if not vals:
        return z3.BoolVal(False)
    runs = []
    s = p = vals[0]
    for v in vals[1:]:
        if v == p + 1:
            p = v
        else:
            runs.append((s, p))
            s = p = v
    runs.append((s, p))
    parts = []
    for a, b in runs:
        if a == b:
            parts.append(x == a)
        else:
            parts.append(z3.And(x >= a, x <= b))
    return parts[0] if len(parts) == 1 else z3.Or(*parts)


def to_bv(x, w):
    """z3 BitVec(w) for an int / SInt / SBV (value taken modulo 2**w)."""
    if isinstance(x, SBV):
        if x.w == w:
            return x.e
        if x.w > w:
            return z3.Extract(w - 1, 0, x.e)
        return z3.SignExt(w - x.w, x.e) if x.signed else z3.ZeroExt(w - x.w, x.e)
    if isinstance(x, SBool):
        return z3.If(x.e, z3.BitVecVal(1, w), z3.BitVecVal(0, w))
    if isinstance(x, SInt):
        if w in x._bv:
            return x._bv[w]
        if x.cases is not None:
            e = z3.BitVecVal(x.cases[-1][1] % (1 << w), w)
            for c, v in reversed(x.cases[:-1]):
                e = z3.If(c, z3.BitVecVal(v % (1 << w), w), e)
        elif x.dom is not None and len(x.dom) <= 40:
            vals = sorted(x.dom)
            e = z3.BitVecVal(vals[-1] % (1 << w), w)
            for v in reversed(vals[:-1]):
                e = z3.If(x.e == v, z3.BitVecVal(v % (1 << w), w), e)
        elif INT_BITS:
            e = x.e if w == INT_BITS else (z3.Extract(w - 1, 0, x.e) if w < INT_BITS else z3.SignExt(w - INT_BITS, x.e))
        else:
            e = z3.Int2BV(x.e, w)
        x._bv[w] = e
        return e
    return z3.BitVecVal(int(x) % (1 << w), w)


class SBV:
    """Fixed-width C integer as a z3 bit-vector (wrap-around semantics)."""

    __slots__ = ("e", "w", "signed")

    def __init__(self, e, w, signed=False):
        self.e = e
        self.w = w
        self.signed = signed

    def __repr__(self):
        return "SBV%d(<%d>)" % (self.w, self.e.get_id())

    def __bool__(self):
        raise Unsupported("truth value of a symbolic bit-vector used natively")


def mk_bv(e, w, signed=False):
    if z3.is_bv_value(e):
        v = e.as_long()
        if signed and v >= (1 << (w - 1)):
            v -= 1 << w
        return v
    return SBV(e, w, signed)


def bv_to_int(x):
    """SInt view of an SBV."""
    if INT_BITS:
        if x.w >= INT_BITS:
            raise Unsupported("conversion of a %d-bit vector to a %d-bit integer" % (x.w, INT_BITS))
        e = z3.SignExt(INT_BITS - x.w, x.e) if x.signed else z3.ZeroExt(INT_BITS - x.w, x.e)
        return SInt(e, -(1 << (x.w - 1)) if x.signed else 0, ((1 << (x.w - 1)) - 1) if x.signed else (1 << x.w) - 1)
    if x.signed:
        return SInt(z3.BV2Int(x.e, True), -(1 << (x.w - 1)), (1 << (x.w - 1)) - 1)
    return SInt(z3.BV2Int(x.e, False), 0, (1 << x.w) - 1)


class SFP:
    """IEEE-754 binary64 value (z3 FloatingPoint theory, round-to-nearest-even), with a float interval."""

    __slots__ = ("e", "lo", "hi")

    def __init__(self, e, lo=None, hi=None):
        self.e = e
        self.lo = lo
        self.hi = hi

    def __repr__(self):
        return "SFP(<%d> in [%s,%s])" % (self.e.get_id(), self.lo, self.hi)


FP64 = z3.Float64()
RNE = z3.RNE()


def zfp(x):
    """z3 Float64 of float / int / SInt / SFP."""
    if isinstance(x, SFP):
        return x.e
    if isinstance(x, bool):
        x = int(x)
    if isinstance(x, (int, float)):
        if isinstance(x, int) and abs(x) > (1 << 53):
            raise Unsupported("integer too large for exact double conversion")
        return z3.FPVal(float(x), FP64)
    if isinstance(x, SInt):
        if INT_BITS:
            return z3.fpSignedToFP(RNE, x.e, FP64)
        return z3.fpRealToFP(RNE, z3.ToReal(x.e), FP64)
    raise Unsupported("not a double: %r" % (x,))


def fp_bounds(x):
    if isinstance(x, SFP):
        return x.lo, x.hi
    if isinstance(x, (int, float)) and not isinstance(x, bool):
        return float(x), float(x)
    if isinstance(x, SInt):
        return (None if x.lo is None else float(x.lo)), (None if x.hi is None else float(x.hi))
    return None, None


def fp_binop(op, a, b):
    """op in '+','-','*','/' on doubles (RNE)."""
    x, y = zfp(a), zfp(b)
    e = {"+": z3.fpAdd, "-": z3.fpSub, "*": z3.fpMul, "/": z3.fpDiv}[op](RNE, x, y)
    (al, ah), (bl, bh) = fp_bounds(a), fp_bounds(b)
    lo = hi = None
    try:
        if None not in (al, ah, bl, bh):
            import math
            if op == "+":
                lo, hi = al + bl, ah + bh
            elif op == "-":
                lo, hi = al - bh, ah - bl
            elif op == "*":
                ps = [al * bl, al * bh, ah * bl, ah * bh]
                lo, hi = min(ps), max(ps)
            elif op == "/" and (bl > 0 or bh < 0):
                ps = [al / bl, al / bh, ah / bl, ah / bh]
                lo, hi = min(ps), max(ps)
            if lo is not None:   # outward rounding by one ulp keeps the interval sound
                lo, hi = math.nextafter(lo, -math.inf), math.nextafter(hi, math.inf)
    except (OverflowError, ZeroDivisionError):
        lo = hi = None
    return SFP(e, lo, hi)


def fp_trunc(x):
    """int(<double>): round toward zero.  The result interval comes from the float interval."""
    import math
    if x.lo is None or x.hi is None or not (-(2.0 ** 62) < x.lo and x.hi < 2.0 ** 62):
        raise Unsupported("int() of a double whose range is not known to fit 64 bits: %r" % (x,))
    bv = z3.fpToSBV(z3.RTZ(), x.e, z3.BitVecSort(64))
    if INT_BITS:
        e = z3.Extract(INT_BITS - 1, 0, bv) if INT_BITS < 64 else bv
    else:
        e = z3.BV2Int(bv, True)
    return mk_int(e, math.trunc(x.lo), math.trunc(x.hi))


def fp_cmp(op, a, b):
    x, y = zfp(a), zfp(b)
    e = {"<": z3.fpLT, "<=": z3.fpLEQ, ">": z3.fpGT, ">=": z3.fpGEQ, "==": z3.fpEQ, "!=": z3.fpNEQ}[op](x, y)
    return mk_bool(z3.simplify(e))


class SReal:
    """Exact real arithmetic stand-in for a double (used only where rounding is stated to be outside the claim)."""

    __slots__ = ("e",)

    def __init__(self, e):
        self.e = e

    def __repr__(self):
        return "SReal(<%d>)" % self.e.get_id()


def zr(x):
    if isinstance(x, SReal):
        return x.e
    if isinstance(x, float):
        from fractions import Fraction
        f = Fraction(x)
        return z3.RealVal("%d/%d" % (f.numerator, f.denominator))
    if isinstance(x, int):
        return z3.RealVal(x)
    raise Unsupported("not a real: %r" % (x,))


class RealTable:
    """A constant C array of doubles read with a symbolic index: an uninterpreted function with one axiom per entry."""

    def __init__(self, name, values):
        self.name = name
        self.values = list(values)
        self.fn = z3.Function("tab_" + name, z3.IntSort(), z3.RealSort())

    def axioms(self):
        return [self.fn(z3.IntVal(i)) == zr(v) for i, v in enumerate(self.values)]


class SFloatTab:
    """A double that is a function of a symbolic integer with a finite range: list of (z3 Bool, float),
    exhaustive and disjoint.  Produced by  <symbolic int> * <concrete double>."""

    __slots__ = ("entries",)

    def __init__(self, entries):
        self.entries = entries

    def __repr__(self):
        return "SFloatTab(%d entries)" % len(self.entries)


def float_tab_mul(i, f):
    """SInt * concrete float -> SFloatTab (IEEE double products computed natively)."""
    if i.lo is None or i.hi is None or i.hi - i.lo > 4096:
        raise Unsupported("float product with an integer of unbounded range")
    vals = sorted(i.dom) if i.dom is not None else range(i.lo, i.hi + 1)
    return SFloatTab([(i.e == v, float(v) * f) for v in vals])


def _group_entries(entries, key):
    groups = []
    for c, f in entries:
        k = key(f)
        if groups and groups[-1][0] == k:
            groups[-1][1].append(c)
        else:
            groups.append((k, [c]))
    return groups


def float_tab_cmp(op, a, b):
    """Compare int-like a with SFloatTab b (op applies as a op b). Exact: an int compared with a double."""
    if isinstance(a, SFloatTab) and not isinstance(b, SFloatTab):
        flip = {"<": ">", "<=": ">=", ">": "<", ">=": "<=", "==": "==", "!=": "!="}[op]
        return float_tab_cmp(flip, b, a)
    if isinstance(a, SFloatTab):
        raise Unsupported("comparison of two symbolic doubles")
    if isinstance(a, float):
        parts = []
        for c, f in b.entries:
            r = {"<": a < f, "<=": a <= f, ">": a > f, ">=": a >= f, "==": a == f, "!=": a != f}[op]
            if r:
                parts.append(c)
        return mk_bool(z3.Or(*parts) if parts else z3.BoolVal(False))
    # a integer-valued
    def thr(f):
        if op == "<=":
            return math.floor(f)      # a <= f  <=>  a <= floor(f)
        if op == "<":
            return math.ceil(f) - 1   # a <  f  <=>  a <= ceil(f)-1
        if op == ">=":
            return math.ceil(f)       # a >= f  <=>  a >= ceil(f)
        if op == ">":
            return math.floor(f) + 1
        raise Unsupported("equality between an int and a symbolic double")
    parts = []
    for t, conds in _group_entries(b.entries, thr):
        cond = conds[0] if len(conds) == 1 else z3.Or(*conds)
        if op in ("<=", "<"):
            r = int_cmp("<=", a, t)
        else:
            r = int_cmp(">=", a, t)
        if r is True:
            parts.append(cond)
        elif r is False:
            continue
        else:
            parts.append(z3.And(cond, r.e))
    if not parts:
        return False
    return mk_bool(z3.simplify(z3.Or(*parts)) if len(parts) < 3 else z3.Or(*parts))


def float_tab_trunc(t, fn=int):
    """int(<SFloatTab>) -> SInt  (fn = round for the built-in round() with one argument)"""
    groups = _group_entries(t.entries, lambda f: fn(f))
    vals = [k for k, _ in groups]
    e = ival(groups[-1][0])
    for k, conds in reversed(groups[:-1]):
        e = z3.If(conds[0] if len(conds) == 1 else z3.Or(*conds), ival(k), e)
    return mk_int(e, min(vals), max(vals), dom=frozenset(vals))


# ----------------------------------------------------------------------------------- strings
class SStr:
    """Bounded string: concrete length, characters are ints (code points) or SInt."""

    __slots__ = ("chars",)
    kind = "str"

    def __init__(self, chars):
        self.chars = tuple(chars)

    def __len__(self):
        return len(self.chars)

    def __repr__(self):
        return "SStr(%s)" % "".join(chr(c) if isinstance(c, int) else "?" for c in self.chars)

    def __hash__(self):
        return id(self)

    def is_concrete(self):
        return all(isinstance(c, int) for c in self.chars)

    def __getitem__(self, idx):
        if isinstance(idx, slice):
            return mk_str(self.chars[idx], self.kind)
        c = self.chars[idx]
        return mk_str([c], "str") if self.kind == "str" else c


class SBytes(SStr):
    """Bounded bytes object backed by a C array (so that PyBytes_AS_STRING can alias it)."""

    __slots__ = ("arr",)
    kind = "bytes"

    def __init__(self, chars=None, arr=None):
        if arr is None:
            arr = CArr(list(chars) + [0], "char")
        self.arr = arr

    @property
    def chars(self):
        return tuple(self.arr.elems[:-1])

    def __len__(self):
        return len(self.arr.elems) - 1

    def __repr__(self):
        return "SBytes(len=%d)" % len(self)


def mk_str(chars, kind="str"):
    chars = list(chars)
    if all(isinstance(c, int) and not isinstance(c, bool) for c in chars):
        if kind == "str":
            return "".join(chr(c) for c in chars)
        return bytes(chars)
    return SStr(chars) if kind == "str" else SBytes(chars)


def str_chars(s):
    if isinstance(s, str):
        return tuple(ord(c) for c in s)
    if isinstance(s, (bytes, bytearray)):
        return tuple(s)
    if isinstance(s, SStr):
        return s.chars
    raise Unsupported("not a string: %r" % (s,))


def str_kind(s):
    if isinstance(s, str):
        return "str"
    if isinstance(s, (bytes, bytearray)):
        return "bytes"
    return s.kind


def str_eq(a, b):
    """-> bool | SBool"""
    if str_kind(a) != str_kind(b):
        return False
    ca, cb = str_chars(a), str_chars(b)
    if len(ca) != len(cb):
        return False
    parts = []
    for x, y in zip(ca, cb):
        r = int_cmp("==", x, y)
        if r is False:
            return False
        if r is True:
            continue
        parts.append(r.e)
    if not parts:
        return True
    return SBool(parts[0] if len(parts) == 1 else z3.And(*parts))


# ----------------------------------------------------------------------------------- C memory
class Struct:
    __slots__ = ("stype", "fields")

    def __init__(self, stype, fields):
        self.stype = stype
        self.fields = fields

    def copy(self):
        return Struct(self.stype, dict(self.fields))

    def __repr__(self):
        return "Struct %s%r" % (self.stype, self.fields)


class Indeterminate:
    """Content of uninitialised C memory / an unassigned C local."""

    __slots__ = ("what",)

    def __init__(self, what=""):
        self.what = what

    def __repr__(self):
        return "<indeterminate %s>" % self.what


class CArr:
    __slots__ = ("elems", "ctype", "name")

    def __init__(self, elems, ctype, name=""):
        self.elems = elems
        self.ctype = ctype
        self.name = name

    def __repr__(self):
        return "CArr<%s>[%d]" % (self.ctype, len(self.elems))


class Ptr:
    __slots__ = ("arr", "off", "ctype")

    def __init__(self, arr, off=0, ctype=None):
        self.arr = arr
        self.off = off
        self.ctype = ctype or (arr.ctype if arr is not None else None)

    def __repr__(self):
        return "Ptr(%r+%r)" % (self.arr, self.off)


class RawMem:
    """Result of PyMem_Malloc/Realloc before it is cast to a typed pointer."""

    __slots__ = ("old", "nbytes")

    def __init__(self, old, nbytes):
        self.old = old
        self.nbytes = nbytes


NULL = Ptr(None, 0, "void")


# ----------------------------------------------------------------------------------- unions
class Union:
    """Guarded alternatives of values that cannot be merged into a single term.
    alts: list of (z3 Bool, value); the conditions are exhaustive and disjoint under the guard
    under which the union was built."""

    __slots__ = ("alts",)

    def __init__(self, alts):
        self.alts = alts

    def __repr__(self):
        return "Union(%s)" % ", ".join(type(v).__name__ for _, v in self.alts)


def same_concrete(a, b):
    if a is b:
        return True
    if is_sym(a) or is_sym(b):
        return False
    if type(a) is not type(b):
        return False
    if isinstance(a, (int, str, bytes, float, bool, type(None))):
        return a == b
    return False


def _intlike(v):
    return isinstance(v, (int, SInt)) and not isinstance(v, bool)


def merge(c, a, b, grec=None):
    """ite(c, a, b) for arbitrary values; c is a z3 Bool. grec: G of the store (for resolution)."""
    if same_concrete(a, b):
        return a
    if isinstance(a, Indeterminate):
        return b if not isinstance(b, Indeterminate) else a
    if isinstance(b, Indeterminate):
        return a
    if isinstance(a, bool) and isinstance(b, bool):
        return mk_bool(c if a else neg(c))
    if isinstance(a, (bool, SBool)) and isinstance(b, (bool, SBool)):
        return mk_bool(z3.If(c, zb(a), zb(b)))
    if _intlike(a) and _intlike(b) or (isinstance(a, (int, SInt, SBool)) and isinstance(b, (int, SInt, SBool))):
        return int_ite(c, a if not isinstance(a, SBool) else mk_int(zi(a), 0, 1), b if not isinstance(b, SBool) else mk_int(zi(b), 0, 1), grec)
    if isinstance(a, (SBV, int)) and isinstance(b, (SBV, int)) and (isinstance(a, SBV) or isinstance(b, SBV)):
        w = a.w if isinstance(a, SBV) else b.w
        sg = a.signed if isinstance(a, SBV) else b.signed
        return mk_bv(z3.If(c, to_bv(a, w), to_bv(b, w)), w, sg)
    if isinstance(a, Struct) and isinstance(b, Struct) and a.stype == b.stype:
        return Struct(a.stype, {k: merge(c, a.fields[k], b.fields[k], grec) for k in a.fields})
    if isinstance(a, tuple) and isinstance(b, tuple) and len(a) == len(b):
        return tuple(merge(c, x, y, grec) for x, y in zip(a, b))
    if isinstance(a, (str, SStr, bytes)) and isinstance(b, (str, SStr, bytes)) and str_kind(a) == str_kind(b) and len(a) == len(b):
        return mk_str([merge(c, x, y) for x, y in zip(str_chars(a), str_chars(b))], str_kind(a))
    if isinstance(a, Ptr) and isinstance(b, Ptr) and a.arr is b.arr:
        return Ptr(a.arr, merge(c, a.off, b.off, grec), a.ctype)
    if isinstance(a, SReal) or isinstance(b, SReal):
        if isinstance(a, (SReal, float)) and isinstance(b, (SReal, float)):
            return SReal(z3.If(c, zr(a), zr(b)))
    if isinstance(a, SFP) or isinstance(b, SFP):
        if isinstance(a, (SFP, float)) and isinstance(b, (SFP, float)):
            (al, ah), (bl, bh) = fp_bounds(a), fp_bounds(b)
            return SFP(z3.If(c, zfp(a), zfp(b)), None if None in (al, bl) else min(al, bl), None if None in (ah, bh) else max(ah, bh))
    if isinstance(a, float) and isinstance(b, float):
        return SFloatTab([(c, a), (neg(c), b)])
    # heterogeneous: union
    alts = []
    for cond, v in ((c, a), (neg(c), b)):
        if isinstance(v, Union):
            for c2, v2 in v.alts:
                alts.append((z3.And(cond, c2), v2))
        else:
            alts.append((cond, v))
    # coalesce identical alternatives
    out = []
    for cond, v in alts:
        for i, (c2, v2) in enumerate(out):
            if same_concrete(v, v2):
                out[i] = (z3.Or(c2, cond), v2)
                break
        else:
            out.append((cond, v))
    if len(out) == 1:
        return out[0][1]
    return Union(out)
