"""./check selftest [name...]: run the quick check of the property each seeded change (seeded/<name>) is meant to break
(or of the neighbouring property recorded as 'caught_by' in its meta.json),
against a scratch copy of the sources with that change applied (VERIF_SRC); every seeded change must be reported as a
replayed VIOLATION.  Not part of the registered commands (it takes the sum of the quick tiers)."""
import json
import os
import sys

VERIF = os.path.dirname(os.path.dirname(os.path.abspath(__file__)))


def main(names):
    sys.path.insert(0, VERIF)
    import tools_seeded
    seeded = os.path.join(VERIF, "seeded")
    names = names or sorted(d for d in os.listdir(seeded) if os.path.isdir(os.path.join(seeded, d)))
    missed = []
    for n in names:
        meta = json.load(open(os.path.join(seeded, n, "meta.json")))
        # the property whose check reports it (recorded after the run here; normally the property the change was made for)
        pid = meta.get("caught_by") or meta["property"]
        out = tools_seeded.check(n, [pid])
        if out[pid]["exit"] != 1:
            missed.append(n)
    print("selftest: %d seeded changes, %d not reported as violation: %s" % (len(names), len(missed), missed))
    return 1 if missed else 0
