import glob
import os
import sys

VERIF = os.path.dirname(os.path.dirname(os.path.abspath(__file__)))


def harness_module(pid):
    pid = pid.upper()
    c = glob.glob(os.path.join(VERIF, "harness", pid.lower() + "_*.py"))
    if not c:
        print("HARNESS-ERROR: no harness for %s" % pid)
        sys.exit(3)
    return "harness." + os.path.basename(c[0])[:-3]


def main(argv):
    sys.setrecursionlimit(10000)
    sys.path.insert(0, VERIF)
    from symx import driver
    if not argv:
        print(__doc__ or "usage: check <ID> [--tier quick|thorough] | replay <file> | selftest")
        return 3
    if argv[0] == "replay":
        return driver.main_replay(argv[1])
    if argv[0] == "selftest":
        from symx import selftest
        return selftest.main(argv[1:])
    pid = argv[0]
    tier = os.environ.get("VERIF_TIER", "quick")
    if "--tier" in argv:
        tier = argv[argv.index("--tier") + 1]
    seed = int(os.environ.get("VERIF_SEED", "0") or 0)
    return driver.main_check(harness_module(pid), tier, seed)


if __name__ == "__main__":
    sys.exit(main(sys.argv[1:]))
