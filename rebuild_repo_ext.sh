#!/bin/sh
# Rebuild /repo's in-place extension modules (ignored build output) from the current .pyx sources,
# so that the repository's own test suite exercises what is committed.  Offline.
set -e
cd /tmp
S=/repo/src/cutadapt
INC=$(/venv/bin/python -c "import sysconfig; print(sysconfig.get_paths()['include'])")
EXT=$(/venv/bin/python -c "import sysconfig; print(sysconfig.get_config_var('EXT_SUFFIX'))")
for m in "$@"; do
  /venv/bin/python -m cython -3 -o /tmp/$m.c $S/$m.pyx
  gcc -shared -fPIC -O2 -fwrapv -I "$INC" -I $S /tmp/$m.c -o $S/$m$EXT
  rm -f /tmp/$m.c
  echo rebuilt $m
done
