#!/bin/sh
# Build the overlay interpreter used by every check: /venv's packages (cutadapt's own
# dependencies, Cython) + z3-solver, crosshair-tool, cvc5 from the offline wheelhouse.
# Idempotent; offline.
set -e
cd "$(dirname "$0")"
V=.venv
if [ -x $V/bin/python ] && $V/bin/python -c "import z3, crosshair, Cython, dnaio, xopen" 2>/dev/null; then
    echo "overlay venv ok"; exit 0
fi
rm -rf $V
/venv/bin/python -m venv $V
SP=$($V/bin/python -c "import sysconfig; print(sysconfig.get_paths()['purelib'])")
printf '/venv/lib/python3.12/site-packages\n' > "$SP/base.pth"
PIP_NO_INDEX=1 $V/bin/pip install -q --no-index --find-links /opt/veriftools/wheels z3-solver crosshair-tool cvc5 jsonschema >/dev/null
$V/bin/python -c "import z3, crosshair, Cython, dnaio, xopen; print('overlay venv built: z3', z3.get_version_string())"
