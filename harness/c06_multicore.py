"""C06 - multi-core runs give the single-core result under every schedule (message level, bounded).

E2 (CrossHair on the real classes).  The REAL ``ParallelPipelineRunner.run`` main loop (with ``_try_receive``,
``OrderedChunkWriter``) is driven in-process; the worker side is the REAL ``WorkerProcess.run`` /
``_send_outfiles`` writing into REAL ``ProxyTextFile`` / ``ProxyRecordWriter`` objects obtained from a REAL
``OutputFiles(proxied=True)`` and copied to each worker by pickling (as the spawn start method does); the merged
report is the REAL ``Statistics.__iadd__`` chain (``ReadLengthStatistics``, ``EndStatistics``, the three
``AdapterStatistics.__iadd__``) fed by ``Statistics.collect`` over REAL modifier / step objects.

Nothing is started: processes, pipes, the need-work queue and ``multiprocessing.connection.wait`` are replaced
by the nondeterministic stub below whose contract is

  * every worker->main connection is FIFO,
  * ``wait`` returns an arbitrary non-empty subset of the connections that have pending messages,
  * every chunk index is handed to exactly one (arbitrary) worker; a worker gets its chunks in increasing
    index order, then the stop token, and therefore emits its chunk results in increasing index order followed
    by (-1, its statistics).

Symbolic inputs: the chunk->worker assignment, every scheduling choice, the per-chunk counters and histogram
keys.  The text that the pipeline writes per chunk is concrete (it passes through dnaio / io, compiled code).
"""
import pickle

from harness.e2_common import e2_jobs, e2_run_job, e2_replay

import dnaio
import multiprocessing as _real_mp
import cutadapt.runners as _runners
from cutadapt.runners import ParallelPipelineRunner, WorkerProcess, SerialPipelineRunner
from cutadapt.files import OutputFiles
from cutadapt.report import Statistics
from cutadapt.adapters import BackAdapter, FrontAdapter, AnywhereAdapter, LinkedAdapter
from cutadapt.modifiers import (AdapterCutter, QualityTrimmer, NextseqQualityTrimmer, PolyATrimmer, ReverseComplementer,
                                PairedEndModifierWrapper, PairedAdapterCutter, PairedReverseComplementer)
from cutadapt.steps import SingleEndSink, PairedEndSink, SingleEndFilter, PairedEndFilter
from cutadapt.predicates import TooShort

try:  # concrete-only set-up runs outside CrossHair's tracer (speed only; no symbolic value is involved in it)
    from crosshair.tracers import NoTracing, ResumedTracing, is_tracing
except Exception:  # pragma: no cover
    import contextlib

    def NoTracing():
        return contextlib.nullcontext()

    ResumedTracing = NoTracing

    def is_tracing():
        return False

PROPERTY = "C06"
ENGINE = "crosshair"

_PARAM = {}
_EXPECT = {}      # (shape, C) -> {path: bytes}: what a serial run writes into each output file


def set_param(p):
    _PARAM.clear()
    _PARAM.update(p or {})


# ------------------------------------------------------------------------------------------ the OS stand-in
class _ContractBreach(Exception):
    """the main process would block forever or reads a message of the wrong kind"""


class _Conn:
    """One worker->main pipe: FIFO of ('obj', x) / ('bytes', b) messages."""

    def __init__(self, ident):
        self.ident = ident
        self.q = []
        self.pos = 0

    # writing end (worker)
    def send(self, obj):
        self.q.append(("obj", obj))

    def send_bytes(self, data):
        self.q.append(("bytes", bytes(data)))

    # reading end (main)
    def pending(self):
        return self.pos < len(self.q)

    def _next(self, kind):
        if self.pos >= len(self.q):
            raise _ContractBreach("main process blocks forever: nothing more will arrive on connection %d" % self.ident)
        k, v = self.q[self.pos]
        self.pos += 1
        if k != kind:
            raise _ContractBreach("main process reads a %s message with the wrong receive call on connection %d" % (k, self.ident))
        return v

    def recv(self):
        return self._next("obj")

    def recv_bytes(self):
        return self._next("bytes")


class _ReadPipe:
    """reader->worker pipe: the chunk indices assigned to this worker in increasing order, then the stop token."""

    def __init__(self, chunk_indices, n_files):
        self.msgs = []
        for c in chunk_indices:
            self.msgs.append(c)
            self.msgs.extend([b"%d" % c] * n_files)
        self.msgs.append(-1)
        self.pos = 0

    def recv(self):
        v = self.msgs[self.pos]
        self.pos += 1
        return v

    recv_bytes = recv


class _Queue:
    def __init__(self):
        self.items = []

    def put(self, x):
        self.items.append(x)


class _Proc:
    def __init__(self):
        self.joined = 0

    def join(self):
        self.joined += 1


class _Progress:
    def __init__(self):
        self.total = 0
        self.closed = 0

    def update(self, n):
        self.total = self.total + n

    def close(self):
        self.closed += 1


def _subsets(n, multi):
    if not multi:
        return [[j] for j in range(n)]
    return [[j for j in range(n) if mask >> j & 1] for mask in range(1, 2 ** n)]


_SUBSETS = {(n, m): _subsets(n, m) for n in range(1, 5) for m in (False, True)}


class _Scheduler:
    """connection.wait().  mode 'subsets' / 'singletons': the k-th call returns the subset (resp. the single
    connection) of the ready connections selected by the k-th symbolic choice - choice s denotes subset number
    min(s, number of subsets - 1), so every choice is admissible and every subset is denoted -, optionally in
    reversed list order.  mode 'drain': a symbolic choice selects the next worker, whose messages are then
    delivered one group per call until it has finished (every arrival order of the workers' final statistics)."""

    def __init__(self, choices, mode, rev, resume):
        self.choices = choices
        self.mode = mode
        self.rev = rev
        self.resume = resume      # the caller runs untraced (everything concrete): trace only the choice itself
        self.k = 0
        self.current = None

    def _choose(self, n):
        if self.k >= len(self.choices):
            raise _ContractBreach("more wait() rounds than message groups: the main loop makes no progress")
        s = self.choices[self.k]
        self.k += 1
        if self.resume and _WAS_TRACING[0]:
            with ResumedTracing():
                return _conc(s, n - 1)
        return _conc(s, n - 1)

    def wait(self, connections):
        ready = [c for c in connections if c.pending()]
        if not ready:
            raise _ContractBreach("main process waits although no worker will send anything any more")
        if self.mode == "drain":
            if self.current is None or not any(c is self.current for c in ready):
                self.current = ready[self._choose(len(ready))]
            return [self.current]
        subsets = _SUBSETS[(len(ready), self.mode == "subsets")]
        out = [ready[j] for j in subsets[self._choose(len(subsets))]]
        if self.rev:
            out.reverse()
        return out


_WAS_TRACING = [False]
_SCHED = [None]


class _MPShim:
    """replaces the name ``multiprocessing`` inside cutadapt.runners only"""

    class connection:
        @staticmethod
        def wait(object_list, timeout=None):
            return _SCHED[0].wait(object_list)

    @staticmethod
    def active_children():
        return []

    def __getattr__(self, name):
        return getattr(_real_mp, name)


_runners.multiprocessing = _MPShim()


# ------------------------------------------------------------------------------------------ output files
class _Bin:
    """binary output file of the main process"""

    def __init__(self, path):
        self.path = path
        self.data = []

    def write(self, data):
        if not isinstance(data, bytes):
            raise _ContractBreach("non-bytes written to %s" % self.path)
        self.data.append(data)

    def close(self):
        pass


class _Opener:
    def __init__(self):
        self.opened = []

    def xopen(self, path, mode):
        f = _Bin(path)
        self.opened.append(f)
        return f


def _build_outfiles(shape):
    """shape: tuple of 'T' (text file: info/rest/wildcard), 'R' (single record file), 'P' (two record files),
    'I' (interleaved record file) in the order a pipeline opens them.  Uses the real OutputFiles methods."""
    opener = _Opener()
    of = OutputFiles(proxied=True, qualities=True, interleaved=False, file_opener=opener)
    writers = []
    for j, kind in enumerate(shape):
        if kind == "T":
            paths = ("t%d.txt" % j,)
            w = of.open_text(paths[0])
        elif kind == "R":
            paths = ("r%d.fastq" % j,)
            w = of.open_record_writer(paths[0])
        elif kind == "P":
            paths = ("p%d.1.fastq" % j, "p%d.2.fastq" % j)
            w = of.open_record_writer(*paths)
        else:
            paths = ("i%d.fastq" % j,)
            w = of.open_record_writer(paths[0], interleaved=True)
        writers.append((kind, w, paths))
    return of, opener, writers


def _mk_records():
    tab = {}
    for c in range(6):
        for j in range(4):
            k = (c + 2 * j) % 3         # 0, 1 or 2 records: empty payloads occur
            recs = []
            for i in range(k):
                n1 = 1 + (c + i + j) % 5
                n2 = 1 + (2 * c + i) % 4
                recs.append((dnaio.SequenceRecord("c%dw%dr%d" % (c, j, i), "ACGTN"[:n1], "ABCDE"[:n1]),
                             dnaio.SequenceRecord("c%dw%dr%d" % (c, j, i), "TTGCA"[:n2], "FGHIJ"[:n2])))
            tab[(c, j)] = recs
    return tab


_RECORDS = _mk_records()


def _write_chunk(writers, c):
    """what the pipeline of a worker (or of the serial run) writes for chunk c; concrete"""
    for j, (kind, w, _paths) in enumerate(writers):
        recs = _RECORDS[(c, j)]
        if kind == "T":
            for r1, _r2 in recs:
                w.write("%s\t%d\t%s\n" % (r1.name, len(r1), r1.sequence))
        elif kind == "R":
            for r1, _r2 in recs:
                w.write(r1)
        else:
            for r1, r2 in recs:
                w.write(r1, r2)


def _expected_files(shape, C):
    """Reference (the -j 1 content of every file, keyed by path): a fresh writer of the same kind receives all
    chunks in input order and is drained once.  The serialisation format chosen by the proxied writer is thereby
    taken as given (outside the claim); order, exactly-once and the file <-> writer association are not."""
    key = (tuple(shape), C)
    if key not in _EXPECT:
        _of, _op, writers = _build_outfiles(shape)
        for c in range(C):
            _write_chunk(writers, c)
        exp = {}
        for kind, w, paths in writers:
            chunks = w.drain()
            assert len(chunks) == len(paths)
            for p, b in zip(paths, chunks):
                exp[p] = b
        _EXPECT[key] = exp
    return _EXPECT[key]


# ------------------------------------------------------------------------------------------ pipelines
class _FakePipeline:
    """Stands for the Pipeline object of one process.  process_reads() writes the (concrete) output of the chunk
    into the proxied writers and adds the (symbolic) contribution of the chunk to the counters of the REAL
    modifier and step objects, from which the REAL Statistics.collect() reads them."""

    def __init__(self, paired, modifiers, steps, writers, h):
        self.paired = paired
        self._modifiers = modifiers
        self._steps = steps
        self.writers = writers
        self.h = h
        self.contrib = None
        self.serial_chunks = None

    def process_reads(self, infiles, progress=None):
        if self.serial_chunks is not None:         # the single-core run: all chunks in input order
            chunks = list(range(self.serial_chunks))
        else:
            chunks = [int(infiles._files[0].getvalue())]
        n = bp1 = bp2 = 0
        for c in chunks:
            with NoTracing():
                _write_chunk(self.writers, c)
            x = self.contrib[c]
            _apply(self.h, x)
            n = n + x["n"]
            bp1 = bp1 + x["bp1"]
            bp2 = bp2 + x["bp2"]
        return (n, bp1, bp2 if self.paired else None)


def _light_init(self, sequence, name):
    # only the attributes that EndStatistics / AdapterStatistics / AdapterCutter.__init__ read; no aligner and no
    # k-mer tables are built (matching is not part of C06, and their construction dominates the run time)
    self.name = name
    self._debug = False
    self.sequence = sequence
    self.max_error_rate = 0.1
    self.min_overlap = 3
    self.adapter_wildcards = False
    self.read_wildcards = False
    self.indels = True
    self._force_anywhere = False


class _LBack(BackAdapter):
    __init__ = _light_init
    effective_length = property(lambda self: len(self.sequence))


class _LFront(FrontAdapter):
    __init__ = _light_init
    effective_length = property(lambda self: len(self.sequence))


class _LAnywhere(AnywhereAdapter):
    __init__ = _light_init
    effective_length = property(lambda self: len(self.sequence))


def _adapters(tag):
    """one adapter per AdapterStatistics variant: back, front, anywhere, linked (real create_statistics())"""
    return [_LBack("ACGTACGTAC", tag + "back"), _LFront("TTGGCCAATT", tag + "front"), _LAnywhere("GGAATTCCGG", tag + "any"),
            LinkedAdapter(_LFront("CCCCAAAA", tag + "lf"), _LBack("GGGGTTTT", tag + "lb"), True, False, name=tag + "linked")]


def _make_pipeline(config, writers):
    """-> _FakePipeline whose modifiers / steps are real objects; h names the objects whose counters a chunk bumps"""
    main_writer = writers[-1][1]
    h = {"q": [None, None], "nq": [None, None], "cut": [None, None], "polya": [None, None], "rc": None, "pac": None, "filter": None}
    mods = []
    if config == "plain":
        paired = False
    elif config == "single":
        paired = False
        h["nq"][0] = NextseqQualityTrimmer(20)
        h["q"][0] = QualityTrimmer(0, 10)
        h["cut"][0] = AdapterCutter(_adapters("s"), times=2, index=False)
        h["polya"][0] = PolyATrimmer()
        mods = [h["nq"][0], h["q"][0], h["cut"][0], h["polya"][0]]
    elif config == "single_rc":
        paired = False
        h["cut"][0] = AdapterCutter(_adapters("s"), index=False)
        h["rc"] = ReverseComplementer(h["cut"][0])
        mods = [h["rc"]]
    elif config == "plain_paired":
        paired = True
    elif config in ("paired_r1", "paired_r2", "paired_both"):
        paired = True
        h["q"] = [QualityTrimmer(0, 10), QualityTrimmer(0, 10)]
        if config != "paired_r2":
            h["cut"][0] = AdapterCutter(_adapters("p1"), index=False)
        if config != "paired_r1":
            h["cut"][1] = AdapterCutter(_adapters("p2"), index=False)
        h["polya"] = [PolyATrimmer(), PolyATrimmer(revcomp=True)]
        if config == "paired_both":
            h["nq"] = [NextseqQualityTrimmer(20), NextseqQualityTrimmer(20)]
            mods.append(PairedEndModifierWrapper(*h["nq"]))
            mods.append(PairedEndModifierWrapper(*h["q"]))
        elif config == "paired_r1":
            h["q"][1] = None
            mods.append(PairedEndModifierWrapper(h["q"][0], None))
        else:
            h["q"][0] = None
            h["polya"][0] = None
            mods.append(PairedEndModifierWrapper(None, h["q"][1]))
        mods.append(PairedEndModifierWrapper(h["cut"][0], h["cut"][1]))
        mods.append(PairedEndModifierWrapper(h["polya"][0], h["polya"][1]))
    elif config == "pair_adapters":
        paired = True
        h["pac"] = PairedAdapterCutter(_adapters("p1"), _adapters("p2"))
        mods = [h["pac"]]
    elif config == "paired_rc":
        paired = True
        h["cut"] = [AdapterCutter(_adapters("p1"), index=False), AdapterCutter(_adapters("p2"), index=False)]
        h["rc"] = PairedReverseComplementer(h["cut"][0], h["cut"][1])
        mods = [h["rc"]]
    else:
        raise ValueError(config)
    if paired:
        h["sink"] = PairedEndSink(main_writer)
        steps = [h["sink"]]
        if config != "plain_paired":
            h["filter"] = PairedEndFilter(TooShort(5), TooShort(5), None)
            steps.insert(0, h["filter"])
    else:
        h["sink"] = SingleEndSink(main_writer)
        steps = [h["sink"]]
        if config != "plain":
            h["filter"] = SingleEndFilter(TooShort(5), None)
            steps.insert(0, h["filter"])
    return _FakePipeline(paired, mods, steps, writers, h)


_BASES = ("A", "C", "G", "T", "")


def _astats(h, i, j):
    if h["pac"] is not None:
        return list(h["pac"].adapter_statistics[i].values())[j]
    return list(h["cut"][i].adapter_statistics.values())[j]


def _end_stats(st, end):
    if hasattr(st, "end"):
        return st.end
    return st.front if end == "front" else st.back


def _apply(h, x):
    """add the contribution x of one chunk to the counters, as processing the reads of that chunk would"""
    rl = h["sink"]._statistics
    for k1, k2, cnt in x["written"]:
        rl._written_lengths1[k1] += cnt
        if k2 is not None:
            rl._written_lengths2[k2] += cnt
    if h["filter"] is not None:
        h["filter"]._filtered += x["filtered"]
    for i in (0, 1):
        if h["q"][i] is not None:
            h["q"][i].trimmed_bases += x["q"][i]
        if h["nq"][i] is not None:
            h["nq"][i].trimmed_bases += x["nq"][i]
        if h["cut"][i] is not None:
            h["cut"][i].with_adapters += x["wa"][i]
        if h["polya"][i] is not None:
            for key, cnt in x["polya"][i]:
                h["polya"][i].trimmed_bases[key] += cnt
    if h["pac"] is not None:
        h["pac"].with_adapters += x["wa"][0]
    if h["rc"] is not None:
        h["rc"].reverse_complemented += x["rc"]
    for (i, j, end, length, errors, cnt, adj, rcn) in x["matches"]:
        st = _astats(h, i, j)
        es = _end_stats(st, end)
        es.errors[length][errors] += cnt
        if end == "back":
            es.adjacent_bases[_BASES[adj]] += cnt
        st.reverse_complemented += rcn


# ------------------------------------------------------------------------------------------ snapshots / reference
def _items(d):
    return sorted((k, v) for k, v in d.items())


def _snap_end(es):
    if es is None:
        return None
    return ([(l, _items(e)) for l, e in sorted(es.errors.items())], _items(es.adjacent_bases))


def _snapshot(st):
    ad = []
    for i in (0, 1):
        ad.append([(type(a).__name__, a.name, a.reverse_complemented, [_snap_end(e) for e in a.end_statistics()]) for a in st.adapter_stats[i]])
    w1, w2 = st.read_length_statistics._written_lengths1, st.read_length_statistics._written_lengths2
    return {"paired": st.paired, "n": st.n, "total_bp": list(st.total_bp), "filtered": _items(st.filtered),
            "reverse_complemented": st.reverse_complemented, "with_adapters": list(st.with_adapters),
            "quality_trimmed_bp": list(st.quality_trimmed_bp),
            "poly_a": [None if d is None else _items(d) for d in st.poly_a_trimmed_lengths],
            "lengths1": _items(w1), "lengths2": _items(w2), "adapters": ad}


def _acc(d, k, v):
    d[k] = d.get(k, 0) + v


def _reference(config, contribs):
    """Pure reference: the statistics of the concatenated input, summed directly from the per-chunk quantities.
    Which fields exist (None / absent) follows from the configuration, as in a single-core run."""
    paired = config in ("plain_paired", "paired_r1", "paired_r2", "paired_both", "pair_adapters", "paired_rc")
    has_q = {"single": (1, 0), "paired_r1": (1, 0), "paired_r2": (0, 1), "paired_both": (1, 1)}.get(config, (0, 0))
    has_nq = {"single": (1, 0), "paired_both": (1, 1)}.get(config, (0, 0))
    has_cut = {"single": (1, 0), "single_rc": (1, 0), "paired_r1": (1, 0), "paired_r2": (0, 1), "paired_both": (1, 1), "pair_adapters": (1, 1), "paired_rc": (1, 1)}.get(config, (0, 0))
    has_pa = {"single": (1, 0), "paired_r1": (1, 1), "paired_r2": (0, 1), "paired_both": (1, 1)}.get(config, (0, 0))
    has_rc = config in ("single_rc", "paired_rc")
    r = {"paired": paired, "n": 0, "total_bp": [0, 0], "l1": {}, "l2": {}, "filtered": 0, "rc": 0 if has_rc else None,
         "wa": [0 if has_cut[i] else None for i in (0, 1)], "qt": [0 if (has_q[i] or has_nq[i]) else None for i in (0, 1)],
         "pa": [{} if has_pa[i] else None for i in (0, 1)], "err": {}, "adj": {}, "arc": {}}
    for x in contribs:
        r["n"] = r["n"] + x["n"]
        r["total_bp"][0] = r["total_bp"][0] + x["bp1"]
        if paired:
            r["total_bp"][1] = r["total_bp"][1] + x["bp2"]
        for k1, k2, cnt in x["written"]:
            _acc(r["l1"], k1, cnt)
            if k2 is not None:
                _acc(r["l2"], k2, cnt)
        r["filtered"] = r["filtered"] + x["filtered"]
        if has_rc:
            r["rc"] = r["rc"] + x["rc"]
        for i in (0, 1):
            if has_cut[i]:
                r["wa"][i] = r["wa"][i] + (x["wa"][0] if config == "pair_adapters" else x["wa"][i])
            if has_q[i]:
                r["qt"][i] = r["qt"][i] + x["q"][i]
            if has_nq[i]:
                r["qt"][i] = r["qt"][i] + x["nq"][i]
            if has_pa[i]:
                for key, cnt in x["polya"][i]:
                    _acc(r["pa"][i], key, cnt)
        for (i, j, end, length, errors, cnt, adj, rcn) in x["matches"]:
            _acc(r["err"], (i, j, end, length, errors), cnt)
            if end == "back":
                _acc(r["adj"], (i, j, end, _BASES[adj]), cnt)
            _acc(r["arc"], (i, j), rcn)
    return r


def _matches_reference(st, ref, config):
    if st.paired != ref["paired"] or not (st.n == ref["n"]) or not (st.total_bp[0] == ref["total_bp"][0]) or not (st.total_bp[1] == ref["total_bp"][1]):
        return False
    rl = st.read_length_statistics
    if _items(rl._written_lengths1) != _items(ref["l1"]) or _items(rl._written_lengths2) != _items(ref["l2"]):
        return False
    if config in ("plain", "plain_paired"):
        if _items(st.filtered) != []:
            return False
    elif _items(st.filtered) != [("too_short", ref["filtered"])]:
        return False
    if ref["rc"] is None:
        if st.reverse_complemented is not None:
            return False
    elif st.reverse_complemented is None or not (st.reverse_complemented == ref["rc"]):
        return False
    for i in (0, 1):
        for got, want in ((st.with_adapters[i], ref["wa"][i]), (st.quality_trimmed_bp[i], ref["qt"][i])):
            if want is None:
                if got is not None:
                    return False
            elif got is None or not (got == want):
                return False
        got = st.poly_a_trimmed_lengths[i]
        if ref["pa"][i] is None:
            if got is not None:
                return False
        elif got is None or _items(got) != _items(ref["pa"][i]):
            return False
        n_ad = 4 if ref["wa"][i] is not None else 0
        if len(st.adapter_stats[i]) != n_ad:
            return False
        for j, a in enumerate(st.adapter_stats[i]):
            if not (a.reverse_complemented == ref["arc"].get((i, j), 0)):
                return False
            ends = a.end_statistics()
            for end, es in (("front", ends[0]), ("back", ends[1])):
                if es is None:
                    if any(k[:3] == (i, j, end) for k in ref["err"]):
                        return False
                    continue
                got_err = {}
                for length, ed in es.errors.items():
                    for errors, cnt in ed.items():
                        got_err[(i, j, end, length, errors)] = cnt
                want_err = {k: v for k, v in ref["err"].items() if k[:3] == (i, j, end)}
                if _items(got_err) != _items(want_err):
                    return False
                for b in _BASES:
                    if not (es.adjacent_bases[b] == ref["adj"].get((i, j, end, b), 0)):
                        return False
    return True


# ------------------------------------------------------------------------------------------ the driver
def _conc(x, hi):
    """The concrete value of a symbolic choice: x if 0 <= x < hi, else hi (every int denotes an admissible choice and
    every choice 0..hi is denoted).  Under CrossHair this is one path per value 0..hi."""
    for v in range(hi):
        if x == v:
            return v
    return hi


def _run_parallel(config, shape, C, W, assign, choices, mode, rev, contribs, resume=False):
    """Drive the real run() under the stub.  -> (stats, opener, progress, conns, worker pipelines, outfiles)"""
    with NoTracing():
        outfiles, opener, writers = _build_outfiles(shape)
        main_pipeline = _make_pipeline(config, writers)
    n_files = 2 if main_pipeline.paired else 1
    conns, pipelines, procs = [], [], []

    def start_workers(pipeline, proxy_files):
        # process start-up is outside the claim: each worker gets its own copy of the pipeline and of the proxy
        # files (pickled together, as with the spawn start method), a FIFO to the main process and its chunks
        for w in range(W):
            with NoTracing():
                pl, pfs = pickle.loads(pickle.dumps((pipeline, proxy_files)))
            pl.contrib = contribs
            conn = _Conn(w)
            wp = WorkerProcess.__new__(WorkerProcess)
            wp._id = w
            wp._pipeline = pl
            wp._n_input_files = n_files
            wp._interleaved_input = False
            wp._read_pipe = _ReadPipe([c for c in range(C) if assign[c] == w], n_files)
            wp._write_pipe = conn
            wp._need_work_queue = _Queue()
            wp._proxy_files = pfs
            wp._file_format = "fastq"
            WorkerProcess.run(wp)          # the real worker loop; all its messages are queued in FIFO order
            conns.append(conn)
            pipelines.append((pl, pfs))
            procs.append(_Proc())
        return procs, list(conns)

    runner = ParallelPipelineRunner.__new__(ParallelPipelineRunner)
    runner._n_workers = W
    runner._reader_process = _Proc()
    runner._start_workers = start_workers
    progress = _Progress()
    _SCHED[0] = _Scheduler(choices, mode, rev, resume)
    stats = runner.run(main_pipeline, progress, outfiles)
    return stats, opener, progress, conns, pipelines, outfiles


def _files_ok(shape, C, opener, outfiles, conns, pipelines):
    with NoTracing():       # bytes, paths and queue positions only
        return _files_ok_(shape, C, opener, outfiles, conns, pipelines)


def _files_ok_(shape, C, opener, outfiles, conns, pipelines):
    exp = _expected_files(shape, C)
    files = outfiles.binary_files()
    if sorted(f.path for f in files) != sorted(exp):
        return False
    for f in files:
        if b"".join(f.data) != exp[f.path]:     # index order, exactly once, nothing missing
            return False
    for conn in conns:                           # every message was consumed
        if conn.pending():
            return False
    for _pl, pfs in pipelines:                   # nothing is left buffered in a worker
        for pf in pfs:
            if any(len(b) != 0 for b in pf.drain()):
                return False
    return True


def _serial_stats(config, shape, C, contribs):
    """the statement literally: the statistics of the single-core run (real SerialPipelineRunner.run) over the same input"""
    with NoTracing():
        _of, _op, writers = _build_outfiles(shape)
        serial_pipeline = _make_pipeline(config, writers)
    serial_pipeline.contrib = contribs
    serial_pipeline.serial_chunks = C
    sr = SerialPipelineRunner.__new__(SerialPipelineRunner)
    sr._infiles = None
    return sr.run(serial_pipeline, _Progress(), _of)


def _body(config, shape, C, W, assign, choices, mode, rev, contribs, resume):
    stats, opener, progress, conns, pipelines, outfiles = _run_parallel(config, shape, C, W, assign, choices, mode, rev, contribs, resume)
    if not _files_ok(shape, C, opener, outfiles, conns, pipelines):
        return False
    if not (progress.total == sum(x["n"] for x in contribs)) or progress.closed != 1:
        return False
    if not _matches_reference(stats, _reference(config, contribs), config):
        return False
    return _snapshot(stats) == _snapshot(_serial_stats(config, shape, C, contribs))


def _concrete_body(*args):
    """Everything is concrete from here on (assignment and keys realised, counters concrete): the loops run at native
    speed outside the tracer; only the scheduling choice inside wait() is evaluated under the tracer again."""
    was = is_tracing()
    with NoTracing():
        _WAS_TRACING[0] = was
        return _body(*args, True)


def _paired(config):
    return config.startswith("paired") or config in ("plain_paired", "pair_adapters")


def _plain_contrib(c, n, paired):
    return {"n": n, "bp1": 3 * n + c, "bp2": 2 * n, "written": [(10 + c // 2, (20 + (c + 1) // 2) if paired else None, n)], "filtered": 0,
            "q": (0, 0), "nq": (0, 0), "wa": (0, 0), "rc": 0, "polya": ([], []), "matches": []}


def _assignment(As):
    C, W = _PARAM["C"], _PARAM["W"]
    fixed = _PARAM.get("assign_prefix", ())     # this condition covers the assignments that start with assign_prefix
    return [fixed[c] if c < len(fixed) else _conc(As[c], W - 1) for c in range(C)]


def _schedule(As, Ss, Ns=None):
    """As = symbolic chunk->worker assignment, Ss = symbolic wait() choices, Ns = symbolic reads per chunk (or None:
    concrete counters, the large shapes enumerate schedules only)."""
    C, W, shape, config = _PARAM["C"], _PARAM["W"], _PARAM["files"], _PARAM.get("config", "plain")
    mode, rev = _PARAM.get("mode", "subsets"), _PARAM.get("rev", False)
    assign = _assignment(As)
    choices = list(Ss)[:C + W]
    if Ns is None:
        contribs = [_plain_contrib(c, 5 + 3 * c, _paired(config)) for c in range(C)]
        return _concrete_body(config, shape, C, W, assign, choices, mode, rev, contribs)
    contribs = [_plain_contrib(c, Ns[c], _paired(config)) for c in range(C)]
    return _body(config, shape, C, W, assign, choices, mode, rev, contribs, False)


# ---- schedules with symbolic counters (traced throughout) -------------------------------------------------
def check_schedule_n2(a0: int, a1: int, s0: int, s1: int, s2: int, s3: int, s4: int, n0: int, n1: int) -> bool:
    """
    pre: 1 <= n0 <= 10000 and 1 <= n1 <= 10000
    post: _
    """
    return _schedule((a0, a1), (s0, s1, s2, s3, s4), (n0, n1))


def check_schedule_n3(a0: int, a1: int, a2: int, s0: int, s1: int, s2: int, s3: int, s4: int, s5: int, n0: int, n1: int, n2: int) -> bool:
    """
    pre: 1 <= n0 <= 10000 and 1 <= n1 <= 10000 and 1 <= n2 <= 10000
    post: _
    """
    return _schedule((a0, a1, a2), (s0, s1, s2, s3, s4, s5), (n0, n1, n2))


# ---- schedules only (no precondition: _conc maps every int to an admissible choice) -----------------------------
def check_schedule_c0(s0: int, s1: int, s2: int) -> bool:
    """
    post: _
    """
    return _schedule((), (s0, s1, s2))


def check_schedule_c1(a0: int, s0: int, s1: int, s2: int, s3: int) -> bool:
    """
    post: _
    """
    return _schedule((a0,), (s0, s1, s2, s3))


def check_schedule_c2(a0: int, a1: int, s0: int, s1: int, s2: int, s3: int, s4: int) -> bool:
    """
    post: _
    """
    return _schedule((a0, a1), (s0, s1, s2, s3, s4))


def check_schedule_c3(a0: int, a1: int, a2: int, s0: int, s1: int, s2: int, s3: int, s4: int, s5: int) -> bool:
    """
    post: _
    """
    return _schedule((a0, a1, a2), (s0, s1, s2, s3, s4, s5))


def check_schedule_c4(a0: int, a1: int, a2: int, a3: int, s0: int, s1: int, s2: int, s3: int, s4: int, s5: int, s6: int) -> bool:
    """
    post: _
    """
    return _schedule((a0, a1, a2, a3), (s0, s1, s2, s3, s4, s5, s6))


def check_schedule_c5(a0: int, a1: int, a2: int, a3: int, a4: int, s0: int, s1: int, s2: int, s3: int, s4: int, s5: int, s6: int, s7: int) -> bool:
    """
    post: _
    """
    return _schedule((a0, a1, a2, a3, a4), (s0, s1, s2, s3, s4, s5, s6, s7))


# ---- statistics ---------------------------------------------------------------------------------------------------
# aspects of the keyed statistics conditions: which dictionary key of a chunk is symbolic, and its largest value
_ASPECTS = {
    "lengths1": 2,        # length of the R1 reads written by the chunk
    "lengths2": 2,        # length of the R2 reads written by the chunk
    "polya1": 2,          # poly-A tail length on R1
    "polya2": 2,          # poly-T head length on R2
    "adapter_len": 2,     # length of the removed sequence in the selected adapter's error table
    "adapter_err": 1,     # number of errors
    "adapter_adj": 4,     # adjacent base (A, C, G, T, other); 3' ends only
}


def _stats_contrib(aspect, config, c, key, cnt, sel):
    """contribution of chunk c; key / cnt are the symbolic parts (key already concrete for the keyed aspects)"""
    paired = _paired(config)
    # concrete parts: the dictionary keys of different chunks collide (c // 2) and differ (c = 2), so merging has to add
    x = {"n": 7 + c, "bp1": 100 + c, "bp2": 90 + c, "written": [(10 + c // 2, (20 + (c + 1) // 2) if paired else None, 3 + c)], "filtered": c,
         "q": (c, 2 * c), "nq": (1, c), "wa": (c, c + 1), "rc": c, "polya": ([(c // 2, 1 + c)], [((c + 1) // 2, 2)]), "matches": []}
    i_sel, j_sel, end_sel = sel
    # in the keyed aspects every adapter statistics object of the configuration gets a concrete contribution from every chunk
    for i in (0, 1):
        for j, ends in enumerate((("back",), ("front",), ("front", "back"), ("front", "back"))):
            for end in ends:
                if aspect != "counters" or (c + i + j) % 4 == 0:
                    x["matches"].append((i, j, end, 3 + (c // 2 + j) % 2, (c + 1) // 2, 1 + c, (c // 2 + j) % 5, c % 2))
    if aspect == "counters":
        x["n"] = key
        x["q"] = (cnt, cnt + 1)
        x["nq"] = (cnt + 2, 3)
        x["wa"] = (cnt, cnt + key)
        x["filtered"] = cnt          # may be 0 in every chunk: an active filter that discards nothing keeps its entry (with 0)
        x["rc"] = cnt + 1
        x["bp1"] = key * 3 + cnt
        x["bp2"] = key * 2
        x["written"] = [(10 + c // 2, (20 + (c + 1) // 2) if paired else None, key + 1)]
        x["polya"] = ([(c // 2, 1 + cnt)], [((c + 1) // 2, 2 + key)])
        x["matches"].append((i_sel, j_sel, end_sel, 2, 1, cnt + 1, c // 2, cnt))
    elif aspect == "lengths1":
        x["written"] = [(key, (20 + (c + 1) // 2) if paired else None, cnt + 1)]
    elif aspect == "lengths2":
        x["written"] = [(10 + c // 2, key, cnt + 1)]
    elif aspect == "polya1":
        x["polya"] = ([(key, cnt + 1)], [((c + 1) // 2, 2)])
    elif aspect == "polya2":
        x["polya"] = ([(c // 2, 1 + c)], [(key, cnt + 1)])
    elif aspect == "adapter_len":
        x["matches"].append((i_sel, j_sel, end_sel, key, 1, cnt + 1, c // 2, cnt))
    elif aspect == "adapter_err":
        x["matches"].append((i_sel, j_sel, end_sel, 2, key, cnt + 1, c // 2, cnt))
    elif aspect == "adapter_adj":
        x["matches"].append((i_sel, j_sel, end_sel, 1 + c // 2, 0, cnt + 1, key, cnt))
    if config in ("single", "single_rc", "plain", "paired_r1"):
        x["matches"] = [m for m in x["matches"] if m[0] == 0]
    elif config == "paired_r2":
        x["matches"] = [m for m in x["matches"] if m[0] == 1]
    if config in ("plain", "plain_paired"):
        x["matches"] = []
        x["filtered"] = 0
    return x


def _sel_default(config):
    return _PARAM.get("sel", (1, 0, "back") if config == "paired_r2" else (0, 0, "back"))


def _counters(As, Ss, Ns, Cs):
    """symbolic plain counters (two per chunk), symbolic assignment and symbolic arrival order of the workers' final
    messages; traced throughout"""
    C, W, config = _PARAM["C"], _PARAM["W"], _PARAM["config"]
    shape = ("P",) if _paired(config) else ("R",)
    assign = _assignment(As)
    contribs = [_stats_contrib("counters", config, c, Ns[c], Cs[c], _sel_default(config)) for c in range(C)]
    return _body(config, shape, C, W, assign, list(Ss)[:W], "drain", False, contribs, False)


def _keys(As, Ss, Ks):
    """symbolic dictionary keys (one per chunk), symbolic assignment and arrival order; concrete counts"""
    C, W, config, aspect = _PARAM["C"], _PARAM["W"], _PARAM["config"], _PARAM["aspect"]
    shape = ("P",) if _paired(config) else ("R",)
    assign = _assignment(As)
    keys = [_conc(k, _ASPECTS[aspect]) for k in Ks[:C]]
    contribs = [_stats_contrib(aspect, config, c, keys[c], 2 * c + 1, _sel_default(config)) for c in range(C)]
    return _concrete_body(config, shape, C, W, assign, list(Ss)[:W], "drain", False, contribs)


def check_counters_c2(a0: int, a1: int, s0: int, s1: int, s2: int, n0: int, n1: int, c0: int, c1: int) -> bool:
    """
    pre: 0 <= n0 <= 1000 and 0 <= n1 <= 1000 and 0 <= c0 <= 1000 and 0 <= c1 <= 1000
    post: _
    """
    return _counters((a0, a1), (s0, s1, s2), (n0, n1), (c0, c1))


def check_counters_c3(a0: int, a1: int, a2: int, s0: int, s1: int, s2: int, n0: int, n1: int, n2: int, c0: int, c1: int, c2: int) -> bool:
    """
    pre: 0 <= n0 <= 1000 and 0 <= n1 <= 1000 and 0 <= n2 <= 1000 and 0 <= c0 <= 1000 and 0 <= c1 <= 1000 and 0 <= c2 <= 1000
    post: _
    """
    return _counters((a0, a1, a2), (s0, s1, s2), (n0, n1, n2), (c0, c1, c2))


def check_keys_c2(a0: int, a1: int, s0: int, s1: int, s2: int, k0: int, k1: int) -> bool:
    """
    post: _
    """
    return _keys((a0, a1), (s0, s1, s2), (k0, k1))


def check_keys_c3(a0: int, a1: int, a2: int, s0: int, s1: int, s2: int, k0: int, k1: int, k2: int) -> bool:
    """
    post: _
    """
    return _keys((a0, a1, a2), (s0, s1, s2), (k0, k1, k2))


# ------------------------------------------------------------------------------------------ conditions
CONDITIONS = []


def _sched(C, W, files, mode="subsets", rev=False, config="plain", prefix=(), sym_n=False, timeout=300, thorough_only=False):
    name = "schedule/C=%d/W=%d/files=%s/%s%s%s%s%s" % (C, W, "".join(files), mode, "/reversed" if rev else "", "/" + config if config != "plain" else "",
                                                      ("/assign=" + "".join(map(str, prefix)) + "*") if prefix else "", "/symbolic-counters" if sym_n else "")
    CONDITIONS.append({"name": name, "fn": "check_schedule_%s%d" % ("n" if sym_n else "c", C), "timeout": timeout, "thorough_only": thorough_only,
                       "param": {"C": C, "W": W, "files": tuple(files), "mode": mode, "rev": rev, "config": config, "assign_prefix": tuple(prefix)}})


def _stat(C, W, config, aspect, sel=None, timeout=300, thorough_only=False):
    name = "stats/C=%d/W=%d/%s/%s%s" % (C, W, config, aspect, ("/read%d-adapter%d-%s" % (sel[0] + 1, sel[1], sel[2])) if sel else "")
    p = {"C": C, "W": W, "config": config, "aspect": aspect}
    if sel:
        p["sel"] = sel
    CONDITIONS.append({"name": name, "fn": "check_%s_c%d" % ("counters" if aspect == "counters" else "keys", C), "timeout": timeout, "thorough_only": thorough_only, "param": p})


# schedules: every assignment x every sequence of wait() results, per shape
_sched(0, 1, ("R",))
_sched(0, 3, ("T", "P"), config="plain_paired")
_sched(1, 1, ("R",))
_sched(1, 3, ("T", "R"))
_sched(2, 1, ("I",), config="plain_paired")
_sched(2, 2, ("T", "P"), config="plain_paired", sym_n=True)
_sched(2, 3, ("T", "P"), config="plain_paired")
_sched(2, 3, ("T", "R"), rev=True)
_sched(3, 1, ("T", "R"))
_sched(3, 2, ("P", "R"), config="plain_paired", sym_n=True)
_sched(3, 2, ("T", "I"), rev=True, config="plain_paired")
_sched(4, 1, ("T", "P"), config="plain_paired")
_sched(4, 2, ("R", "T", "R"), rev=True)
_sched(4, 2, ("T", "P"), config="plain_paired")
for _a in range(3):
    _sched(3, 3, ("T", "P"), config="plain_paired", prefix=(_a,), timeout=900)
    for _b in range(3):
        _sched(4, 3, ("T", "P"), mode="singletons", config="plain_paired", prefix=(_a, _b), timeout=900)
        _sched(4, 3, ("T", "P"), config="plain_paired", prefix=(_a, _b), timeout=2400, thorough_only=True)
        _sched(5, 3, ("T", "P"), mode="singletons", config="plain_paired", prefix=(_a, _b), timeout=3000, thorough_only=True)
_sched(5, 2, ("T", "P"), config="plain_paired", timeout=1800, thorough_only=True)
_sched(3, 3, ("T", "P"), config="plain_paired", sym_n=True, timeout=3000, thorough_only=True)

# statistics: every assignment x every arrival order of the workers' final messages x the symbolic quantities
_CONFIGS = ("plain", "single", "single_rc", "plain_paired", "paired_r1", "paired_r2", "paired_both", "pair_adapters", "paired_rc")
for _cfg in _CONFIGS:
    _stat(3, 2, _cfg, "counters")
    _stat(2, 3, _cfg, "counters", timeout=600)
    _stat(3, 3, _cfg, "counters", timeout=1800, thorough_only=True)
for _cfg, _asp in (("plain", "lengths1"), ("plain_paired", "lengths1"), ("plain_paired", "lengths2"), ("single", "polya1"), ("paired_both", "polya1"),
                   ("paired_both", "polya2"), ("paired_r2", "polya2")):
    _stat(3, 2, _cfg, _asp)
    _stat(2, 3, _cfg, _asp, thorough_only=(_cfg, _asp) not in (("plain", "lengths1"), ("plain_paired", "lengths2"), ("paired_both", "polya2")))
    _stat(3, 3, _cfg, _asp, timeout=900, thorough_only=True)
# adapter j: 0 back (BackAdapterStatistics), 1 front (FrontAdapterStatistics), 2 anywhere, 3 linked
for _j, _e in ((0, "back"), (1, "front"), (2, "front"), (2, "back"), (3, "front"), (3, "back")):
    for _asp in ("adapter_len", "adapter_err") + (("adapter_adj",) if _e == "back" else ()):
        _stat(2, 2, "single", _asp, sel=(0, _j, _e))
        _stat(3, 2, "single", _asp, sel=(0, _j, _e), timeout=900, thorough_only=True)
        _stat(2, 3, "single", _asp, sel=(0, _j, _e), timeout=900, thorough_only=True)
    _stat(3, 2, "single", "adapter_len", sel=(0, _j, _e), thorough_only=_j not in (1, 3))
    _stat(2, 3, "single", "adapter_len", sel=(0, _j, _e), thorough_only=_j not in (0, 2))
for _cfg, _sels in (("single_rc", ((0, 0, "back"), (0, 2, "front"))),
                    ("pair_adapters", ((0, 3, "back"), (1, 1, "front"))),
                    ("paired_rc", ((1, 0, "back"), (0, 2, "front"))),
                    ("paired_both", ((1, 3, "front"), (0, 2, "back"))),
                    ("paired_r2", ((1, 3, "back"),))):
    for _sel in _sels:
        _stat(2, 2, _cfg, "adapter_len", sel=_sel)
        _stat(2, 2, _cfg, "adapter_err", sel=_sel)
        _stat(2, 3, _cfg, "adapter_len", sel=_sel, thorough_only=True)
        _stat(3, 2, _cfg, "adapter_err", sel=_sel, thorough_only=True)
_seen = set()
CONDITIONS = [c for c in CONDITIONS if not (c["name"] in _seen or _seen.add(c["name"]))]


def describe():
    return {
        "functions": ["runners.py:ParallelPipelineRunner.run (main loop), ._try_receive", "runners.py:OrderedChunkWriter.write/wrote_everything",
                      "runners.py:WorkerProcess.run/_send_outfiles", "runners.py:SerialPipelineRunner.run (the single-core side of the statistics comparison)",
                      "files.py:OutputFiles.open_text/open_record_writer/proxy_files/binary_files", "files.py:ProxyTextFile, ProxyRecordWriter (write/drain/__getstate__/__setstate__)",
                      "report.py:Statistics.__iadd__/collect/_collect_step/_collect_modifier, add_if_not_none", "statistics.py:ReadLengthStatistics.__iadd__",
                      "adapters.py:EndStatistics.__iadd__, SingleAdapterStatistics.__iadd__ (Front/Back), LinkedAdapterStatistics.__iadd__, AnywhereAdapterStatistics.__iadd__"],
        "bounds": {
            "quick": {"chunks": "0..4", "workers": "1..3", "output files": "1..3 (text file, single record file, two-file and interleaved paired record writers)",
                      "schedules": "every chunk->worker assignment x every sequence of wait() results: all non-empty subsets of the ready connections for C<=3 (W<=3) and for C=4 with W<=2; all singleton "
                                   "sequences for C=4, W=3 (the loop under test processes a subset round exactly like consecutive singleton rounds, so singletons already give every processing order; the "
                                   "subset rounds are covered on the smaller shapes); ready list in list order, in reversed order for three shapes",
                      "statistics": "3 chunks x 2 workers and 2 chunks x 3 workers (adapter tables also 2 x 2): every assignment x every arrival order of the workers' final (-1, statistics) messages; "
                                    "9 modifier configurations (none; single-end with NextSeq/quality/adapter/poly-A/filter; single-end --revcomp; paired none; paired R1-only / R2-only / both; --pair-adapters; "
                                    "paired --revcomp) decide which fields are None. 'counters' conditions: two symbolic counters 0..1000 per chunk driving reads, bp, quality-trimmed bp, reads with adapters, "
                                    "filtered, reverse-complemented, histogram and error-table counts. keyed conditions: one symbolic dictionary key per chunk - read-length histograms of R1 / R2 (<= 3 keys), "
                                    "poly-A histograms of R1 / R2 (<= 3 keys), adapter error tables (removed length 0..2, errors 0..1, adjacent base A/C/G/T/other) for every end of a back, front, anywhere and "
                                    "linked adapter - with concrete counts that collide across chunks"},
            "thorough": {"chunks": "0..5", "workers": "1..3", "output files": "1..3", "schedules": "as quick plus all subset sequences for C=4, W=3 and C=5, W=2, all singleton sequences for C=5, W=3, symbolic counters for C=3, W=3",
                         "statistics": "as quick plus 3 chunks x 3 workers for every aspect and every (configuration, adapter end) pair in both shapes"},
        },
        "outside_bounds": ["more than 5 chunks / 3 workers / 3 files", "pipe buffering, process start-up and termination, the reader's need-work queue protocol (replaced by the stated contract)",
                           "the output-format decision of the proxied writers (-j 2 -o out.fasta writes FASTQ, see C19): the expected content of a file is what a fresh proxied writer of the same kind produces when it "
                           "receives all chunks in input order and is drained once, so the serialisation format is taken as given; order, exactly-once and the file <-> writer association are checked",
                           "the text of the reads (concrete per chunk; it only passes through dnaio / io)", "error paths (-2 messages)", "matching: adapters are stand-ins without aligner (only their statistics objects are real)"],
        "stubs": ["multiprocessing.connection.wait (the name 'multiprocessing' is rebound inside cutadapt.runners only): returns an arbitrary non-empty subset (symbolic choice) of the connections with pending messages",
                  "worker->main Connection: FIFO list; recv on an exhausted connection = the main process would block forever = violation; recv/recv_bytes on a message of the other kind = violation",
                  "reader->worker pipe: each chunk index is handed to exactly one (symbolic) worker, in increasing order, followed by the stop token",
                  "_start_workers: no process is started; each worker gets pickled copies of (pipeline, proxy files) and its real WorkerProcess.run() is executed to completion before the main loop consumes anything "
                  "(sound: the main loop only observes per-connection FIFO order and the wait() results; any real interleaving shows it a subset of the ready sets allowed here)",
                  "Pipeline.process_reads: writes a fixed text per (chunk, file) into the real proxied writers and adds the per-chunk quantities to the counters of the real modifier/step objects (QualityTrimmer, "
                  "NextseqQualityTrimmer, AdapterCutter, PairedAdapterCutter, (Paired)ReverseComplementer, PolyATrimmer, Single/PairedEndFilter, Single/PairedEndSink) from which the real Statistics.collect reads them",
                  "adapters: subclasses of Back/Front/AnywhereAdapter without aligner and k-mer tables (real create_statistics, real LinkedAdapter)", "binary output files, Progress, process objects: recording stand-ins"],
        "assumptions": ["the stub contract above (FIFO pipes; wait returns only connections that have data; chunks are dealt in increasing index order; every worker eventually sends its final message)",
                        "conditions whose symbolic inputs are only choices (assignment, wait() results, dictionary keys) run the loops outside CrossHair's tracer once the choices are concrete - every value the code sees is "
                        "concrete then, CrossHair enumerates the choices; conditions with symbolic counters are traced throughout", "CrossHair's model of int/list/dict operations",
                        "only 'Confirmed over all paths' counts as discharged"],
        "rule": "one CrossHair condition per (shape, configuration, aspect); symbolic: chunk->worker assignment, wait() choices, per-chunk counters or histogram keys. non-trivial = conditions with more than one explored "
                "path whose reachability twin is refuted",
        "level_note": "message level, bounded: the real run() loop, the real worker loop and the real serial runner are executed in one process; OS-level interleaving is replaced by the stated nondeterministic stub. "
                      "Outside the claim: pipe buffering, process start-up/termination, the reader's queue protocol, the output-format decision of proxied writers.",
    }


def jobs(tier, seed):
    return e2_jobs(CONDITIONS, tier)


def run_job(job):
    return e2_run_job(__name__, job)


def replay(cex):
    return e2_replay(cex)
