"""C15 - demultiplexing puts every read into the file of its adapter.

E2 (CrossHair on the real classes).  One demultiplexing command line per condition (param), parsed natively by the real
argument parser; the real make_pipeline_from_args (with determine_demultiplex_mode) builds Demultiplexer / PairedDemultiplexer
/ CombinatorialDemultiplexer against a recording outfiles stub.  ONE read (pair) is pushed through the steps exactly as
process_reads does.  Symbolic: per mate the number of matches (0, 1 or 2), which of the <= 3 named adapters the first and the
last match belong to (realised as dummy match objects whose .adapter is that real adapter object, appended to info.matches),
the length of the mate where the command has a length filter, and a pair id.

Asserted, against references written from the statement and doc/guide.rst (harness.paired_common.ref_demux_paths /
ref_demux_destination / ref_filters):
 * the files opened are exactly: one per adapter name (resp. per name1 x name2 combination) plus the documented 'unknown'
   file(s) or the --untrimmed-output file, or no such file with --discard-untrimmed - whatever the read is;
 * a read that passes the filters is written exactly once, to the writer opened for the path that results from substituting
   the name of the adapter of its LAST match on R1 (and R2 for {name1}/{name2}), 'unknown', the --untrimmed-output file, or
   to no writer at all with --discard-untrimmed; a read that does not pass goes to no demultiplexed file;
 * paired: each writer call gets both mates of the same pair;
 * where no trimmed/untrimmed option is used: the same read goes to the main output of the same command without {name}
   if and only if it goes to (exactly one of) the demultiplexed files, and it is the same record(s) - which is the
   one-read step of "the multiset of records over all demultiplexed files equals the main output".
"""
from harness.e2_common import e2_jobs, e2_run_job, e2_replay
from harness.paired_common import (PRec, Quals, option_set, config, build_pipeline, push_pair, push_single, info_with_matches, pick, pick_clamped,
                                   ref_filters, ref_final, ref_demux_paths, writes_ok, layout_ok, pair_sync_ok)

PROPERTY = "C15"
ENGINE = "crosshair"

_PARAM = {}


def set_param(p):
    _PARAM.clear()
    _PARAM.update(p or {})
    if "argv" in _PARAM:
        config(_PARAM["argv"])          # parse natively, outside CrossHair
    if _PARAM.get("plain_argv"):
        config(_PARAM["plain_argv"])


TEXTS = ["", "A", "AC", "ACG"]       # lengths 0..3


class _Feat:
    def __init__(self):
        self.text = None
        self.names = []            # adapter names of the matches, in the order in which they were found

    def length(self):
        return len(self.text)

    def matched(self):
        return len(self.names) > 0

    def last(self):
        return self.names[-1] if self.names else None


def _mate(mate, pid, adapters, n, first, last, t):
    f = _Feat()
    f.text = pick(TEXTS, t) if _PARAM.get("length_filter") else "ACG"
    rec = PRec("read/%d" % mate, f.text, Quals("I" * len(f.text)), pair=pid, mate=mate)
    found = []
    if adapters and n > 0:
        a_last = pick_clamped(adapters, last)
        if n > 1:
            found.append(pick_clamped(adapters, first))
        found.append(a_last)
    f.names = [a.name for a in found]
    return rec, f, found


def check_demux(pid: int, n1: int, first1: int, last1: int, n2: int, first2: int, last2: int, t1: int, t2: int) -> bool:
    """
    pre: 0 <= pid <= 1000000000
    pre: 0 <= n1 <= 2 and 0 <= first1 <= 2 and 0 <= last1 <= 2
    pre: 0 <= n2 <= 2 and 0 <= first2 <= 2 and 0 <= last2 <= 2
    pre: 0 <= t1 <= 3 and 0 <= t2 <= 3
    post: _
    """
    spec = _PARAM["spec"]
    cfg = config(_PARAM["argv"])
    paired = spec["paired"]
    pipeline, out = build_pipeline(cfg)
    if cfg.paired != paired or pipeline.paired != paired:
        return False
    # files: one per name (combination) + unknown / untrimmed file, whatever the read is
    if not layout_ok(out, spec):
        return False
    demux_paths = sorted(tuple(p) for p in ref_demux_paths(spec))
    redirect = [tuple(spec[k]) for k in ("short_paths", "long_paths") if spec[k]]
    if sorted(w.paths for w in out.writers if w.paths not in redirect) != demux_paths:
        return False

    r1, f1, found1 = _mate(1, pid, cfg.adapters, n1, first1, last1, t1)
    info1 = info_with_matches(r1, found1)
    if paired:
        r2, f2, found2 = _mate(2, pid, cfg.adapters2, n2, first2, last2, t2)
        info2 = info_with_matches(r2, found2)
        records = (r1, r2)
        left = push_pair(pipeline._steps, r1, r2, info1, info2)
    else:
        r2, f2, found2 = None, None, []
        records = (r1,)
        left = push_single(pipeline._steps, r1, info1)
    if left is not None:
        return False
    if paired and not pair_sync_ok(out, pid):
        return False

    filtered = ref_filters(spec, f1, f2)
    if filtered is not None:
        want = filtered
    else:
        want = ref_final(spec, f1.matched, (f2.matched if paired else None), f1.last, (f2.last if paired else (lambda: None)))
    if not writes_ok(out, want, records):
        return False
    # written exactly once over the demultiplexed writers iff it passes (and is not an untrimmed read that is to be discarded)
    n_demux = sum(len(w.calls) for w in out.writers if w.paths in demux_paths)
    passes = filtered is None and want[0] == "write"
    if n_demux != (1 if passes else 0):
        return False

    if _PARAM.get("plain_argv"):
        # the same command without {name}: main output gets the read iff one demultiplexed file got it
        pcfg = config(_PARAM["plain_argv"])
        ppipe, pout = build_pipeline(pcfg)
        pinfo1 = info_with_matches(r1, found1)
        if paired:
            push_pair(ppipe._steps, r1, r2, pinfo1, info_with_matches(r2, found2))
        else:
            push_single(ppipe._steps, r1, pinfo1)
        main = [w for w in pout.writers if w.paths == tuple(_PARAM["plain_main"])]
        if len(main) != 1:
            return False
        plain_calls = main[0].calls
        demux_calls = [c for w in out.writers if w.paths in demux_paths for c in w.calls]
        if len(plain_calls) != len(demux_calls):
            return False
        for a, b in zip(plain_calls, demux_calls):
            if len(a) != len(b) or any(x is not y for x, y in zip(a, b)):
                return False
    return True


# ------------------------------------------------------------------------------------------ conditions
CONDITIONS = []


def _add(name, timeout=300, thorough_only=False, **kw):
    opt = option_set(**kw)
    p = {"argv": opt["argv"], "spec": opt["spec"], "length_filter": kw.get("m") is not None or kw.get("M") is not None}
    if kw.get("untrimmed") is None:
        plain = option_set(**dict(kw, demux=None))
        p["plain_argv"] = plain["argv"]
        p["plain_main"] = plain["spec"]["templates"]
    CONDITIONS.append({"name": name, "fn": "check_demux", "param": p, "timeout": timeout, "thorough_only": thorough_only})


_N3 = ("one", "two", "three")
_M3 = ("x", "y", "z")
for _u in (None, "discard", "output"):
    # single-end, {name}
    _add("single/3names/untrimmed=%s" % _u, paired=False, r1=_N3, demux="name", untrimmed=_u)
    _add("single/1name/untrimmed=%s" % _u, paired=False, r1=("solo",), demux="name", untrimmed=_u)
    _add("single/2names/-m/untrimmed=%s" % _u, paired=False, r1=("one", "two"), demux="name", untrimmed=_u, m="2", short_out=(_u != "discard"))
    # paired-end, {name}: the R1 adapter decides, R2 adapters (if any) do not
    _add("paired/3names/untrimmed=%s" % _u, r1=_N3, demux="name", untrimmed=_u)
    _add("paired/2names+R2/untrimmed=%s" % _u, r1=("one", "two"), r2=_M3, demux="name", untrimmed=_u)
    _add("paired/pair-adapters/untrimmed=%s" % _u, r1=("one", "two"), r2=("x", "y"), pair_adapters=True, demux="name", untrimmed=_u)
    _add("paired/2names/-m/mode=both/untrimmed=%s" % _u, mode="both", r1=("one", "two"), demux="name", untrimmed=_u, m="2:1", short_out=(_u == "output"))
    _add("paired/interleaved-in/2names/untrimmed=%s" % _u, r1=("one", "two"), r2=("x",), demux="name", untrimmed=_u, interleaved_input=True)
for _u in (None, "discard"):
    # paired-end, {name1} x {name2}
    _add("combi/3x3/untrimmed=%s" % _u, r1=_N3, r2=_M3, demux="combi", untrimmed=_u)
    _add("combi/2x1/untrimmed=%s" % _u, r1=("one", "two"), r2=("x",), demux="combi", untrimmed=_u)
    _add("combi/1x2/-M/untrimmed=%s" % _u, mode="first", r1=("solo",), r2=("x", "y"), demux="combi", untrimmed=_u, M="2", long_out=(_u is None))
    _add("combi/same-names/untrimmed=%s" % _u, r1=("one", "two"), r2=("one", "two"), demux="combi", untrimmed=_u)
# thorough tier: length filters in front of the larger name sets
for _u in (None, "discard", "output"):
    _add("paired/3names+R2/-m/-M/untrimmed=%s" % _u, thorough_only=True, timeout=2400, mode="any", r1=_N3, r2=_M3, demux="name", untrimmed=_u, m="1:2", M="2", short_out=True, long_out=True)
for _u in (None, "discard"):
    _add("combi/3x3/-m/untrimmed=%s" % _u, thorough_only=True, timeout=4000, mode="both", r1=_N3, r2=_M3, demux="combi", untrimmed=_u, m="2:1", short_out=True)


def describe():
    return {
        "functions": ["steps.py:Demultiplexer.__init__/_open_writers/__call__", "steps.py:PairedDemultiplexer.__init__/_open_writers/__call__", "steps.py:CombinatorialDemultiplexer.__init__/_open_writers/__call__",
                      "steps.py:SingleEndFilter.__call__, PairedEndFilter.__call__, SingleEndSink.__call__, PairedEndSink.__call__ (filters in front, main output of the command without {name})",
                      "cli.py:determine_demultiplex_mode, make_pipeline_from_args (demultiplexing branch and the plain branch), parse_lengths; get_argument_parser, determine_paired, check_arguments, adapters_from_args natively per option set",
                      "pipeline.py:SingleEndPipeline/PairedEndPipeline.process_reads (their step loops, re-stated in paired_common.push_single/push_pair)"],
        "bounds": {"option_sets": "%d command lines: single-end / paired {name} with 1..3 named adapters on R1 (with and without R2 adapters, --pair-adapters, interleaved input, a -m filter with and without --too-short-output) x no option / --discard-untrimmed / --untrimmed(-paired)-output; {name1}/{name2} with 1..3 x 1..3 names (also identical names on both sides, a -M filter) x no option / --discard-untrimmed" % len(CONDITIONS),
                   "read": "one read or pair per condition; per mate 0, 1 or 2 matches, first and last match out of the <= 3 adapters; length 0..3 where a length filter is present; pair id any int in 0..1e9"},
        "outside_bounds": ["more than 3 adapter names per side, unnamed adapters, adapters from FASTA files", "more than one read per run (covered by induction: the demultiplexers keep no state except counters and the writers opened up-front)",
                           "real files (dnaio/xopen), several cores (C06: proxied writers)", "counting of discarded pairs (C04; known defect: CombinatorialDemultiplexer with --discard-untrimmed drops pairs uncounted)",
                           "interleaved OUTPUT together with {name}: the command crashes while the pipeline is built (PairedDemultiplexer._open_writers: template2 is None) - reported separately, no condition",
                           "the modifiers that produce the matches (C09): which adapter matched last is a symbolic input here"],
        "stubs": ["RecOutfiles / RecordingWriter: cutadapt.files.OutputFiles as far as the builder uses it; writers record the tuples they are given", "PRec: dnaio.SequenceRecord contract (harness.e2_common.Rec) plus pair id and mate number",
                  "DummyMatch: a match of which only .adapter (a real adapter object of the option set, so its .name is the parsed name) is used"],
        "assumptions": ["CrossHair's model of str/int/list/dict operations", "only 'Confirmed over all paths' counts as discharged",
                        "a side for which no adapter was given never has a match", "info.matches lists the matches in the order in which they were found (C09/C10)"],
        "rule": "one CrossHair condition per command line; symbolic: number of matches and first/last matching adapter per mate, mate lengths, pair id. non-trivial = conditions with more than one explored path whose reachability twin is refuted",
    }


def jobs(tier, seed):
    return e2_jobs(CONDITIONS, tier)


def run_job(job):
    return e2_run_job(__name__, job)


def replay(cex):
    return e2_replay(cex)
