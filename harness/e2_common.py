"""Stubs and driver glue shared by the CrossHair (E2) harnesses.

Rule 1 of DESIGN 2.2: no symbolic value may cross a compiled boundary.  dnaio.SequenceRecord and the Cython
kernels are replaced by the small Python stand-ins below; a stand-in for a kernel / an adapter returns an
arbitrary value that satisfies the contract proved by the E1 checks (C01, C13, C14).
"""
import os
import sys

VERIF = os.path.dirname(os.path.dirname(os.path.abspath(__file__)))
if VERIF not in sys.path:
    sys.path.insert(0, VERIF)

from symx import build  # noqa: E402

build.activate()   # import cutadapt from the shadow build of the current tree

from cutadapt.adapters import (RemoveBeforeMatch, RemoveAfterMatch, Matchable, Adapter, SingleAdapter)  # noqa: E402

_COMP = str.maketrans("ACGTUMRWSYKVHDBNacgtumrwsykvhdbn", "TGCAAKYWSRMBDHVNtgcaakywsrmbdhvn")


def revcomp(s: str) -> str:
    return s.translate(_COMP)[::-1]


class Rec:
    """dnaio.SequenceRecord contract: slicing slices sequence and qualities together and keeps the name;
    len() is the sequence length; reverse_complement() reverses the qualities."""

    def __init__(self, name, sequence, qualities=None):
        self.name = name
        self.sequence = sequence
        self.qualities = qualities

    def __getitem__(self, key):
        if not isinstance(key, slice):
            raise TypeError("record indices must be slices")
        return Rec(self.name, self.sequence[key], self.qualities[key] if self.qualities is not None else None)

    def __len__(self):
        return len(self.sequence)

    def __repr__(self):
        return "Rec(%r, %r, %r)" % (self.name, self.sequence, self.qualities)

    def __eq__(self, other):
        return isinstance(other, Rec) and (self.name, self.sequence, self.qualities) == (other.name, other.sequence, other.qualities)

    def reverse_complement(self):
        return Rec(self.name, revcomp(self.sequence), self.qualities[::-1] if self.qualities is not None else None)

    @property
    def id(self):
        return self.name.split(None, 1)[0] if self.name else self.name

    @property
    def comment(self):
        parts = self.name.split(None, 1)
        return parts[1] if len(parts) > 1 else None

    def fastq_bytes(self):
        return ("@%s\n%s\n+\n%s\n" % (self.name, self.sequence, self.qualities)).encode()


def clamp(x: int, lo: int, hi: int) -> int:
    return lo if x < lo else (hi if x > hi else x)


class StubStats:
    def __init__(self):
        self.added = []
        self.reverse_complemented = 0

    def add_match(self, match):
        self.added.append(match)


class StubAdapter(Matchable):
    """An adapter whose match_to() returns programmed outcomes that satisfy the C01 contract for the sequence it is
    given: coordinates are clamped into the sequence, score/errors are arbitrary.  outcomes: list of
    None | (kind, x, y, score, errors) with kind 'before' (5': removes the part before the match) or 'after' (3').
    Outcome k answers the k-th call; calls beyond the list answer None.  Every call is recorded in .calls."""

    def __init__(self, name, outcomes, astop=5):
        super().__init__(name)
        self.outcomes = list(outcomes)
        self.calls = []
        self.astop = astop
        self.sequence = "A" * astop

    def match_to(self, sequence):
        k = len(self.calls)
        self.calls.append(sequence)
        if k >= len(self.outcomes) or self.outcomes[k] is None:
            return None
        kind, x, y, score, errors = self.outcomes[k]
        n = len(sequence)
        rstart = clamp(x, 0, n)
        rstop = clamp(y, rstart, n)
        cls = RemoveBeforeMatch if kind == "before" else RemoveAfterMatch
        return cls(0, self.astop, rstart, rstop, score, errors, adapter=self, sequence=sequence)

    def create_statistics(self):
        return StubStats()

    def enable_debug(self):
        pass

    def spec(self):
        return self.name

    def descriptive_identifier(self):
        return "stub"


# ---------------------------------------------------------------------------------- driver glue
def e2_jobs(conditions, tier):
    out = []
    for c in conditions:
        if tier == "quick" and c.get("thorough_only"):
            continue
        j = dict(c)
        if tier == "thorough" and "timeout_thorough" in c:
            j["timeout"] = c["timeout_thorough"]
        out.append(j)
    return out


def e2_run_job(modname, job):
    from symx import xhair
    return xhair.run_condition(modname, job)


def e2_replay(cex):
    from symx import xhair
    return xhair.replay_cex(cex)
