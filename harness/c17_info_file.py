"""C17 - the info file locates every match and reconstructs every read.

E2 (CrossHair on the real classes): InfoFileWriter.__call__, SingleMatch.get_info_records,
LinkedMatch.get_info_records, ModificationInfo, preceded by the real UnconditionalCutter (-u), the real
QualityTrimmer / NextseqQualityTrimmer over contract stubs of their kernels, the real AdapterCutter (or the real
ReverseComplementer around it) over stub adapters, the real LinkedAdapter.match_to / LinkedMatch, and followed by a
real filter step.  The rows are captured through a recording file object: print() hands over its pieces one write()
at a time and the pieces are compared positionally (no splitting of text).

Reference (from the statement): the read as read from the input - reverse-complemented with reversed qualities if
the row is flagged - is cut, match by match, into what the previous match left of it; a row must concatenate to
that, its middle field must be the stretch between the reported coordinates *and* the text the adapter was aligned
to (taken from the match object that the stub handed out: the slice of the text it was shown), the quality fields
must split at the same places.  Coordinates handed out by the stubs satisfy the C01 contract relative to the read
the adapter stage received.

Every condition is check_info (up to two matches) or check_info3 (three: a linked match followed by a single one)
with one concrete shape in `param`; the arguments are the symbolic inputs.
"""
from harness.e2_common import Rec, StubStats, clamp, revcomp, e2_jobs, e2_run_job, e2_replay
from harness.c16_revcomp import OrientedStub, RecFile, _conc

import cutadapt.modifiers
from cutadapt.adapters import LinkedAdapter, LinkedMatch
from cutadapt.modifiers import (AdapterCutter, ReverseComplementer, UnconditionalCutter, QualityTrimmer, NextseqQualityTrimmer)
from cutadapt.steps import InfoFileWriter, SingleEndFilter
from cutadapt.predicates import TooShort
from cutadapt.info import ModificationInfo

PROPERTY = "C17"
ENGINE = "crosshair"

_PARAM = {}

TEXT = "ACMRHV"           # distinct characters; its reverse complement BDYKGT uses a disjoint alphabet
QUALS = "fghijk"          # distinct characters
FWD_ALPHABET = "ACMRHV"
ROW = 24                  # pieces of one match row: 12 fields, 11 separators, newline

DEFAULT_RANGES = {"u": (-2, 2), "qs": (0, 2), "qb": (0, 2), "e0": (0, 1), "e1": (0, 1), "e2": (0, 1)}


def set_param(p):
    _PARAM.clear()
    _PARAM.update(p or {})


# ---------------------------------------------------------------------------------- kernel stubs (contracts: DESIGN 5)
_KERNEL = {"qs": 0, "qb": 0}


def _stub_quality_trim_index(qualities, cutoff_front, cutoff_back, base=33):
    """contract (C13): 0 <= start <= stop <= len"""
    n = len(qualities)
    start = clamp(_KERNEL["qs"], 0, n)
    stop = clamp(n - _KERNEL["qb"], start, n)
    return start, stop


def _stub_nextseq_trim_index(read, cutoff, base=33):
    """contract (C13): 0 <= index <= len"""
    n = len(read)
    return clamp(n - _KERNEL["qb"], 0, n)


class _Linked(LinkedAdapter):
    """The real LinkedAdapter (match_to, LinkedMatch); only the statistics object is a recorder, because the two parts are stubs."""

    def create_statistics(self):
        return StubStats()


# ---------------------------------------------------------------------------------- preconditions
def _rng(key):
    return (_PARAM.get("ranges") or {}).get(key, DEFAULT_RANGES[key])


def _n():
    return len(_PARAM.get("seq", TEXT[:5]))


def _nmatches():
    shape = _PARAM.get("shape", ("single", ("after",)))
    if shape[0] == "single":
        return len(shape[1])
    return 3 if shape[0] == "linked_then_single" else 2


def _pin(value, key):
    """Optional narrower range of one coordinate (param 'ranges', keys x0, y0, x1, y1, x2, y2); absent = any 0..len."""
    r = (_PARAM.get("ranges") or {}).get(key)
    return True if r is None else r[0] <= value <= r[1]


def _ranges(u, qs, qb, x0, y0, e0, x1, y1, e1):
    n = _n()
    if not (_rng("u")[0] <= u <= _rng("u")[1] and _rng("qs")[0] <= qs <= _rng("qs")[1] and _rng("qb")[0] <= qb <= _rng("qb")[1]):
        return False
    if not (0 <= x0 <= y0 <= n and _rng("e0")[0] <= e0 <= _rng("e0")[1] and _pin(x0, "x0") and _pin(y0, "y0")):
        return False
    return 0 <= x1 <= y1 <= n and _rng("e1")[0] <= e1 <= _rng("e1")[1] and _pin(x1, "x1") and _pin(y1, "y1")


def _ranges3(x2, y2, e2):
    return 0 <= x2 <= y2 <= _n() and _rng("e2")[0] <= e2 <= _rng("e2")[1] and _pin(x2, "x2") and _pin(y2, "y2")


def _entering_length(u, qs, qb):
    """Length of the read when it reaches the adapter stage (as the reference in _run computes it)."""
    n = _n()
    lo, hi = 0, n
    if u > 0:
        lo = min(u, n)
    elif u < 0:
        hi = max(n + u, 0)
    trimmer = _PARAM.get("trimmer", "quality") if _PARAM.get("quals", True) else None
    if trimmer is not None:
        m = hi - lo
        start = clamp(qs if trimmer == "quality" else 0, 0, m)
        stop = clamp(m - qb, start, m)
        lo, hi = lo + start, lo + stop
    return hi - lo


def _part(u, qs, qb, rc):
    """Partition of every shape: 'no5' = nothing was removed, before adapter trimming, from the 5' end of the
    orientation that the row shows; '5removed' = something was (the family of the known defect).  Without --revcomp and
    for reads without match there is no flag, so rc is pinned to False."""
    mode = _PARAM.get("mode", "plain")
    if mode == "plain" or _nmatches() == 0 or _PARAM.get("rc") is False:
        if rc:
            return False
    elif _PARAM.get("rc") is True:
        if not rc:
            return False
    part = _PARAM.get("part")
    if part is None:
        return True
    if mode == "revcomp" and _entering_length(u, qs, qb) == 0:
        # the orientation stubs recognise the orientation of a text by its first character: a read that is already empty
        # when it reaches the adapter stage cannot be given a match "in the reverse complement only" (outside the claim;
        # the -1 row of such reads is covered by the no_match conditions)
        return False
    if rc:
        removed5 = u < 0 or qb > 0     # 3' end of the read as given = 5' end of its reverse complement
    else:
        removed5 = u > 0 or qs > 0
    return removed5 == (part == "5removed")


# ---------------------------------------------------------------------------------- the check
def check_info(u: int, qs: int, qb: int, rc: bool, x0: int, y0: int, e0: int, x1: int, y1: int, e1: int) -> bool:
    """
    pre: _ranges(u, qs, qb, x0, y0, e0, x1, y1, e1)
    pre: _part(u, qs, qb, rc)
    post: _
    """
    return _run(u, qs, qb, rc, x0, y0, e0, x1, y1, e1, 0, 0, 0)


def check_info3(u: int, qs: int, qb: int, rc: bool, x0: int, y0: int, e0: int, x1: int, y1: int, e1: int, x2: int, y2: int, e2: int) -> bool:
    """
    pre: _ranges(u, qs, qb, x0, y0, e0, x1, y1, e1)
    pre: _ranges3(x2, y2, e2)
    pre: _part(u, qs, qb, rc)
    post: _
    """
    return _run(u, qs, qb, rc, x0, y0, e0, x1, y1, e1, x2, y2, e2)


def _run(u, qs, qb, rc, x0, y0, e0, x1, y1, e1, x2, y2, e2):
    seq = _PARAM.get("seq", TEXT[:5])
    n = len(seq)
    has_quals = _PARAM.get("quals", True)
    quals = QUALS[:n] if has_quals else None
    mode = _PARAM.get("mode", "plain")                    # 'plain' | 'revcomp'
    # ('single', kinds) | ('linked', front present, back present) | ('linked_then_single', front present, back present, kind of the round-2 match)
    shape = _PARAM.get("shape", ("single", ("after",)))
    times = _PARAM.get("times", 1)
    trimmer = _PARAM.get("trimmer", "quality")            # 'quality' | 'nextseq' | None
    if not has_quals:
        trimmer = None
    name = "read1 c"

    u = _conc(u, _rng("u")[0], _rng("u")[1])
    qs = _conc(qs, _rng("qs")[0], _rng("qs")[1]) if trimmer == "quality" else 0
    qb = _conc(qb, _rng("qb")[0], _rng("qb")[1]) if trimmer is not None else 0
    rc = True if rc else False
    o = "r" if rc else "f"

    # ---- programme of the adapter stubs (all numbers are made concrete first: print() would otherwise realise them one by
    # one, which costs CrossHair a fork per field); every match has score 1, so the flagged orientation wins (or the forward one, rc False)
    coords = ((x0, y0, e0), (x1, y1, e1))
    shared = {"cur": "f"}
    programme = []                                        # (kind, x, y, errors, adapter name in the row)
    if shape[0] == "single":
        kinds = shape[1]
        for k, kind in enumerate(kinds):
            x, y, e = coords[k]
            programme.append((kind, _conc(x, 0, n), _conc(y, 0, n), _conc(e, _rng("e%d" % k)[0], _rng("e%d" % k)[1]), "ad1"))
        stub = OrientedStub("ad1", {o: [(kind, x, y, 1, e) for kind, x, y, e, _ in programme]}, fwd_alphabet=FWD_ALPHABET, shared=shared)
        adapters = [stub]
    else:
        fp, bp = shape[1], shape[2]
        if fp:
            programme.append(("before", _conc(x0, 0, n), _conc(y0, 0, n), _conc(e0, _rng("e0")[0], _rng("e0")[1]), "L;1"))
        if bp:
            programme.append(("after", _conc(x1, 0, n), _conc(y1, 0, n), _conc(e1, _rng("e1")[0], _rng("e1")[1]), "L;2"))
        nl = len(programme)
        front = OrientedStub("Lf", {o: [("before", programme[0][1], programme[0][2], 1, programme[0][3])] if fp else [None]}, fwd_alphabet=FWD_ALPHABET, shared=shared)
        back = OrientedStub("Lb", {o: [("after", programme[nl - 1][1], programme[nl - 1][2], 1, programme[nl - 1][3])] if bp else [None]}, fwd_alphabet=FWD_ALPHABET, shared=shared)
        adapters = [_Linked(front, back, front_required=fp, back_required=bp, name="L")]
        if shape[0] == "linked_then_single":
            # round 1: only the linked adapter answers; round 2: only the single adapter (both stubs of the linked one are exhausted)
            kind2 = shape[3]
            programme.append((kind2, _conc(x2, 0, n), _conc(y2, 0, n), _conc(e2, _rng("e2")[0], _rng("e2")[1]), "ad2"))
            adapters.append(OrientedStub("ad2", {o: [None, (kind2, programme[nl][1], programme[nl][2], 1, programme[nl][3])]}, fwd_alphabet=FWD_ALPHABET, shared=shared))

    # ---- the real modifiers in the order of the pipeline: -u, quality trimming, adapter trimming (with or without --revcomp)
    _KERNEL["qs"] = qs
    _KERNEL["qb"] = qb
    cutadapt.modifiers.quality_trim_index = _stub_quality_trim_index
    cutadapt.modifiers.nextseq_trim_index = _stub_nextseq_trim_index
    modifiers = []
    if u != 0:                                            # cli.make_unconditional_cutters skips 0
        modifiers.append(UnconditionalCutter(u))
    if trimmer == "quality":
        modifiers.append(QualityTrimmer(20, 20, 33))
    elif trimmer == "nextseq":
        modifiers.append(NextseqQualityTrimmer(20, 33))
    cutter = AdapterCutter(adapters, times=times, action=_PARAM.get("action", "trim"), index=False)
    modifiers.append(ReverseComplementer(cutter) if mode == "revcomp" else cutter)
    f = RecFile()
    writer = InfoFileWriter(f)
    steps = [writer, SingleEndFilter(TooShort(_PARAM.get("minimum_length", 3)), None)]

    read = Rec(name, seq, quals)
    info = ModificationInfo(read)                         # as in SingleEndPipeline.process_reads
    filtered = False
    for step in modifiers + steps:
        before = read
        read = step(read, info)
        if step is writer and read is not before:
            return False                                  # the writer passes the read on (it does not filter)
        if read is None:
            filtered = True
            break
    p = f.pieces

    # ---- reference, from the statement
    want_name = name + " rc" if rc else name
    lo, hi = 0, n                                         # what the adapter stage received, in the frame of the input read
    if u > 0:
        lo = min(u, n)
    elif u < 0:
        hi = max(n + u, 0)
    if trimmer is not None:
        m = hi - lo
        start = clamp(qs, 0, m)
        stop = clamp(m - qb, start, m)
        lo, hi = lo + start, lo + stop
    base_seq = revcomp(seq) if rc else seq               # the read as read from the input, re-oriented if flagged
    base_quals = (quals[::-1] if rc else quals) if has_quals else None
    cur_lo, cur_hi = (n - hi, n - lo) if rc else (lo, hi)  # the adapter stage's current read, in the frame of base_seq
    left_lo, left_hi = 0, n                               # what the previous match left of the input read
    found = [m_ for m_ in info.matches]
    parts = []                                            # the single matches in the order found
    for m_ in found:
        if isinstance(m_, LinkedMatch):
            parts.extend(x for x in (m_.front_match, m_.back_match) if x is not None)
        else:
            parts.append(m_)
    if len(parts) != len(programme):
        return False                                      # every programmed match is found (the stubs are asked once per round)
    if len(parts) == 0:
        # a single row with -1
        return len(p) == 8 and p[0] == want_name and p[2] == "-1" and p[7] == "\n" and p[1] == "\t"
    if len(p) != ROW * len(parts):
        return False                                      # one row per match, nothing else
    # Two references are followed row by row: the statement (prop_ok) and - only where the partition is '5removed' and the
    # condition is not 'strict' - the exact output of the listed known defect (sig_ok: the writer slices the re-oriented
    # input read at the coordinates of the match as they are, i.e. relative to the read the adapter stage received, and
    # cuts its own copy at the same unshifted coordinates for the next row).  Everything the defect does not touch (row
    # count, separators, name, error count, adapter name, flag, the match objects) is required in both.
    accept_known = _PARAM.get("part") == "5removed" and not _PARAM.get("strict")
    prop_ok, sig_ok = True, accept_known
    bug_lo, bug_hi = 0, n
    for k, (kind, x, y, e, adapter_name) in enumerate(programme):
        r = p[ROW * k: ROW * (k + 1)]
        if r[23] != "\n" or any(r[i] != "\t" for i in range(1, 23, 2)):
            return False
        m = cur_hi - cur_lo
        rs = clamp(x, 0, m)
        re_ = clamp(y, rs, m)
        aligned = base_seq[cur_lo + rs: cur_lo + re_]
        part = parts[k]
        if part.sequence[part.rstart:part.rstop] != aligned or part.errors != e:
            return False                                  # (the stub was shown what the reference expects: harness self-check)
        start, stop = int(r[4]), int(r[6])
        if r[0] != want_name or r[2] != str(e) or r[14] != adapter_name:
            return False
        if r[22] != (("1" if rc else "0") if mode == "revcomp" else ""):
            return False
        if not has_quals and (r[16] != "" or r[18] != "" or r[20] != ""):
            return False
        # -- the statement
        if prop_ok:
            left = base_seq[left_lo:left_hi]
            if r[8] + r[10] + r[12] != left:
                prop_ok = False                           # the three sequence fields concatenate to what was left
            elif len(r[8]) != start or len(r[8]) + len(r[10]) != stop:
                prop_ok = False                           # the middle field is the stretch between the reported coordinates
            elif r[10] != aligned:
                prop_ok = False                           # ... and it is the stretch that was aligned
            elif has_quals and (r[16] + r[18] + r[20] != base_quals[left_lo:left_hi] or len(r[16]) != len(r[8]) or len(r[18]) != len(r[10])):
                prop_ok = False                           # qualities split at the same coordinates
        # -- the listed defect, exactly
        if sig_ok:
            bug = base_seq[bug_lo:bug_hi]
            if start != rs or stop != re_ or r[8] != bug[:rs] or r[10] != bug[rs:re_] or r[12] != bug[re_:]:
                sig_ok = False
            elif has_quals:
                bq = base_quals[bug_lo:bug_hi]
                if r[16] != bq[:rs] or r[18] != bq[rs:re_] or r[20] != bq[re_:]:
                    sig_ok = False
        if not prop_ok and not sig_ok:
            return False
        if kind == "before":
            cur_lo = cur_lo + re_
            left_lo = cur_lo
            bug_lo = bug_lo + re_
        else:
            cur_hi = cur_lo + rs
            left_hi = cur_hi
            bug_hi = bug_lo + rs
    return True


# ---------------------------------------------------------------------------------- a row for every read, also for reads that a filter consumes
from harness import pipeline_common as pc     # noqa: E402  (the real make_pipeline_from_args against recording output files, as C11)


class _RowMatch(pc.DummyMatch):
    """a match that contributes exactly one info row (the content of rows is what the conditions above decide)"""

    def get_info_records(self, read):
        return [["", 0, 0, 1, "", "A", "", self.adapter.name, "", "", ""]]


class _RowMatches(pc.LazyMatches):
    def _materialise(self):
        if self._pending:
            self._pending = False
            if self._flag:
                list.append(self, _RowMatch(self._name))


ROW_SPECS = [pc.Spec(adapters="1", m="2", M="3", max_n=1.0, max_ee=1.0, max_aer=0.5, casava=True, last=_last, aux=True)
             for _last in (None, "discard_trimmed", "discard_untrimmed", "untrimmed_output")]
ROW_SPECS.append(pc.Spec(adapters="1", casava=True, aux=True))
ROW_SPECS.append(pc.Spec(adapters="1", m="2", ts_out=True, M="3", tl_out=True, aux=True))


def _row_hi(k):
    return len(pc.tables_for(ROW_SPECS[_PARAM.get("set", 0)])[k]) - 1


def check_row_for_every_read(t: int, c: int, e: int, mt: bool) -> bool:
    """
    pre: 0 <= t <= _row_hi("t") and 0 <= c <= _row_hi("c") and 0 <= e <= _row_hi("e")
    post: _
    """
    # The pipeline is built by the real cli.make_pipeline_from_args from '--info-file ... <every filter option>'; one read
    # with symbolic length / N count / CASAVA flag / expected errors / adapter found runs through the real process_reads
    # loop.  Whatever filter consumes it (or none): the info file has received exactly one row for it (one match, or the
    # single -1 row), and the rest and wildcard files were reached as well.
    spec = ROW_SPECS[_PARAM.get("set", 0)]
    tables = pc.tables_for(spec)
    built = pc.build(spec.argv())
    f = pc.Features(t, c, e, mt, spec.names(1)[0], tables)
    f.matches = _RowMatches(mt, spec.names(1)[0])
    read = pc.LazyRec(f)
    n, bp1, bp2 = built.run([read], pc.MatchSetter1(f))
    if n != 1:
        return False
    info = [x for x in built.outfiles.texts if x.path == "info.tsv"]
    if len(info) != 1:
        return False
    return info[0].lines == 1


# ---------------------------------------------------------------------------------- conditions
CONDITIONS = []


def _add(name, param, parts=("no5", "5removed"), timeout=300, thorough_only=False):
    for part in parts:
        p = dict(param)
        if part is not None:
            p["part"] = part
        CONDITIONS.append({"name": name + ("/" + part if part else ""), "fn": "check_info", "param": p, "timeout": timeout, "thorough_only": thorough_only})


_ONE = {"e1": (0, 0)}
_TWO = {"u": (-1, -1), "qs": (0, 0), "qb": (0, 0), "e0": (0, 0), "e1": (1, 1)}      # quick: one base removed at the 3' end by -u
_TWO0 = {"u": (-1, 0), "qs": (0, 0), "qb": (0, 0), "e1": (1, 1)}
_TWO5 = {"u": (0, 1), "qs": (0, 1), "qb": (0, 0), "e0": (1, 1), "e1": (0, 0)}

# reads without match: a single -1 row, whatever was removed before
_add("plain/no_match", {"mode": "plain", "shape": ("single", ()), "ranges": _ONE}, parts=(None,))
_add("revcomp/no_match", {"mode": "revcomp", "shape": ("single", ()), "ranges": _ONE}, parts=(None,))
# one match, everything before the adapter stage symbolic
for _kind in ("before", "after"):
    _add("plain/one_match/%s" % _kind, {"mode": "plain", "shape": ("single", (_kind,)), "ranges": _ONE})
    _add("revcomp/one_match/%s" % _kind, {"mode": "revcomp", "shape": ("single", (_kind,)), "ranges": _ONE}, timeout=600)
_add("plain/one_match/after/nextseq", {"mode": "plain", "shape": ("single", ("after",)), "trimmer": "nextseq", "ranges": _ONE})
_add("plain/one_match/before/fasta", {"mode": "plain", "shape": ("single", ("before",)), "quals": False, "ranges": dict(_ONE, qs=(0, 0), qb=(0, 0))})
_add("plain/one_match/after/times=2/len6", {"mode": "plain", "shape": ("single", ("after",)), "times": 2, "seq": TEXT, "ranges": dict(_ONE, qb=(0, 1))}, parts=("no5",))
_add("plain/one_match/before/action=none", {"mode": "plain", "shape": ("single", ("before",)), "action": None, "ranges": dict(_ONE, u=(-1, 1), qb=(0, 1), qs=(0, 1))})
# two rounds
for _kinds in (("before", "after"), ("after", "before"), ("before", "before"), ("after", "after")):
    _nm = "".join(k[0] for k in _kinds)
    _add("plain/two_rounds/%s" % _nm, {"mode": "plain", "shape": ("single", _kinds), "times": 2, "ranges": _TWO}, parts=("no5",))
_add("plain/two_rounds/ba", {"mode": "plain", "shape": ("single", ("before", "after")), "times": 2, "ranges": _TWO5}, parts=("5removed",))
_add("revcomp/two_rounds/ba/rc", {"mode": "revcomp", "rc": True, "shape": ("single", ("before", "after")), "times": 2, "ranges": dict(_TWO, u=(1, 1))}, parts=("no5",))
_add("revcomp/two_rounds/ab/forward", {"mode": "revcomp", "rc": False, "shape": ("single", ("after", "before")), "times": 2, "ranges": _TWO}, parts=("no5",))
# linked adapters
for _fp, _bp in ((True, True), (True, False), (False, True)):
    _add("plain/linked/front=%s/back=%s" % (_fp, _bp), {"mode": "plain", "shape": ("linked", _fp, _bp), "ranges": _TWO if _fp and _bp else dict(_ONE, e1=(0, 1))}, parts=("no5",))
_add("plain/linked/front=True/back=True", {"mode": "plain", "shape": ("linked", True, True), "ranges": _TWO5}, parts=("5removed",))
_add("revcomp/linked/front=True/back=True/rc", {"mode": "revcomp", "rc": True, "shape": ("linked", True, True), "ranges": dict(_TWO, u=(1, 1))}, parts=("no5",))
# a linked match in round 1, a single match in round 2 (--times 2): rows ;1, ;2, then the row of round 2, each cut from what the previous match left.
# Quick: the two coordinates of the linked match that do not decide what is left (start of the 5' part, end of the 3' part) are pinned.
_LTS = dict(_TWO, e2=(0, 0), x0=(0, 0), y1=(5, 5))
for _kind2 in ("before", "after"):
    CONDITIONS.append({"name": "plain/linked_then_single/front=True/back=True/%s/no5" % _kind2, "fn": "check_info3", "timeout": 600,
                       "param": {"mode": "plain", "shape": ("linked_then_single", True, True, _kind2), "times": 2, "ranges": _LTS, "part": "no5"}})
CONDITIONS.append({"name": "plain/linked_then_single/front=True/back=False/after/no5", "fn": "check_info3", "timeout": 600,
                   "param": {"mode": "plain", "shape": ("linked_then_single", True, False, "after"), "times": 2, "ranges": dict(_TWO, e2=(0, 0)), "part": "no5"}})
CONDITIONS.append({"name": "plain/linked_then_single/front=False/back=True/before/no5", "fn": "check_info3", "timeout": 600,
                   "param": {"mode": "plain", "shape": ("linked_then_single", False, True, "before"), "times": 2, "ranges": dict(_TWO, e2=(0, 0)), "part": "no5"}})
CONDITIONS.append({"name": "revcomp/linked_then_single/front=True/back=True/after/rc/no5", "fn": "check_info3", "timeout": 600,
                   "param": {"mode": "revcomp", "rc": True, "shape": ("linked_then_single", True, True, "after"), "times": 2, "ranges": dict(_LTS, u=(1, 1)), "part": "no5"}})
CONDITIONS.append({"name": "plain/linked_then_single/front=True/back=True/after/len4_all_coordinates/no5", "fn": "check_info3", "timeout": 3000, "thorough_only": True,
                   "param": {"mode": "plain", "seq": TEXT[:4], "shape": ("linked_then_single", True, True, "after"), "times": 2, "ranges": dict(_TWO, e2=(0, 0)), "part": "no5"}})
# thorough: wider pre-trimming for two rounds / linked
_WIDE = {"u": (-2, 0), "qs": (0, 0), "qb": (0, 1), "e1": (1, 1)}
for _kinds in (("before", "after"), ("after", "before")):
    _add("plain/two_rounds/%s/wide" % "".join(k[0] for k in _kinds), {"mode": "plain", "shape": ("single", _kinds), "times": 2, "ranges": _WIDE}, parts=("no5",), timeout=1500, thorough_only=True)
_add("plain/linked/front=True/back=True/wide", {"mode": "plain", "shape": ("linked", True, True), "ranges": _WIDE}, parts=("no5",), timeout=1500, thorough_only=True)
_add("revcomp/two_rounds/ab/rc", {"mode": "revcomp", "rc": True, "shape": ("single", ("after", "before")), "times": 2, "ranges": dict(_TWO0, u=(0, 1))}, parts=("no5",), timeout=1500, thorough_only=True)
for _kinds in (("before", "before"), ("after", "after")):
    _add("plain/two_rounds/%s/u=-1..0" % "".join(k[0] for k in _kinds), {"mode": "plain", "shape": ("single", _kinds), "times": 2, "ranges": _TWO0}, parts=("no5",), timeout=1500, thorough_only=True)
_add("plain/one_match/after/len6", {"mode": "plain", "shape": ("single", ("after",)), "seq": TEXT, "ranges": _ONE}, parts=("no5",), timeout=1500, thorough_only=True)
# thorough, family of the listed defect: the other kind sequences, a linked match followed by a single one, the flagged orientation
for _kinds in (("after", "before"), ("before", "before"), ("after", "after")):
    _add("plain/two_rounds/%s" % "".join(k[0] for k in _kinds), {"mode": "plain", "shape": ("single", _kinds), "times": 2, "ranges": _TWO5}, parts=("5removed",), timeout=1500, thorough_only=True)
_add("revcomp/two_rounds/ba/rc", {"mode": "revcomp", "rc": True, "shape": ("single", ("before", "after")), "times": 2, "ranges": dict(_TWO, u=(-1, -1))}, parts=("5removed",), timeout=1500, thorough_only=True)
_add("revcomp/two_rounds/ab/rc", {"mode": "revcomp", "rc": True, "shape": ("single", ("after", "before")), "times": 2, "ranges": dict(_TWO, u=(-1, -1))}, parts=("5removed",), timeout=1500, thorough_only=True)
_add("revcomp/linked/front=True/back=True/rc", {"mode": "revcomp", "rc": True, "shape": ("linked", True, True), "ranges": dict(_TWO, u=(-1, -1))}, parts=("5removed",), timeout=1500, thorough_only=True)
for _kind2 in ("before", "after"):
    CONDITIONS.append({"name": "plain/linked_then_single/front=True/back=True/%s/5removed" % _kind2, "fn": "check_info3", "timeout": 1500, "thorough_only": True,
                       "param": {"mode": "plain", "shape": ("linked_then_single", True, True, _kind2), "times": 2, "ranges": dict(_LTS, u=(1, 1)), "part": "5removed"}})
CONDITIONS.append({"name": "plain/linked_then_single/front=False/back=True/before/5removed", "fn": "check_info3", "timeout": 1500, "thorough_only": True,
                   "param": {"mode": "plain", "shape": ("linked_then_single", False, True, "before"), "times": 2, "ranges": dict(_TWO, u=(1, 1), e2=(0, 0)), "part": "5removed"}})


for _i in range(len(ROW_SPECS)):
    CONDITIONS.append({"name": "row_for_every_read/%s" % " ".join(ROW_SPECS[_i].argv()), "fn": "check_row_for_every_read", "timeout": 900, "param": {"set": _i}})


def describe():
    return {
        "functions": ["steps.py:InfoFileWriter.__call__", "adapters.py:SingleMatch.get_info_records", "adapters.py:LinkedMatch.get_info_records/trimmed", "info.pyx:ModificationInfo (compiled container, stores objects only)",
                      "modifiers.py:UnconditionalCutter.__call__", "modifiers.py:QualityTrimmer.__call__ / NextseqQualityTrimmer.__call__ (kernels stubbed)", "modifiers.py:AdapterCutter.__call__/match_and_trim",
                      "modifiers.py:ReverseComplementer.__call__", "adapters.py:LinkedAdapter.match_to", "adapters.py:RemoveBeforeMatch/RemoveAfterMatch.trimmed", "steps.py:SingleEndFilter.__call__ + predicates.py:TooShort (a later filter)", "cli.py:make_pipeline_from_args (order of the info/rest/wildcard writers and every filter step) + pipeline.py:SingleEndPipeline.process_reads, for the row_for_every_read conditions"],
        "bounds": {"read": "fixed text ACMRH (5; ACMRHV in two conditions), distinct characters, distinct quality characters; FASTA input (no qualities) in one shape",
                   "-u": "-2..2 (0 = option absent), symbolic", "quality trimming": "0..2 bases at the 5' end and 0..2 at the 3' end, symbolic (arbitrary value of the kernel's contract); --nextseq-trim 0..2",
                   "matches": "none; one 5' or 3' match; two rounds (--times 2) of every kind sequence; one linked match (both parts, 5' part only, 3' part only); a linked match (both parts / one part) in round 1 followed by a single 5' or 3' match in round 2",
                   "linked_then_single": "quick: -u -1 (or 1 with the flag set), start of the 5' part pinned to 0 and end of the 3' part pinned to the end of the text when both parts are present, error counts pinned; thorough: all six coordinates symbolic on a 4-base read",
                   "coordinates": "every 0 <= start <= stop <= len(read) symbolic, clamped by the stub into the text it is shown (C01 contract relative to the read the adapter stage received)",
                   "errors": "0..1 symbolic per match (one of the two pinned in two-match shapes)", "revcomp": "orientation flag symbolic (one-match shapes) or per condition",
                   "two-match shapes": "quick: -u -1 (no5; -u 1 under --revcomp with the flag set) resp. -u in {0,1} with 5' quality trimming 0..1 (5removed); thorough: -u -2..0 and 3' quality trimming 0..1"},
        "outside_bounds": ["reads longer than 6, more than two rounds", "under --revcomp: matches on a read that is already empty when it reaches the adapter stage (the orientation stubs tell the orientations apart by the first character)", "paired-end info files (R1 only is written)", "the sequence/quality columns of the -1 row (the statement only asks for the row)"],
        "stubs": ["OrientedStub (harness.c16_revcomp): match_to returns an arbitrary match whose coordinates lie inside the text it is shown (C01), programmed for the forward text or for its reverse complement",
                  "quality_trim_index stub: any 0 <= start <= stop <= len (C13 contract)", "nextseq_trim_index stub: any 0 <= index <= len (C13 contract)",
                  "_Linked: real LinkedAdapter with a recording statistics object", "Rec: dnaio.SequenceRecord contract", "RecFile: records print()'s pieces"],
        "assumptions": ["CrossHair's model of str/int/list operations", "only 'Confirmed over all paths' counts as discharged",
                        "every shape is split into 'no5' (nothing removed from the 5' end of the orientation shown before adapter trimming: the statement must hold) and '5removed' (the family of the listed known defect: every output must be what the statement asks for or, field by field, exactly the output of the listed defect - coordinates relative to the read the adapter stage received applied to the re-oriented input read; anything else is a violation)"],
        "rule": "one CrossHair condition per (plain/revcomp, match shape incl. linked-then-single, --times, trimmer, partition); symbolic: -u, quality-trim indices, orientation flag, match coordinates, error counts. non-trivial = conditions with more than one explored path whose reachability twin is refuted",
    }


def known_match(entry, cex):
    """The listed defect is recognised inside the conditions (by its exact output, see _run): a '5removed' condition holds if
    every output is either what the statement asks for or exactly the output of the listed defect.  A counterexample of any
    condition is therefore never the listed finding."""
    return False


def jobs(tier, seed):
    return e2_jobs(CONDITIONS, tier)


def run_job(job):
    return e2_run_job(__name__, job)


def replay(cex):
    return e2_replay(cex)
