"""C19 (second sentence only) - the output format is determined by the output file name.

  "The output format is determined by the output file name (.fasta/.fa versus .fastq/.fq, before any compression
   suffix) or --fasta for standard output, falling back to the input format, identically for every compression suffix
   and every number of cores."

E2 (CrossHair on the real code): files.py OutputFiles.open_record_writer / open_stdout_record_writer and
ProxyRecordWriter (what several cores use), driving the real dnaio.open -> _open_single / _open_file_or_path /
_detect_format_from_name (pure Python of the installed dnaio; executed, not modelled) with the output path a partly
SYMBOLIC string: a symbolic stem (1..2 characters over a small alphabet), a symbolic choice of the format extension and of
the compression suffix.  Also symbolic: one core / several (proxied), whether the input has qualities, --fasta, the
layout (one file / two files / interleaved).

Environment: FileOpener.xopen is a stub that returns a byte sink.  What the real xopen returns differs by container and
thread count - a plain file exposes its path as .name (io contract), a compressed writer exposes the path, an empty
string or no name at all, depending on the library (igzip, bz2, lzma, piped program) - and nothing in xopen's contract
promises a name.  The stub therefore takes the name behaviour as a symbolic input, restricted to the behaviours that the
xopen INSTALLED HERE shows for that suffix (probed at import, threads 0/1/4) so that every counterexample can be
realised: replay() re-runs the counterexample with the real FileOpener, the real xopen and a real temporary file, and
reads the file back.

The format actually produced is observed by writing one record through the writer and looking at the first byte that
reaches the sink (">" or "@").

The first sentence of C19 (same records for every container / layout) is outside this check: it is computed by
xopen/zlib/isal/zstd/dnaio compiled code on OS files (DESIGN section 12).
"""
import io
import os
import shutil
import tempfile

from harness.e2_common import e2_jobs, e2_run_job, e2_replay, VERIF

import dnaio
import cutadapt.files
from cutadapt.files import OutputFiles, FileOpener

PROPERTY = "C19"
ENGINE = "crosshair"

_PARAM = {}

EXTS = [".fasta", ".fa", ".fastq", ".fq", ".txt", ""]
COMPS = ["", ".gz", ".bz2", ".xz", ".zst"]
NAME_BEHAVIOURS = ["path", "empty", "none"]       # what the writer object exposes as .name
STEM_ALPHABET = "aQ._-"
LAYOUTS = ["single", "two_files", "interleaved"]


def set_param(p):
    _PARAM.clear()
    _PARAM.update(p or {})


# ---------------------------------------------------------------------------------- environment probe
def _behaviour(f):
    if hasattr(f, "name") and isinstance(f.name, str):
        return "path" if f.name != "" else "empty"
    return "none"


def probe_environment():
    """-> {compression suffix: {behaviour: threads that shows it}} for the xopen installed here"""
    from xopen import xopen
    env = {}
    d = tempfile.mkdtemp(prefix="c19probe", dir=_scratch())
    try:
        for comp in COMPS:
            seen = {}
            for threads in (0, 1, 4):
                path = os.path.join(d, "p.fasta" + comp)
                try:
                    f = xopen(path, "wb", threads=threads)
                except Exception:  # noqa  (a container that cannot be written here)
                    continue
                b = _behaviour(f)
                if b == "path" and f.name != path:
                    b = "none"
                seen.setdefault(b, threads)
                try:
                    f.close()
                except Exception:  # noqa
                    pass
            env[comp] = seen
    finally:
        shutil.rmtree(d, ignore_errors=True)
    return env


def _scratch():
    d = os.path.join(VERIF, ".cache", "c19tmp")
    os.makedirs(d, exist_ok=True)
    return d


ENV = probe_environment()


# ---------------------------------------------------------------------------------- stubs
class Sink:
    """A binary writer as xopen hands it out; .name as programmed."""

    def __init__(self, path, behaviour):
        self.data = []
        self.closed = False
        if behaviour == "path":
            self.name = path
        elif behaviour == "empty":
            self.name = ""

    def write(self, b):
        self.data.append(bytes(b))
        return len(b)

    def flush(self):
        pass

    def close(self):
        self.closed = True

    def first_byte(self):
        for b in self.data:
            if len(b) > 0:
                return b[:1]
        return b""


class StubOpener:
    """FileOpener contract: xopen(path, 'wb') -> a binary writer; dnaio_open = the real dnaio.open with this opener."""

    def __init__(self, behaviour):
        self.behaviour = behaviour
        self.sinks = []

    def xopen(self, path, mode):
        s = Sink(path, self.behaviour)
        self.sinks.append(s)
        return s

    def dnaio_open(self, *args, **kwargs):
        kwargs["opener"] = self.xopen
        return dnaio.open(*args, **kwargs)


class _FakeStdout:
    def __init__(self, sink):
        self.buffer = sink


class _FakeSys:
    def __init__(self, sink):
        self.stdout = _FakeStdout(sink)


# ---------------------------------------------------------------------------------- reference (from the statement)
def ref_format(ext, qualities):
    if ext in (".fasta", ".fa"):
        return "fasta"
    if ext in (".fastq", ".fq"):
        return "fastq"
    return "fastq" if qualities else "fasta"      # falling back to the input format


def _record(qualities, name="r"):
    return dnaio.SequenceRecord(name, "ACGT", "IIII" if qualities else None)


def _observe(first):
    return {b">": "fasta", b"@": "fastq"}.get(first, "nothing")


# ---------------------------------------------------------------------------------- the checks
def _conc(x, lo, hi):
    """Identity on lo..hi that hands back a concrete int (explicit forks)."""
    for v in range(lo, hi):
        if x == v:
            return v
    return hi


def _stem_ok(stem, max_len):
    if not (1 <= len(stem) <= max_len):
        return False
    if not all(c in STEM_ALPHABET for c in stem):
        return False
    if all(c == "." for c in stem):
        return False                               # '..fa' is a hidden file named '.fa' without extension (os.path.splitext): not a '.fa' name
    return True


def _pre_str(stem, beh_i):
    """check_file: extension, compression suffix and layout are fixed by the condition; the stem is a symbolic string"""
    if not (0 <= beh_i < len(NAME_BEHAVIOURS)):
        return False
    if not _stem_ok(stem, _PARAM.get("max_stem", 1)):
        return False
    if stem + _PARAM["ext"] + _PARAM["comp"] == "-":
        return False                               # "-" is standard output: check_stdout
    return NAME_BEHAVIOURS[beh_i] in ENV.get(_PARAM["comp"], {})     # only behaviours that the installed xopen shows for this suffix


def _pre_idx(s0, s1, n, ext_i, comp_i, beh_i):
    """check_file_idx: the path is assembled from symbolic indices (concrete text on every path)"""
    k = len(STEM_ALPHABET)
    if not (0 <= s0 < k and 0 <= s1 < k and 1 <= n <= _PARAM.get("max_n", 2)):
        return False
    if n == 1 and s1 != 0:
        return False
    if not (0 <= ext_i < len(EXTS) and 0 <= comp_i < len(COMPS) and 0 <= beh_i < len(NAME_BEHAVIOURS)):
        return False
    return True


def _formats_written(stem, ext, comp, beh, proxied, qualities, force_fasta, layout):
    """-> the formats that reach the output file(s), or None if the number of files is wrong"""
    path = stem + ext + comp
    opener = StubOpener(beh)
    outfiles = OutputFiles(proxied=proxied, qualities=qualities, interleaved=(layout == "interleaved"), file_opener=opener)
    if layout == "two_files":
        paths = (path, stem + "2" + ext + comp)
    else:
        paths = (path,)
    writer = outfiles.open_record_writer(*paths, interleaved=(layout == "interleaved"), force_fasta=force_fasta)
    if layout == "single":
        writer.write(_record(qualities))
    else:
        writer.write(_record(qualities, "r"), _record(qualities, "r"))
    if proxied:
        firsts = [c[:1] for c in writer.drain()]
    else:
        writer.close()
        firsts = [s.first_byte() for s in opener.sinks]
    if len(firsts) != len(paths):
        return None
    return [_observe(f) for f in firsts]


CASES = ["lower", "UPPER", "Capitalised"]


def _cased(ext, case):
    if case == "UPPER":
        return ext.upper()
    if case == "Capitalised":
        return ext[:1] + ext[1:2].upper() + ext[2:]
    return ext


def check_same_for_every_container_and_core_count(s0: int, ext_i: int, case_i: int, comp_i: int, beh_i: int, proxied: bool) -> bool:
    """
    pre: 0 <= s0 < len(STEM_ALPHABET) and 0 <= ext_i <= 3 and 0 <= case_i < len(CASES) and 0 <= comp_i < len(COMPS) and 0 <= beh_i < len(NAME_BEHAVIOURS)
    post: _
    """
    # "identically for every compression suffix and every number of cores", also for names whose extension is written in
    # upper or mixed case (whether such a name counts as a FASTA/FASTQ name is not what is asked here): the format that
    # reaches the file must be the one that the same name gets as a plain file written with one core
    stem = STEM_ALPHABET[_conc(s0, 0, len(STEM_ALPHABET) - 1)]
    if stem == ".":
        return True
    ext = _cased(EXTS[_conc(ext_i, 0, 3)], CASES[_conc(case_i, 0, len(CASES) - 1)])
    comp = COMPS[_conc(comp_i, 0, len(COMPS) - 1)]
    beh = NAME_BEHAVIOURS[_conc(beh_i, 0, len(NAME_BEHAVIOURS) - 1)]
    if beh not in ENV.get(comp, {}):
        return True
    layout = _PARAM.get("layout", "single")
    reference = _formats_written(stem, ext, "", "path", False, True, False, layout)
    got = _formats_written(stem, ext, comp, beh, True if proxied else False, True, False, layout)
    return reference is not None and got == reference


def _body(stem, ext, comp, beh, proxied, qualities, force_fasta, layout):
    path = stem + ext + comp
    want = ref_format(ext, qualities)
    if want == "fastq" and not qualities:
        return True                                # FASTQ output requested by name for input without qualities: an error, outside the statement
    opener = StubOpener(beh)
    outfiles = OutputFiles(proxied=proxied, qualities=qualities, interleaved=(layout == "interleaved"), file_opener=opener)
    if layout == "two_files":
        paths = (path, stem + "2" + ext + comp)
    else:
        paths = (path,)
    writer = outfiles.open_record_writer(*paths, interleaved=(layout == "interleaved"), force_fasta=force_fasta)
    if layout == "single":
        writer.write(_record(qualities))
    else:
        writer.write(_record(qualities, "r"), _record(qualities, "r"))
    if proxied:
        chunks = writer.drain()
        firsts = [c[:1] for c in chunks]
    else:
        writer.close()
        firsts = [s.first_byte() for s in opener.sinks]
    if len(firsts) != len(paths):
        return False
    for f in firsts:
        if _observe(f) != want:
            return False
    return True


def check_file(stem: str, beh_i: int, proxied: bool, qualities: bool, force_fasta: bool) -> bool:
    """
    pre: _pre_str(stem, beh_i)
    post: _
    """
    beh = NAME_BEHAVIOURS[_conc(beh_i, 0, len(NAME_BEHAVIOURS) - 1)]
    return _body(stem, _PARAM["ext"], _PARAM["comp"], beh, True if proxied else False, True if qualities else False, True if force_fasta else False, _PARAM.get("layout", "single"))


def check_file_idx(s0: int, s1: int, n: int, ext_i: int, comp_i: int, beh_i: int, proxied: bool, qualities: bool, force_fasta: bool) -> bool:
    """
    pre: _pre_idx(s0, s1, n, ext_i, comp_i, beh_i)
    post: _
    """
    k = len(STEM_ALPHABET)
    stem = STEM_ALPHABET[_conc(s0, 0, k - 1)]
    if _conc(n, 1, 2) == 2:
        stem = stem + STEM_ALPHABET[_conc(s1, 0, k - 1)]
    ext = EXTS[_conc(ext_i, 0, len(EXTS) - 1)]
    comp = COMPS[_conc(comp_i, 0, len(COMPS) - 1)]
    beh = NAME_BEHAVIOURS[_conc(beh_i, 0, len(NAME_BEHAVIOURS) - 1)]
    if beh not in ENV.get(comp, {}):
        return True                                # not a behaviour of the installed xopen for this suffix
    if all(c == "." for c in stem) or stem + ext + comp == "-":
        return True                                # see _stem_ok / standard output
    return _body(stem, ext, comp, beh, True if proxied else False, True if qualities else False, True if force_fasta else False, _PARAM.get("layout", "single"))


def check_stdout(proxied: bool, qualities: bool, force_fasta: bool, interleaved: bool, via_dash: bool) -> bool:
    """
    pre: True
    post: _
    """
    proxied = True if proxied else False
    qualities = True if qualities else False
    force_fasta = True if force_fasta else False
    interleaved = True if interleaved else False
    want = "fasta" if force_fasta else ("fastq" if qualities else "fasta")
    out = Sink("<stdout>", "path")
    opener = StubOpener("path")                      # "-" opened through xopen is standard output: name '<stdout>'
    old = cutadapt.files.sys
    cutadapt.files.sys = _FakeSys(out)
    try:
        outfiles = OutputFiles(proxied=proxied, qualities=qualities, interleaved=interleaved, file_opener=opener)
        if via_dash:
            writer = outfiles.open_record_writer("-", interleaved=interleaved, force_fasta=force_fasta)
        else:
            writer = outfiles.open_stdout_record_writer(interleaved=interleaved, force_fasta=force_fasta)
        if interleaved:
            writer.write(_record(qualities), _record(qualities))
        else:
            writer.write(_record(qualities))
        if proxied:
            first = writer.drain()[0][:1]
        else:
            writer.close()
            first = (opener.sinks[0] if via_dash else out).first_byte()
    finally:
        cutadapt.files.sys = old
    return _observe(first) == want


# ---------------------------------------------------------------------------------- conditions
CONDITIONS = []
# (1) the name as a symbolic string: one file, per (extension, compression suffix); stem of one character (two in the thorough tier)
for _comp in COMPS:
    for _ext in EXTS:
        CONDITIONS.append({"name": "file/single/symbolic_stem/ext=%s/comp=%s" % (_ext or "none", _comp or "none"), "fn": "check_file", "timeout": 900,
                           "param": {"layout": "single", "ext": _ext, "comp": _comp, "max_stem": 1}})
for _comp in ("", ".gz", ".xz"):
    for _ext in (".fa", ".fastq", ".txt"):
        CONDITIONS.append({"name": "file/single/symbolic_stem2/ext=%s/comp=%s" % (_ext or "none", _comp or "none"), "fn": "check_file", "timeout": 3000, "thorough_only": True,
                           "param": {"layout": "single", "ext": _ext, "comp": _comp, "max_stem": 2}})
# (2) every layout with the path assembled from symbolic indices (stems of one and two characters, every extension and suffix)
for _layout in LAYOUTS:
    CONDITIONS.append({"name": "file/%s/indexed_path/stem1" % _layout, "fn": "check_file_idx", "timeout": 900, "param": {"layout": _layout, "max_n": 1}})
    CONDITIONS.append({"name": "file/%s/indexed_path/stem2" % _layout, "fn": "check_file_idx", "timeout": 3000, "thorough_only": True, "param": {"layout": _layout, "max_n": 2}})
CONDITIONS.append({"name": "stdout", "fn": "check_stdout", "timeout": 300, "param": {}})
for _layout in ("single", "two_files"):
    CONDITIONS.append({"name": "same_for_every_container_and_core_count/%s" % _layout, "fn": "check_same_for_every_container_and_core_count", "timeout": 900, "param": {"layout": _layout}})


def describe():
    return {
        "functions": ["files.py:OutputFiles.open_record_writer", "files.py:OutputFiles.open_stdout_record_writer", "files.py:ProxyRecordWriter.__init__/write/drain", "files.py:open_raise_limit",
                      "dnaio (installed, pure Python, executed): open, singleend._open_single/_open_file_or_path/_detect_format_from_name, multipleend/pairedend writers, writers.FastaWriter/FastqWriter"],
        "bounds": {"output path": "stem + extension from %r + compression suffix from %r; (1) one file: the stem is a symbolic string of one character (two in the thorough tier, nine extension/suffix combinations) over '%s', extension and suffix fixed per condition; (2) every layout: stems of one character (and two in the thorough tier) over the same alphabet, extension and suffix chosen by symbolic indices (the path is concrete text on every path of the exploration)" % (EXTS, COMPS, STEM_ALPHABET),
                   "cores": "one (writers on the opened files) or several (ProxyRecordWriter on memory buffers), symbolic", "input": "with or without qualities, symbolic", "--fasta": "symbolic",
                   "layout": "one file, two files, one interleaved file", "standard output": "open_stdout_record_writer and open_record_writer('-'), proxied or not, interleaved or not",
                   "name behaviour of the opened file": "symbolic among the behaviours the installed xopen shows for the suffix: %r" % ({k: sorted(v) for k, v in ENV.items()},)},
        "outside_bounds": ["the first sentence of C19 (equal records for every container and layout): compiled library code on OS files", "extensions other than those listed (upper- and mixed-case spellings of the four format extensions are covered by the consistency condition only: same format as the plain one-core file of that name)", "names whose stem consists of dots only (a leading-dot name has no extension)",
                           "a FASTQ name for input without qualities (dnaio raises an error)", "longer stems"],
        "stubs": ["StubOpener.xopen: returns a byte sink whose .name is the path, '' or absent (symbolic, restricted to what the installed xopen shows for that suffix; probed on every run with threads 0/1/4)",
                  "cutadapt.files.sys for the standard-output conditions: stdout.buffer is a byte sink named '<stdout>'"],
        "assumptions": ["CrossHair's model of str operations (lower, endswith, slicing, os.path.splitext) on the symbolic path", "only 'Confirmed over all paths' counts as discharged",
                        "the format written is observed from the first byte of one record written through the returned writer"],
        "rule": "one CrossHair condition per (extension, compression suffix) with a symbolic string stem, name behaviour, cores, qualities, --fasta; one per layout with everything chosen by symbolic indices; one for standard output; non-trivial = conditions with more than one explored path whose reachability twin is refuted",
    }


def jobs(tier, seed):
    return e2_jobs(CONDITIONS, tier)


def run_job(job):
    return e2_run_job(__name__, job)


def _real_run(path_name, behaviour, comp, proxied, qualities, force_fasta, layout):
    """The counterexample against the real FileOpener / xopen / dnaio on a real temporary file -> observed format of each file"""
    from xopen import xopen
    threads = ENV.get(comp, {}).get(behaviour, 0)
    d = tempfile.mkdtemp(prefix="c19replay", dir=_scratch())
    try:
        paths = [os.path.join(d, path_name)]
        if layout == "two_files":
            paths.append(os.path.join(d, "second_" + path_name))
        outfiles = OutputFiles(proxied=proxied, qualities=qualities, interleaved=(layout == "interleaved"), file_opener=FileOpener(threads=threads))
        writer = outfiles.open_record_writer(*paths, interleaved=(layout == "interleaved"), force_fasta=force_fasta)
        recs = [_record(qualities)] if layout == "single" else [_record(qualities), _record(qualities)]
        writer.write(*recs)
        if proxied:
            for chunk, bf in zip(writer.drain(), outfiles.binary_files()):
                bf.write(chunk)
        outfiles.close()
        seen = []
        for p in paths:
            with xopen(p, "rb") as f:
                seen.append(_observe(f.read(1)))
        return seen
    finally:
        shutil.rmtree(d, ignore_errors=True)


def _cex_args(cex):
    """-> (stem, ext, comp, behaviour, proxied, qualities, force_fasta, layout) of a counterexample call"""
    import ast
    call = cex["call"]
    args = ast.literal_eval(call[call.index("("):])
    param = cex.get("param") or {}
    if cex["condition"] == "check_file":
        stem, beh_i, proxied, qualities, force_fasta = args
        return stem, param["ext"], param["comp"], NAME_BEHAVIOURS[beh_i], bool(proxied), bool(qualities), bool(force_fasta), param.get("layout", "single")
    s0, s1, n, ext_i, comp_i, beh_i, proxied, qualities, force_fasta = args
    stem = STEM_ALPHABET[s0] + (STEM_ALPHABET[s1] if n == 2 else "")
    return stem, EXTS[ext_i], COMPS[comp_i], NAME_BEHAVIOURS[beh_i], bool(proxied), bool(qualities), bool(force_fasta), param.get("layout", "single")


def replay(cex):
    ok, detail = e2_replay(cex)
    if not ok or cex.get("condition") not in ("check_file", "check_file_idx"):
        return ok, detail          # (the consistency and stdout conditions are replayed against the stubs only)
    # second stage: the same counterexample with the real FileOpener and the real xopen on a real file
    try:
        stem, ext, comp, beh, proxied, qualities, force_fasta, layout = _cex_args(cex)
        seen = _real_run(stem + ext + comp, beh, comp, proxied, qualities, force_fasta, layout)
    except Exception as e:  # noqa
        return False, "real-file stage of the replay failed: %r (%s)" % (e, detail)
    want = ref_format(ext, qualities)
    bad = [x for x in seen if x != want]
    msg = "output '%s' (%s, %s, input %s qualities): the real run wrote %s, the name asks for %s" % (
        stem + ext + comp, "several cores" if proxied else "one core", layout, "with" if qualities else "without", seen, want)
    return bool(bad), msg + " | " + detail
