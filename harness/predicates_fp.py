"""C11, floating point: the fractional --max-n criterion is exact at the boundary.

E1 (symx): predicates.py TooManyN.__init__ / test are executed from source on a record stand-in whose length L (1..MAX_LEN)
and number of N bases n (0..L) are symbolic integers; the cut-off is the double that the option parser produces for a
decimal text k/D (float("0.29")), one job per cut-off.  `n / L` of two symbolic integers becomes the table of the exact IEEE
quotients of all value pairs (regime (i) of DESIGN 2.1: computed by Python, selected by the solver), a product
`cutoff * L` the table of exact IEEE products - so an algebraically equivalent rewrite that rounds differently is a
different formula.  Claim (from the statement: "more N's than --max-n, a value below 1 being a fraction of the read
length"): the read is discarded iff  n / L > k / D  as rational numbers, i.e. iff  D*n > k*L  (integers); in count mode
(cut-off >= 1): iff n > cut-off; an empty read is never discarded in fraction mode.
"""
import z3

from harness.common import (Job, run_paths, model_int, zint, V, new_interp, sym_int, program)

MAX_LEN_QUICK = 100
MAX_LEN_THOROUGH = 150
# decimal cut-offs k/D as users write them
QUICK_CUTS = [(k, 100) for k in (0, 1, 7, 10, 25, 29, 33, 50, 57, 58, 70, 75, 90, 99)] + [(1, 3), (2, 3), (15, 22)]
THOROUGH_CUTS = [(k, 100) for k in range(0, 100)] + [(k, 1000) for k in range(1, 1000, 37)] + [(1, 3), (2, 3), (15, 22), (5, 6)]
COUNT_CUTS = [1.0, 1.5, 2.0, 3.0]


class SeqStub:
    """what TooManyN.test uses of record.sequence: .lower().count("n")"""
    __symx__ = True

    def __init__(self, n_count):
        self.n_count = n_count

    def lower(self):
        return self

    def count(self, what):
        assert what == "n"
        return self.n_count


class RecStub:
    __symx__ = True

    def __init__(self, length, n_count):
        self.length = length
        self.sequence = SeqStub(n_count)

    def symx_len(self, it):
        return self.length


def fp_jobs(tier, seed):
    out = []
    cuts = QUICK_CUTS if tier == "quick" else THOROUGH_CUTS
    for (k, d) in cuts:
        out.append({"name": "max_n/fraction=%d/%d" % (k, d), "fn": "max_n_fp", "k": k, "d": d, "max_len": MAX_LEN_QUICK if tier == "quick" else MAX_LEN_THOROUGH})
    for c in COUNT_CUTS:
        out.append({"name": "max_n/count=%r" % c, "fn": "max_n_fp", "count": c, "max_len": 12})
    return out


def _cex(**sym):
    def make(m):
        d = {"kind": "max_n_fp"}
        for k, v in sym.items():
            d[k] = model_int(m, v) if V.is_sym(v) else v
        return d
    return make


def path_max_n(J, ctx, job):
    import cutadapt.predicates as P
    it = new_interp(ctx)
    max_len = job["max_len"]
    L = sym_int(ctx, "L", 0, max_len)
    n = sym_int(ctx, "n", 0, max_len)
    ctx.assume(zint(n) <= zint(L))
    if "count" in job:
        cutoff = job["count"]
    else:
        cutoff = float("%d" % job["k"]) / job["d"] if job["d"] not in (100, 1000) else float(("0.%02d" if job["d"] == 100 else "0.%03d") % job["k"])
    pred = object.__new__(P.TooManyN)
    it.call_value(it.getattr(pred, "__init__"), [cutoff], {})
    res = it.call_value(it.getattr(pred, "test"), [RecStub(L, n), None], {})
    got = V.zb(res)
    mk = _cex(length=L, n_count=n, cutoff=cutoff, k=job.get("k"), d=job.get("d"))
    J.safety(ctx, mk)
    if "count" in job:
        # n > cutoff with n an integer: n >= floor(cutoff) + 1
        import math
        want = zint(n) >= math.floor(cutoff) + 1
    else:
        want = z3.And(zint(L) > 0, job["d"] * zint(n) > job["k"] * zint(L))
    J.claim(ctx, got == want, "the --max-n decision differs from the documented criterion at this (length, N count)", mk)
    J.witness(ctx, z3.And(got, zint(L) > 1))
    J.nontrivial += 1
    J.sample = {"fn": "TooManyN.test", "cutoff": cutoff, "symbolic": ["read length", "number of N"]}


def run_fp_job(job):
    J = Job(job)
    J.vacuity_check = True
    return run_paths(J, lambda ctx: path_max_n(J, ctx, job), max_paths=20, timeout_ms=120000)


def replay_fp(cex):
    import cutadapt.predicates as P
    from harness.e2_common import Rec
    L, n, cutoff = cex["length"], cex["n_count"], cex["cutoff"]
    read = Rec("r", "N" * n + "A" * (L - n), None)
    got = P.TooManyN(cutoff).test(read, None)
    if cex.get("d"):
        want = L > 0 and cex["d"] * n > cex["k"] * L
    else:
        want = n > cutoff
    return bool(got) != bool(want), "TooManyN(%r).test(read of length %d with %d N) = %r, documented criterion (%s) gives %r" % (
        cutoff, L, n, got, ("%d/%d of the length" % (cex["k"], cex["d"])) if cex.get("d") else "count", want)
