"""C01 - every reported adapter match is a genuine, in-tolerance occurrence.

E1 (symx).  Executed from the current source for every job: adapters.py (class constructors,
SingleAdapter.__init__, _make_aligner, _aligner, match_to, SingleMatch.__init__) in forking mode and
_align.pyx (translate, Aligner.__cinit__/_set_reference/locate, PrefixComparer/SuffixComparer) in merge
mode.  Adapter characters, read characters and the minimum overlap are symbolic; class, lengths, rate
representative and switches are enumerated.  The k-mer prefilter is replaced by "always present" (it can
only suppress matches; C07 composes it back in).
"""
import z3

from harness.common import (Job, run_paths, new_interp, sym_str, sym_int, model_int, model_str, zint, program, rng, V, Infeasible, InterpException)
from harness import align_common as AC

PROPERTY = "C01"
ENGINE = "symx"

# (m, n, rates): rates None = every representative of R(m); else the representatives nearest to the listed values
QUICK_SHAPES = [(3, 2, None), (3, 4, None), (4, 5, (0.0, 0.25, 0.5))]
THOROUGH_SHAPES = [(1, 0, None), (1, 2, None), (2, 3, None), (3, 2, None), (3, 4, None), (4, 3, None), (4, 5, None), (4, 6, (0.0, 0.25, 0.5)),
                   (5, 4, (0.0, 0.2, 0.4)), (5, 6, (0.0, 0.2, 0.4))]
# the largest shape only without wildcards (cost grows ~3x per extra base; wildcard modes 2-3x on top)
THOROUGH_PLAIN_SHAPES = [(6, 7, (0.0, 0.17, 0.34))]


def describe():
    return {
        "functions": ["_align.pyx:translate", "_align.pyx:Aligner.__cinit__", "_align.pyx:Aligner._set_reference", "_align.pyx:Aligner.locate",
                      "_align.pyx:PrefixComparer.__init__/locate", "_align.pyx:SuffixComparer.__init__/locate",
                      "adapters.py:SingleAdapter.__init__/_make_aligner", "adapters.py:<8 adapter classes>.__init__/_aligner/match_to", "adapters.py:SingleMatch.__init__"],
        "bounds": {"quick": {"(adapter length, read length, rates)": QUICK_SHAPES, "adapter alphabet": AC.IUPAC_ALPHABET, "read alphabet": "all 7-bit ASCII",
                             "rates": "one representative per step of r -> trunc(r*L), L <= adapter length, on [0,1); where a shape lists rates, only the representatives nearest to them", "min_overlap": "symbolic 1..m+1",
                             "switches": "adapter wildcards x read wildcards x indels, all 8 classes (both wildcard switches together not at (4,5))"},
                   "thorough": {"(adapter length, read length, rates)": THOROUGH_SHAPES, "without wildcards only": THOROUGH_PLAIN_SHAPES, "note": "as quick, larger shapes; rates=None means every representative"}},
        "outside_bounds": ["adapters / reads longer than the listed shapes", "non-ASCII reads (the kernels raise ValueError)", "lower-case adapters (the CLI upper-cases; the constructor does too)",
                           "score field of the match (not part of this property)"],
        "stubs": ["SingleAdapter._make_kmer_finder -> MockKmerFinder (prefilter can only suppress matches; see C07)"],
        "assumptions": ["rate representatives: r -> (trunc(fl(r*L)))_L is a monotone step function of the double r; one double per step is exhaustive for [0,1) because every use of the rate in the encoded code is of the form rate*int (audited: SFloatTab products only)",
                        "reference semantics (IUPAC sets, edit distance, placement rules) are written in harness/align_common.py from the user guide and compared with the real build on all character pairs at start-up"],
        "rule": "job = (class, m, n, rate representative, switches); per job the constructor+match_to are executed symbolically (paths = outcomes None/match/exception) and 3 claims are decided per matching path: coordinates+placement+overlap, errors == reference distance, errors within tolerance. non-trivial = jobs where a match with >= 1 error (or any match, when the rate allows none) is reachable",
    }


def pick_rates(m, wanted):
    reps = AC.rate_representatives(m)
    if wanted is None:
        return reps
    out = []
    for w in wanted:
        r = min(reps, key=lambda x: abs(x - w))
        if r not in out:
            out.append(r)
    return out


def configs(m, wanted=None):
    rates = pick_rates(m, wanted)
    out = []
    for rate in rates:
        for aw in (True, False):
            for rw in (False, True):
                for indels in (True, False):
                    out.append(dict(rate=rate, adapter_wildcards=aw, read_wildcards=rw, indels=indels))
    return out


def jobs(tier, seed):
    shapes = QUICK_SHAPES if tier == "quick" else THOROUGH_SHAPES
    out = []
    plain = [] if tier == "quick" else THOROUGH_PLAIN_SHAPES
    for (m, n, wanted) in list(shapes) + plain:
        for kind in AC.BASIC_KINDS:
            for cfg in configs(m, wanted):
                if tier == "quick" and (m, n) == (4, 5) and cfg["adapter_wildcards"] and cfg["read_wildcards"]:
                    continue   # quick tier: both wildcard switches together only at the smaller shapes
                if (m, n, wanted) in plain and (cfg["adapter_wildcards"] or cfg["read_wildcards"]):
                    continue
                out.append({"name": "%s/m=%d/n=%d/%s" % (kind, m, n, AC.cfg_name(cfg)), "kind": kind, "m": m, "n": n, "cfg": cfg})
    return out


def z_placement(kind, m, n, a0, a1, r0, r1):
    base = z3.And(0 <= a0, a0 <= a1, a1 <= m, 0 <= r0, r0 <= r1, r1 <= n)
    rule = {
        "back": z3.And(a0 == 0, z3.Or(a1 == m, r1 == n)),
        "front": z3.And(a1 == m, z3.Or(a0 == 0, r0 == 0)),
        "rightmost_front": z3.And(a1 == m, z3.Or(a0 == 0, r0 == 0)),
        "nonint_back": z3.And(a0 == 0, r1 == n),
        "nonint_front": z3.And(a1 == m, r0 == 0),
        "prefix": z3.And(a0 == 0, a1 == m, r0 == 0),
        "suffix": z3.And(a0 == 0, a1 == m, r1 == n),
        "anywhere": z3.And(z3.Or(a0 == 0, r0 == 0), z3.Or(a1 == m, r1 == n)),
    }[kind if not kind.endswith("_fa") else "anywhere"]
    return z3.And(base, rule)


def setup_path(ctx, kind, m, n, cfg, mock_prefilter=True, adapter_alphabet=AC.IUPAC_ALPHABET, read_alphabet=None):
    it = new_interp(ctx)
    adapter = sym_str(ctx, "a", m, alphabet=adapter_alphabet)
    read = sym_str(ctx, "r", n, lo=0, hi=127) if read_alphabet is None else sym_str(ctx, "r", n, alphabet=read_alphabet)
    c = dict(cfg)
    if kind in ("prefix", "suffix"):
        # anchored adapters always need to match in full, whatever -O says: the value handed to the constructor
        # (as the command line does) is arbitrary, the required overlap is m
        c["min_overlap"] = m
        mo = m
        c["min_overlap_given"] = cfg.get("min_overlap_given", None) or (sym_int(ctx, "min_overlap_given", 1, m + 1) if "min_overlap" not in cfg else cfg["min_overlap"])
    elif "min_overlap" in cfg:
        mo = cfg["min_overlap"]
    else:
        mo = sym_int(ctx, "min_overlap", 1, m + 1)
        c["min_overlap"] = mo
    return it, adapter, read, c, mo


def make_cex(kind, cfg, adapter, read, mo, given=None):
    def mk(model):
        c = dict(cfg)
        c["min_overlap"] = model_int(model, mo)
        if given is not None:
            c["min_overlap_given"] = model_int(model, given)
        return {"kind": kind, "cfg": c, "adapter": model_str(model, adapter), "read": model_str(model, read)}
    return mk


def path(J, ctx, kind, m, n, cfg):
    it, adapter, read, c, mo = setup_path(ctx, kind, m, n, cfg)
    mk = make_cex(kind, cfg, adapter, read, mo, c.get("min_overlap_given"))
    try:
        ad = AC.build_adapter(it, kind, adapter, c, mock_prefilter=True)
    except ValueError:
        J.extra["constructor_rejects"] = J.extra.get("constructor_rejects", 0) + 1
        return  # e.g. "Cannot have only N wildcards": no match is ever reported
    try:
        mt = it.call_value(it.getattr(ad, "match_to"), [read], {})
    except (AssertionError, IndexError, ValueError) as e:
        # C01 speaks about reported matches only; an exception here is noted (C02 treats it as a violation)
        J.extra["match_to_exceptions"] = J.extra.get("match_to_exceptions", 0) + 1
        J.extra["first_exception"] = repr(e)
        return
    J.safety(ctx, mk)
    if mt is None:
        J.extra["paths_none"] = J.extra.get("paths_none", 0) + 1
        return
    J.extra["paths_match"] = J.extra.get("paths_match", 0) + 1
    a0, a1, r0, r1, score, errors = [zint(x) for x in AC.match_tuple(mt)]
    ref = AC.Ref(adapter.chars, read.chars, cfg["adapter_wildcards"], cfg["read_wildcards"], cfg["indels"])
    # claim 1: coordinates, placement rule, minimum overlap
    J.claim(ctx, z3.And(z_placement(kind, m, n, a0, a1, r0, r1), a1 - a0 >= z3.If(zint(mo) < m, zint(mo), V.ival(m))),
            "match violates coordinates / placement rule / minimum overlap", mk)
    # claim 2: errors == reference distance of the reported intervals
    alts = []
    tol = []
    ivs = ref.admissible_intervals(kind)
    for (x0, x1, y0, y1) in ivs:
        d = ref.dist(x0, x1, y0, y1)
        here = z3.And(a0 == x0, a1 == x1, r0 == y0, r1 == y1)
        if d is not None:
            alts.append(z3.And(here, errors == d))
    for x0 in range(m + 1):
        for x1 in range(x0, m + 1):
            tol.append(z3.And(a0 == x0, a1 == x1, ref.tolerance_ok(x0, x1, errors, cfg["rate"])))
    for d in getattr(ref, "defs", []):
        ctx.assume(d)
    J.claim(ctx, z3.Or(*alts) if alts else z3.BoolVal(False), "reported errors differ from the %s distance of the reported intervals" % ("edit" if cfg["indels"] else "Hamming"), mk)
    # claim 3: tolerance
    J.claim(ctx, z3.Or(*tol), "reported errors exceed max_error_rate * (aligned non-N adapter bases)", mk)
    w = errors >= 1 if int(cfg["rate"] * m) >= 1 else None
    if J.witness(ctx, w):
        J.nontrivial = 1
    J.sample = {"class": AC.CLASSES[kind], "m": m, "n": n, "cfg": AC.cfg_name(cfg), "symbolic": ["adapter chars", "read chars", "min_overlap"]}


def run_job(job):
    J = Job(job)
    return run_paths(J, lambda ctx: path(J, ctx, job["kind"], job["m"], job["n"], job["cfg"]), max_paths=200, timeout_ms=400000 if job.get("tier") == "thorough" else 90000)


# --------------------------------------------------------------------------- validation & replay
def validate(seed):
    """(a) harness-owned character tables vs the real build on all 128 x 18 pairs and 4 modes;
    (b) the repo's test vectors and seeded random (adapter, read) pairs through the real match_to and the encoding."""
    import cutadapt._align as RA
    from symx.ctx import Ctx
    mism = []
    vectors = 0
    for aw in (False, True):
        for rw in (False, True):
            for a in AC.IUPAC_ALPHABET + "!":
                an = AC.norm_adapter(a)
                if aw and an not in "ABCDGHKMNRSTVWXY":
                    continue
                aw_eff = AC.eff_adapter_wildcards(an, aw)
                if aw_eff and an == "N":
                    continue  # aligner refuses an all-N reference
                for rc in range(128):
                    r = chr(rc)
                    real = RA.Aligner(an, 0.0, 15, wildcard_ref=aw_eff, wildcard_query=rw).locate(r)
                    real_match = real is not None and real[5] == 0 and real[1] - real[0] == 1
                    want = AC.chars_match(an, r, aw_eff, rw)
                    vectors += 1
                    if real_match != want:
                        mism.append("char table: adapter %r read %r aw=%s rw=%s real=%s reference=%s" % (an, r, aw_eff, rw, real_match, want))
    r = rng(seed, "c01")
    ctx = Ctx()
    it = new_interp(ctx)
    import cutadapt.adapters as A
    it.overrides["SingleAdapter._make_kmer_finder"] = lambda it_, *a, **k: A.MockKmerFinder()
    cases = [("back", "ACGT", "TTACGTTT"), ("front", "ACGT", "TTACGTTT"), ("anywhere", "ACGTN", "ACGAATT"), ("prefix", "ACG", "ACTTT"), ("suffix", "ACG", "TTACC"),
             ("nonint_back", "TTAGACATAT", "CAGTGGAGTATTAGACA"), ("nonint_front", "CTCCAGCTTAGACATATC", "AGCTTAGACATATCGGG"), ("rightmost_front", "CTGAATT", "GACTGAATTCTGAATTACG")]
    for _ in range(120):
        kind = r.choice(AC.BASIC_KINDS)
        m = r.randrange(1, 7)
        n = r.randrange(0, 10)
        cases.append((kind, "".join(r.choice("ACGTACGTNRYX") for _ in range(m)), "".join(r.choice("ACGTacgtNnRX!") for _ in range(n))))
    for kind, ad, rd in cases:
        cfg = dict(rate=r.choice([0.0, 0.1, 0.2, 0.25, 0.34, 0.5, 0.7]), adapter_wildcards=r.random() < 0.6, read_wildcards=r.random() < 0.4, indels=r.random() < 0.7,
                   min_overlap=r.randrange(1, 5))
        try:
            want = AC.real_match(kind, cfg, ad, rd, prefilter=False)
            werr = None
        except Exception as e:  # noqa
            want, werr = None, type(e).__name__
        try:
            obj = AC.build_adapter(it, kind, ad, cfg, mock_prefilter=True)
            mt = it.call_value(it.getattr(obj, "match_to"), [rd], {})
            got = None if mt is None else tuple(AC.match_tuple(mt))
            gerr = None
        except Exception as e:  # noqa
            got, gerr = None, type(e).__name__
        vectors += 1
        if want != got or werr != gerr:
            mism.append("match_to %s %r %r %r: real %r/%s encoding %r/%s" % (kind, ad, rd, cfg, want, werr, got, gerr))
    return {"vectors": vectors, "mismatches": mism}


def replay(cex):
    kind, cfg, ad, rd = cex["kind"], cex["cfg"], cex["adapter"], cex["read"]
    try:
        mt = AC.real_match(kind, cfg, ad, rd, prefilter=True)
    except Exception as e:  # noqa
        return False, "real build raises %r" % (e,)
    if mt is None:
        mt2 = AC.real_match(kind, cfg, ad, rd, prefilter=False)
        return False, "real build reports no match (without prefilter: %r)" % (mt2,)
    bad = AC.check_match_concrete(kind, cfg, ad, rd, mt)
    return bool(bad), "%s(%r, %s).match_to(%r) = %r violates: %s" % (AC.CLASSES[kind], ad, AC.cfg_name(cfg) + ",o=%s" % cfg["min_overlap"], rd, mt, ", ".join(bad) or "nothing")
