"""C10 - read modifications are applied in the documented fixed order.

E2, but the solver's part is small and this is said plainly: the claim is a COMPLETE ENUMERATION of the subsets of
the read-modifying options (12 single-end, 16 paired-end), each subset parsed by the real argument parser from three
argv permutations, each pipeline built by the real ``make_pipeline_from_args``.  CrossHair decides, for a symbolic
(option-subset index, mate, abstract read value), the Boolean structure "which option reaches which mate with which
parameter at which position" and the equalities of the transformer chain over pre-built tables:

  native, at set_param() time, for every subset of the condition's index range
      * three argv permutations -> real parser -> real determine_paired / check_arguments / make_pipeline_from_args;
        the three modifier lists must coincide (class, parameters, mate routing);
      * every modifier (single-end) resp. every half of a PairedEndModifierWrapper / every genuinely paired modifier
        is replaced by a recording transformer; the steps are replaced by one recording sink;
      * the REAL process_reads loop is run once on abstract reads; the recorded chain is checked natively by the same
        reference (``_chain_ok``) and the verdict stored;
  under CrossHair, per path (one subset index = one combination of the trimming options, and one mate)
      * the stored verdicts of all rows of the block (the combinations of the name/quality-string options) must hold;
      * for the rows of the block listed in ``live`` the REAL process_reads loop (SingleEndPipeline / PairedEndPipeline
        with the real PairedEndModifierWrapper.__call__) is run again with a symbolic abstract read value x; the
        transformers map the value they receive to a fresh token (k, value), so the value reaching the sink must be
        f_n(...f_1(x)...) with f_1..f_n exactly the expected classes in the documented rank order.

The expected chain is computed from the option bits by ``_expected`` (written from the statement, not from cli.py).
"""
import itertools

from harness.e2_common import e2_jobs, e2_run_job, e2_replay

import cutadapt.cli as _cli
from cutadapt.files import FileFormat
from cutadapt.modifiers import PairedEndModifierWrapper, PairedEndModifier
from cutadapt.pipeline import SingleEndPipeline, PairedEndPipeline

try:  # table look-ups are concrete work; only used for the pre-built verdicts
    from crosshair.tracers import NoTracing
except Exception:  # pragma: no cover
    import contextlib

    def NoTracing():
        return contextlib.nullcontext()

PROPERTY = "C10"
ENGINE = "crosshair"

_PARAM = {}
_TABLE = {}       # (mode, variant) -> {trim index: [row per tail combination]}

# ------------------------------------------------------------------------------------------ the options
# "trimming" options: the symbolic subset index runs over these (bit k of the index = option k present)
TRIM_SINGLE = ("u", "nextseq", "q", "a", "polya", "l")
TRIM_PAIRED = ("u", "U", "nextseq", "q", "Q", "a", "A", "polya", "l", "L")
# name / quality-string options: all combinations are looped over inside every path ("rename" excludes "xy")
TAIL = ("trimn", "lengthtag", "stripsuffix", "xy", "rename", "zerocap")
TAILS = [t for t in itertools.product((0, 1), repeat=len(TAIL)) if not (t[3] and t[4])]      # 48 combinations

CUT1 = {1: (5,), 2: (5, -3), 3: (0, 5)}        # -u values, in the order given (a length of 0 removes nothing: no step)
CUT2 = {1: (7,), 2: (-2, 7), 3: (7, 0)}        # -U values, in the order given


def _fragments(opts, variant):
    """argv fragments of an option set (dict name -> bool), one fragment per option; a fragment is never split"""
    ucount = variant.get("cuts", 1)
    fr = []
    if opts.get("u"):
        fr.append(sum((["-u", str(v)] for v in CUT1[ucount]), []))
    if opts.get("U"):
        fr.append(sum((["-U", str(v)] for v in CUT2[ucount]), []))
    if opts.get("nextseq"):
        fr.append(["--nextseq-trim", variant.get("nextseq", "20")])
    if opts.get("q"):
        fr.append(["-q", variant.get("q", "10")])
    if opts.get("Q"):
        fr.append(["-Q", variant.get("Q", "20")])
    if opts.get("a"):
        fr.append(["-a", "ACGTACGTAC"] if variant.get("adapter", "plain") != "front" else ["-g", "ACGTACGTAC"])
    if opts.get("A"):
        fr.append(["-A", "TTGGCCAATT"])
    if (opts.get("a") or opts.get("A")) and "times" in variant:
        fr.append(["--times", variant["times"]])
    if (opts.get("a") or opts.get("A")) and "action" in variant:
        fr.append(["--action", variant["action"]])
    if (opts.get("a") or opts.get("A")) and variant.get("adapter") == "revcomp":
        fr.append(["--revcomp"])
    if opts.get("a") and opts.get("A") and variant.get("adapter") == "pair":
        fr.append(["--pair-adapters"])
    if opts.get("polya"):
        fr.append(["--poly-a"])
    if opts.get("l"):
        fr.append(["-l", variant.get("l", "30")])
    if opts.get("L"):
        fr.append(["-L", variant.get("L_len", "40")])
    if opts.get("trimn"):
        fr.append(["--trim-n"])
    if opts.get("lengthtag"):
        fr.append(["--length-tag", "length="])
    if opts.get("stripsuffix"):
        fr.append(["--strip-suffix", "/1"])
    if opts.get("xy"):
        which = variant.get("xy", "both")
        if which in ("both", "x"):
            fr.append(["-x", "pre_"])
        if which in ("both", "y"):
            fr.append(["-y", "_suf"])
    if opts.get("rename"):
        fr.append(["--rename", "{id}_r {comment}"])
    if opts.get("zerocap"):
        fr.append(["-z"])
    if "qbase" in variant:
        fr.append(["--quality-base", variant["qbase"]])
    return fr


def _permutations(fr, paired):
    """three argv orders: as listed with the file names last, reversed with the file names first, and interleaved from both
    ends with the file names in the middle (the positional file names stay together: argparse does not accept them split)"""
    io_ = ["-o", "out.1.fastq"] + (["-p", "out.2.fastq"] if paired else [])
    inputs = ["in.1.fastq"] + (["in.2.fastq"] if paired else [])
    flat = lambda frs: [x for f in frs for x in f]      # noqa: E731
    p1 = flat(fr) + io_ + inputs
    p2 = inputs + io_ + flat(fr[::-1])
    inter = []
    lo, hi = 0, len(fr) - 1
    while lo <= hi:
        inter.append(fr[hi])
        if lo != hi:
            inter.append(fr[lo])
        lo, hi = lo + 1, hi - 1
    half = len(inter) // 2
    p3 = flat(inter[:half]) + inputs + flat(inter[half:]) + io_
    return [p1, p2, p3]


# ------------------------------------------------------------------------------------------ native pipeline building
class _Writer:
    def write(self, *a, **k):
        pass


class _Outfiles:
    def open_record_writer(self, *paths, **kw):
        return _Writer()

    def open_stdout_record_writer(self, **kw):
        return _Writer()

    def open_text(self, path):
        return _Writer()


_PARSER = [None]
_ADAPTERS = {}


def _build(argv, paired):
    """argv -> pipeline, exactly as cli.main() does it (without opening files or starting a runner)"""
    if _PARSER[0] is None:
        _PARSER[0] = _cli.get_argument_parser()
    args, leftover = _PARSER[0].parse_known_args(args=argv)
    if leftover:
        raise ValueError("unrecognised arguments %r" % (leftover,))
    if _cli.determine_paired(args) != paired:
        raise ValueError("determine_paired(%r) is %r" % (argv, not paired))
    _cli.check_arguments(args, paired)
    key = (tuple(args.adapters), tuple(args.adapters2), args.error_rate, args.overlap)
    if key not in _ADAPTERS:          # adapter construction is expensive and irrelevant here: once per adapter set
        _ADAPTERS[key] = _cli.adapters_from_args(args)
    adapters, adapters2 = _ADAPTERS[key]
    return _cli.make_pipeline_from_args(args, FileFormat.FASTQ, _Outfiles(), paired, adapters, adapters2)


_ATTRS = ("length", "cutoff", "cutoff_front", "cutoff_back", "base", "revcomp", "times", "action", "length_tag", "suffix", "prefix", "quality_base", "_suffix", "_template")


def _sig1(m):
    """signature of a single modifier: class and the parameters that came from the command line"""
    if m is None:
        return None
    s = [type(m).__name__]
    for a in _ATTRS:
        if hasattr(m, a):
            v = getattr(m, a)
            if isinstance(v, (int, str, bool, type(None))):
                s.append((a, v))
    for a in ("adapter_cutter", "adapter_cutter1", "adapter_cutter2"):
        if hasattr(m, a):
            s.append((a, _sig1(getattr(m, a))))
    if hasattr(m, "adapters") and hasattr(m.adapters, "__len__"):
        s.append(("adapters", tuple(getattr(x, "name", "?") + ":" + type(x).__name__ for x in m.adapters)))
    if hasattr(m, "_adapter_pairs"):
        s.append(("pairs", tuple((a.name, b.name) for a, b in m._adapter_pairs)))
    if hasattr(m, "_tokens"):
        s.append(("template", repr(getattr(m, "_tokens"))))
    if hasattr(m, "_renamer"):
        s.append(("renamer", _sig1(m._renamer)))
    return tuple(s)


def _signature(pipeline):
    out = []
    for m in pipeline._modifiers:
        if isinstance(m, PairedEndModifierWrapper):
            out.append(("wrapper", _sig1(m._modifier1), _sig1(m._modifier2)))
        else:
            out.append(_sig1(m))
    return out


# ------------------------------------------------------------------------------------------ recording transformers
class _Tok:
    """abstract read: only carries a value; len() is what process_reads adds up"""

    def __init__(self, v):
        self.v = v

    def __len__(self):
        return 0


_LOG = []


class _Rec:
    """stands for one single-end modifier: maps the value it receives to the fresh token (k, value)"""

    def __init__(self, k, orig, mate):
        self.k = k
        self.orig = orig
        self.mate = mate

    def __call__(self, read, info):
        out = _Tok((self.k, read.v))
        _LOG.append((self.k, self.mate, read.v, out.v, id(info)))
        return out


class _RecPaired(PairedEndModifier):
    """stands for one genuinely paired modifier (PairedEndRenamer, PairedAdapterCutter, PairedReverseComplementer)"""

    def __init__(self, k, orig):
        self.k = k
        self.orig = orig

    def __call__(self, read1, read2, info1, info2):
        o1, o2 = _Tok((self.k, read1.v)), _Tok((self.k, read2.v))
        _LOG.append((self.k, 1, read1.v, o1.v, id(info1)))
        _LOG.append((self.k, 2, read2.v, o2.v, id(info2)))
        return o1, o2


class _Sink1:
    def __call__(self, read, info):
        _LOG.append(("sink", 1, read.v, None, id(info)))
        return None


class _Sink2:
    def __call__(self, read1, read2, info1, info2):
        _LOG.append(("sink", 1, read1.v, None, id(info1)))
        _LOG.append(("sink", 2, read2.v, None, id(info2)))
        return None


class _Infiles:
    def __init__(self, reads):
        self.reads = reads

    def open(self):
        return list(self.reads)

    def close(self):
        pass


def _instrument(pipeline, paired):
    """replace the modifiers by recorders (in place).  -> {k: (original modifier, mate or 0 for both)}"""
    recs = {}
    k = 0
    for pos, m in enumerate(pipeline._modifiers):
        if isinstance(m, PairedEndModifierWrapper):
            if m._modifier1 is not None:
                recs[k] = (m._modifier1, 1)
                m._modifier1 = _Rec(k, m._modifier1, 1)
                k += 1
            if m._modifier2 is not None:
                recs[k] = (m._modifier2, 2)
                m._modifier2 = _Rec(k, m._modifier2, 2)
                k += 1
        elif paired:
            recs[k] = (m, 0)
            pipeline._modifiers[pos] = _RecPaired(k, m)
            k += 1
        else:
            recs[k] = (m, 1)
            pipeline._modifiers[pos] = _Rec(k, m, 1)
            k += 1
    pipeline._steps = [_Sink2() if paired else _Sink1()]
    return recs


def _run(pipeline, paired, x):
    """the real per-read loop on one abstract read (pair) with payload x -> the recorded events"""
    del _LOG[:]
    if paired:
        n, bp1, bp2 = pipeline.process_reads(_Infiles([(_Tok(("r1", x)), _Tok(("r2", x)))]))
    else:
        n, bp1, bp2 = pipeline.process_reads(_Infiles([_Tok(("r1", x))]))
    if n != 1:
        return None
    return list(_LOG)


# ------------------------------------------------------------------------------------------ the reference
RANK = {"cut": 0, "nextseq": 1, "quality": 2, "adapter": 3, "polya": 4, "length": 5, "trimn": 6, "lengthtag": 7, "stripsuffix": 8, "xy": 9, "last": 10}


def _expected(opts, variant, mate, paired):
    """From the statement: the steps that act on `mate`, in the documented order, as (rank, class names, parameter
    check).  Lower-case options act on R1 (or the single read), upper-case ones on R2, shared ones on both; -q acts on
    R2 unless -Q is given, -l on R2 unless -L is given."""
    ucount = variant.get("cuts", 1)
    e = []
    if mate == 1 and opts.get("u"):
        for v in CUT1[ucount]:
            if v != 0:
                e.append((0, ("UnconditionalCutter",), ("length", v)))
    if mate == 2 and opts.get("U"):
        for v in CUT2[ucount]:
            if v != 0:
                e.append((0, ("UnconditionalCutter",), ("length", v)))
    if opts.get("nextseq"):
        e.append((1, ("NextseqQualityTrimmer",), ("cutoff", int(variant.get("nextseq", "20")))))     # a cut-off of 0 is a setting, not "absent"
    q = None
    if mate == 1 and opts.get("q"):
        q = variant.get("q", "10")
    if mate == 2:
        q = variant.get("Q", "20") if opts.get("Q") else (variant.get("q", "10") if opts.get("q") else None)
    if q is not None and q != "0":
        parts = [int(p) for p in q.split(",")]
        front, back = (0, parts[0]) if len(parts) == 1 else parts
        e.append((2, ("QualityTrimmer",), ("cutoffs", (front, back))))
    amode = variant.get("adapter", "plain")
    if amode == "revcomp":
        if paired:
            if opts.get("a") or opts.get("A"):
                e.append((3, ("PairedReverseComplementer",), None))
        elif opts.get("a"):
            e.append((3, ("ReverseComplementer",), None))
    elif amode == "pair" and opts.get("a") and opts.get("A"):
        e.append((3, ("PairedAdapterCutter",), None))
    elif (mate == 1 and opts.get("a")) or (mate == 2 and opts.get("A")):
        # --times and --action are settings of adapter trimming as such: they reach the cutter of either mate
        e.append((3, ("AdapterCutter",), ("adapter", ("ACGTACGTAC" if mate == 1 else "TTGGCCAATT", int(variant.get("times", "1")), variant.get("action", "trim")))))
    if opts.get("polya"):
        e.append((4, ("PolyATrimmer",), ("revcomp", mate == 2)))
    length = None
    if mate == 1 and opts.get("l"):
        length = int(variant.get("l", "30"))
    if mate == 2:
        length = int(variant.get("L_len", "40")) if opts.get("L") else (int(variant.get("l", "30")) if opts.get("l") else None)
    if length is not None:
        e.append((5, ("Shortener",), ("length", length)))
    if opts.get("trimn"):
        e.append((6, ("NEndTrimmer",), None))
    if opts.get("lengthtag"):
        e.append((7, ("LengthTagModifier",), ("length_tag", "length=")))
    if opts.get("stripsuffix"):
        e.append((8, ("SuffixRemover",), ("suffix", "/1")))
    if opts.get("xy"):
        e.append((9, ("PrefixSuffixAdder",), None))
    last = []
    if opts.get("rename"):
        last.append(("PairedEndRenamer",) if paired else ("Renamer",))
    if opts.get("zerocap"):
        last.append(("ZeroCapper",))
    return e, last


def _base_ok(orig, variant):
    """quality-based steps of either mate must be built with the --quality-base of the command line"""
    qbase = int(variant.get("qbase", "33"))
    for attr in ("base", "quality_base"):
        if hasattr(orig, attr) and getattr(orig, attr) != qbase:
            return False
    return True


def _param_ok(orig, check):
    if check is None:
        return True
    name, want = check
    if name == "cutoffs":
        return (orig.cutoff_front, orig.cutoff_back) == want
    if name == "adapter":
        ads = list(orig.adapters)
        seq, times, action = want
        return len(ads) == 1 and ads[0].sequence == seq and orig.times == times and orig.action == action
    return getattr(orig, name) == want


def _chain_ok(events, recs, opts, variant, mate, paired, x):
    """events: what the recorders logged.  The chain of `mate` must be x -> f1(x) -> f2(f1(x)) ... -> sink with the f's
    being exactly the expected classes (and parameters) in rank order; the last rank is an unordered pair."""
    if events is None:
        return False
    mine = [ev for ev in events if ev[1] == mate]
    if not mine or mine[-1][0] != "sink" or any(ev[0] == "sink" for ev in mine[:-1]):
        return False
    # every step acting on this mate must be handed this mate's own ModificationInfo (what a step records - cut
    # prefix, matches - has to reach the later steps of the same mate), and never the other mate's
    infos = {ev[4] for ev in mine}
    others = {ev[4] for ev in events if ev[1] != mate}
    if len(infos) != 1 or (infos & others):
        return False
    steps, sink = mine[:-1], mine[-1]
    ordered, last = _expected(opts, variant, mate, paired)
    if len(steps) != len(ordered) + len(last):
        return False
    value = ("r1" if mate == 1 else "r2", x)
    for n, (k, _m, inp, out, _info) in enumerate(steps):
        orig, routed = recs[k]
        if routed not in (0, mate):            # a transformer of the other mate saw this read
            return False
        if not (inp == value):                 # sees exactly the output of the previous step
            return False
        if not (out == (k, value)):
            return False
        value = out
        cls = type(orig).__name__
        if n < len(ordered):
            _rank, names, check = ordered[n]
            if cls not in names or not _param_ok(orig, check) or not _base_ok(orig, variant):
                return False
        else:
            if (cls,) not in last or not _base_ok(orig, variant):
                return False
    if len(last) == 2 and type(recs[steps[-1][0]][0]).__name__ == type(recs[steps[-2][0]][0]).__name__:
        return False
    # each transformer acts at most once on the read
    if len({k for k, _m, _i, _o, _inf in steps}) != len(steps):
        return False
    return sink[2] == value


# ------------------------------------------------------------------------------------------ tables
def _opts(trim_names, i, tail):
    o = {name: bool(i >> b & 1) for b, name in enumerate(trim_names)}
    o.update({name: bool(v) for name, v in zip(TAIL, tail)})
    return o


def _row(paired, variant, trim_names, i, tail, keep_pipeline):
    """Everything native about one option subset: three permutations, coinciding modifier lists, instrumented
    pipeline, native chain verdicts for both mates."""
    opts = _opts(trim_names, i, tail)
    row = {"opts": opts, "ok": False, "built": False, "mate_ok": {1: False, 2: False}, "why": "", "pipeline": None, "recs": None}
    try:
        fr = _fragments(opts, variant)
        perms = _permutations(fr, paired)
        row["argv"] = perms[0]
        pls = [_build(av, paired) for av in perms]
        sigs = [_signature(p) for p in pls]
        if not (sigs[0] == sigs[1] == sigs[2]):
            row["why"] = "modifier lists differ between argv permutations: %r / %r / %r" % (perms, sigs[0], sigs[1 if sigs[1] != sigs[0] else 2])
            return row
        if type(pls[0]) is not (PairedEndPipeline if paired else SingleEndPipeline):
            row["why"] = "wrong pipeline class"
            return row
        recs = _instrument(pls[0], paired)
        events = _run(pls[0], paired, 0)
        row["built"] = True
        for mate in ((1, 2) if paired else (1,)):
            row["mate_ok"][mate] = _chain_ok(events, recs, opts, variant, mate, paired, 0)
            if not row["mate_ok"][mate]:
                row["why"] += "chain of mate %d differs from the documented order: argv=%r events=%r classes=%r; " % (
                    mate, perms[0], events, {k: (type(o).__name__, r) for k, (o, r) in recs.items()})
        if not all(row["mate_ok"].values()):
            return row
        row["ok"] = True
        if keep_pipeline:
            row["pipeline"], row["recs"] = pls[0], recs
    except BaseException as e:  # noqa  (CommandLineError, SystemExit from argparse, ...)
        row["why"] = "%s: %s" % (type(e).__name__, e)
    return row


def _live_tails(live):
    full_x = tuple(1 if n != "rename" else 0 for n in TAIL)
    full_r = tuple(1 if n != "xy" else 0 for n in TAIL)
    none = tuple(0 for _ in TAIL)
    return {"none": [none], "three": [none, full_x, full_r], "all": list(TAILS)}[live]


def _table():
    """rows of the current condition: {trim index: [rows for all tail combinations]} (built natively, cached)"""
    p = _PARAM
    key = (p["paired"], tuple(sorted(p.get("variant", {}).items())), p["lo"], p["hi"], p.get("live", "three"), p.get("tails", "all"))
    if key not in _TABLE:
        _TABLE.clear()
        paired, variant = p["paired"], p.get("variant", {})
        names = TRIM_PAIRED if paired else TRIM_SINGLE
        live = _live_tails(p.get("live", "three"))
        tab = {}
        for i in range(p["lo"], p["hi"]):
            tab[i] = [_row(paired, variant, names, i, t, t in live) for t in _live_tails(p.get("tails", "all"))]
        _TABLE[key] = tab
    return _TABLE[key]


def set_param(p):
    _PARAM.clear()
    _PARAM.update(p or {})
    if _PARAM:
        _table()           # native pre-build, before CrossHair starts


def _idx(i, lo, hi):
    """the concrete subset index lo <= i < hi (CrossHair: one path per index of the range, found by bisection)"""
    while hi - lo > 1:
        mid = (lo + hi) // 2
        if i < mid:
            hi = mid
        else:
            lo = mid
    return lo


def _block_ok(i, mate, x):
    lo, hi, paired, variant = _PARAM["lo"], _PARAM["hi"], _PARAM["paired"], _PARAM.get("variant", {})
    rows = _table()[_idx(i, lo, hi)]
    # (a) complete enumeration: the native verdict of every combination of the name options in this block
    for row in rows:
        if not row["built"] or not row["mate_ok"][mate]:      # parsing / permutations / building failed, or this mate's chain
            return False
    # (b) the real loop again, with the symbolic read value, on the kept pipelines of the block
    for row in rows:
        if row["pipeline"] is None:
            continue
        events = _run(row["pipeline"], paired, x)
        if not _chain_ok(events, row["recs"], row["opts"], variant, mate, paired, x):
            return False
    return True


def check_single(i: int, x: int) -> bool:
    """
    pre: _PARAM["lo"] <= i < _PARAM["hi"]
    post: _
    """
    return _block_ok(i, 1, x)


def check_paired(i: int, second: bool, x: int) -> bool:
    """
    pre: _PARAM["lo"] <= i < _PARAM["hi"]
    post: _
    """
    return _block_ok(i, 2 if second else 1, x)


def explain(i):
    """native helper for triage: why the rows of block i fail"""
    return [(r["opts"], r["why"]) for r in _table()[i] if not r["ok"]]


# ------------------------------------------------------------------------------------------ conditions
CONDITIONS = []


def _add(paired, variant, nbits, pieces, live="three", tails="all", timeout=600, thorough_only=False, tag=""):
    n = 2 ** nbits
    step = (n + pieces - 1) // pieces
    for lo in range(0, n, step):
        hi = min(n, lo + step)
        name = "%s/%s/subsets %d..%d of %d x %d name-option combinations" % ("paired" if paired else "single", tag or "plain", lo, hi - 1, n, len(_live_tails(tails)))
        CONDITIONS.append({"name": name, "fn": "check_paired" if paired else "check_single", "timeout": timeout, "thorough_only": thorough_only,
                           "param": {"paired": paired, "variant": variant, "lo": lo, "hi": hi, "live": live, "tails": tails}})


# single-end: all 3072 subsets, every pipeline re-run under CrossHair; variants with all name-option combinations
_add(False, {}, 6, 2, live="all", tag="-u x1")
_add(False, {"cuts": 2, "q": "5,10", "xy": "x", "times": "2", "action": "mask"}, 6, 1, tag="-u x2, -q 5,10, -x only, --times 2 --action mask")
_add(False, {"adapter": "revcomp", "xy": "y", "qbase": "64"}, 6, 1, tag="--revcomp, -y only, --quality-base 64")
_add(False, {"adapter": "front", "nextseq": "0", "l": "0", "cuts": 3}, 6, 1, live="none", tag="-g, --nextseq-trim 0, -l 0, -u 0 -u 5")
# paired-end: all 49152 subsets in the base variant; the variants concern trimming options only and are combined with
# three name-option combinations (none / all with -x -y / all with --rename)
_add(True, {}, 10, 8, tag="-u/-U x1")
_add(True, {"cuts": 2, "q": "5,10", "Q": "3,15", "times": "2", "action": "mask"}, 10, 2, tails="three", live="none", tag="-u/-U x2, -q 5,10 -Q 3,15, --times 2 --action mask")
_add(True, {"adapter": "revcomp"}, 10, 2, tails="three", live="none", tag="--revcomp")
_add(True, {"adapter": "pair", "xy": "x"}, 10, 2, tails="three", live="none", tag="--pair-adapters, -x only")
_add(True, {"Q": "0", "xy": "y", "nextseq": "0", "l": "0", "cuts": 3}, 10, 2, tails="three", live="none", tag="-Q 0, -y only, --nextseq-trim 0, -l 0, -u 0 -u 5 -U 7 -U 0")
_add(True, {"L_len": "0", "q": "0", "Q": "7", "xy": "x", "qbase": "64"}, 10, 2, tails="three", live="none", tag="-L 0 (with and without -l 30), -q 0 -Q 7, -x only, --quality-base 64")
_add(True, {}, 10, 16, live="all", timeout=3000, thorough_only=True, tag="-u/-U x1, every pipeline re-run")
_add(True, {"cuts": 2, "q": "5,10", "Q": "3,15", "adapter": "revcomp"}, 10, 16, live="none", timeout=3000, thorough_only=True, tag="-u/-U x2, -q 5,10 -Q 3,15, --revcomp, all name options")


def describe():
    return {
        "functions": ["cli.py:get_argument_parser, determine_paired, check_arguments, make_pipeline_from_args (the lines that build `modifiers`)",
                      "cli.py:make_unconditional_cutters, make_quality_trimmers, make_adapter_cutter, make_shortener, modifiers_applying_to_both_ends_if_paired",
                      "pipeline.py:SingleEndPipeline.__init__/process_reads, PairedEndPipeline.__init__/_add_modifiers/_add_two_single_modifiers/_add_modifier/process_reads",
                      "modifiers.py:PairedEndModifierWrapper.__init__/__call__"],
        "bounds": {"options": "single-end: all subsets of {-u, --nextseq-trim, -q, -a, --poly-a, -l} x {--trim-n, --length-tag, --strip-suffix, -x/-y, --rename, -z} (3072 admissible subsets: --rename excludes -x/-y), "
                              "every one of their pipelines re-run under CrossHair; paired-end: all subsets of {-u, -U, --nextseq-trim, -q, -Q, -a, -A, --poly-a, -l, -L} x the same name options (49152 subsets) natively, "
                              "of which per trimming-option subset three pipelines (no name option / all with -x -y / all with --rename) are re-run under CrossHair (quick; thorough re-runs all 49152)",
                   "variants": "each with all trimming-option subsets: -u/-U given twice (order given) with -q 5,10 -Q 3,15; -g instead of -a; --revcomp; --pair-adapters; -Q 0; --nextseq-trim 0, -l 0, -L 0 next to -l 30, -q 0 next to -Q 7 (boundary values that are settings, not absence); --quality-base 64 (must reach the quality-based steps of either mate: NextSeq, -q/-Q, -z); -u 0 / -U 0 (removes nothing: no step); --times 2 --action mask (must reach the adapter cutter of either mate); -x alone; -y alone "
                               "(single-end variants x all 48 name-option combinations, paired variants x three of them)",
                   "argv": "three permutations per subset (as listed, reversed with the file names first, interleaved with the file names in the middle); a repeated -u keeps its relative order",
                   "reads": "one abstract read (pair) per run; payload symbolic"},
        "outside_bounds": ["what each modifier does to a read (C03, C13, C14, C09)", "options that do not modify reads (filters, outputs)", "--strip-suffix given several times, -n, --action",
                           "more than three argv permutations per subset"],
        "stubs": ["every modifier is replaced, after the pipeline was built by the real code, by a recording transformer value -> (k, value); steps are replaced by one recording sink",
                  "reads are abstract tokens (len 0); OutputFiles is replaced by a stand-in that opens nothing; adapters are built once per adapter set by the real adapters_from_args",
                  "InputFiles stand-in that yields one read (pair)"],
        "assumptions": ["CrossHair's model of int/tuple/list operations", "only 'Confirmed over all paths' counts as discharged"],
        "rule": "The claim is COMPLETE ENUMERATION of option subsets: every subset is parsed natively from three argv permutations, built by the real make_pipeline_from_args and run through the real process_reads loop with "
                "recording transformers at set_param() time. CrossHair's part is small: the symbolic inputs are the index of the trimming-option subset (index range split over the conditions), the mate and the abstract "
                "read value; per path it decides the Boolean/equality structure (stored native verdicts of all 48 name-option combinations of the block; re-run of the real loop with the symbolic read value on the kept "
                "pipelines of the block and comparison with the chain expected from the option bits). non-trivial = conditions with more than one explored path whose reachability twin is refuted",
    }


def jobs(tier, seed):
    return e2_jobs(CONDITIONS, tier)


def run_job(job):
    return e2_run_job(__name__, job)


def replay(cex):
    return e2_replay(cex)
