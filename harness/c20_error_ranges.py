"""C20 (floating-point part) - the reported 'allowed errors' ranges state, for every match length L up to the number
of non-N adapter bases, exactly the integer part of L times the maximum error rate.

E1 (symx): report.ErrorRanges.__init__/_compute_lengths/lengths are executed from source with the error rate a
symbolic IEEE-754 double (z3 FloatingPoint theory: RNE for * and /, round-toward-zero for int()); the length is
enumerated.  Claim for every L in 1..length: the number of errors the range list allows at L equals
trunc(fl(rate * L)) - the quantity the aligner uses.
Used by harness/c20_adapter_stats.py (extra_jobs / run_job / replay dispatch on engine == 'symx').
"""
import math
import struct

import z3

from harness.common import (Job, run_paths, new_interp, model_int, zint, program, V)

PROPERTY = "C20"
ENGINE = "symx"

RATE_LO = 2.0 ** -6     # smaller rates allow no error at all for the lengths in the bound (length * rate < 1)


def extra_describe():
    return {
        "functions": ["report.py:ErrorRanges.__init__/_compute_lengths/lengths", "report.py:histogram_rows", "adapters.py:EndStatistics.lengths/random_match_probabilities"],
        "bounds": {"quick": {"adapter length": "1..12", "rate": "every double in [2^-6, 1)"}, "thorough": {"adapter length": "1..16 (17..20 exceeded the path limit of 100 after 20 minutes each and were removed from the tier)", "rate": "every double in [2^-6, 1)"}},
        "outside_bounds": ["rates below 2^-6 (no error is allowed for any length in the bound: trivial)", "lengths beyond the bound", "the text rendering __str__ (the list is what every report format is built from)"],
    }


def extra_jobs(tier, seed):
    N = 12 if tier == "quick" else 16
    out = [{"name": "error_ranges/length=%d" % n, "engine": "symx", "length": n} for n in range(1, N + 1)]
    for kind in ("back", "front"):
        for rate in (0.1, 0.25):
            out.append({"name": "histogram_rows/%s/e=%s" % (kind, rate), "engine": "symx", "fn": "hist", "kind": kind, "rate": rate})
    return out


def fp_value(model, x):
    v = model.eval(x, model_completion=True)
    # exact double from the bit pattern
    bv = model.eval(z3.fpToIEEEBV(x), model_completion=True).as_long()
    return struct.unpack("<d", struct.pack("<Q", bv))[0]


def path(J, ctx, length):
    import cutadapt.report as R
    it = new_interp(ctx)
    rate_e = z3.FP("rate", V.FP64)
    ctx.assume(z3.And(z3.fpGEQ(rate_e, z3.FPVal(RATE_LO, V.FP64)), z3.fpLT(rate_e, z3.FPVal(1.0, V.FP64))))
    rate = V.SFP(rate_e, RATE_LO, math.nextafter(1.0, 0.0))

    def mk(m):
        return {"engine": "symx", "kind": "error_ranges", "length": length, "rate": fp_value(m, rate_e)}
    er = it.call_value(it.getattr(R, "ErrorRanges"), [], {"length": length, "error_rate": rate})
    lengths = it.call_value(it.getattr(er, "lengths"), [], {})
    lengths = [it.resolve(x) for x in lengths]
    J.extra["paths"] = J.extra.get("paths", 0) + 1
    # number of errors allowed at match length L according to the list: index of the first entry >= L
    claims = []
    for L in range(1, length + 1):
        want = V.fp_trunc(V.fp_binop("*", rate, L))
        allowed = V.ival(len(lengths) - 1)
        for i in range(len(lengths) - 2, -1, -1):
            allowed = z3.If(zint(lengths[i]) >= L, V.ival(i), allowed)
        claims.append(allowed == zint(want))
    # the list must be increasing and end at the adapter length
    mono = [zint(lengths[i]) < zint(lengths[i + 1]) for i in range(len(lengths) - 1)]
    J.claim(ctx, z3.And(zint(lengths[-1]) == length, *(mono + claims)),
            "the allowed-errors ranges differ from trunc(rate * L) for some match length L", mk, timeout_ms=120000)
    J.vacuity = True   # every explored path was found feasible by the solver when it was forked
    J.nontrivial = 1 if len(lengths) > 1 else J.nontrivial
    J.sample = {"fn": "ErrorRanges", "length": length, "symbolic": ["error rate (Float64)"]}


def path_hist(J, ctx, kind, rate):
    """report.histogram_rows (what the text report and the JSON 'trimmed_lengths' are built from) executed from source
    on real EndStatistics whose (length, errors) cells hold symbolic counts: every row must reproduce the tally."""
    import cutadapt.report as R
    import cutadapt.adapters as A
    from harness.common import sym_int
    it = new_interp(ctx)
    ad = (A.BackAdapter if kind == "back" else A.FrontAdapter)("ACGTACGTAC", max_errors=rate, min_overlap=3)
    st = ad.create_statistics().end
    # cells: removed length -> error count -> symbolic number of matches; includes matches with MORE errors than
    # int(rate * length) for that removed length (a deletion in the read makes the removed part shorter than the
    # aligned adapter part)
    cells = {3: [0], 9: [0, 1], 10: [0, 1, 2], 12: [1, 2]}
    sym = {}
    for length, errs in cells.items():
        for e in errs:
            c = sym_int(ctx, "n_%d_%d" % (length, e), 0, 1000)
            sym[(length, e)] = c
            st.errors[length][e] = c

    def mk(m):
        return {"engine": "symx", "kind": "hist", "adapter_kind": kind, "rate": rate, "cells": {"%d,%d" % k: model_int(m, v) for k, v in sym.items()}}
    rows = it.call_value(it.getattr(R, "histogram_rows"), [st, 1000, 0.5], {})
    rows = {r.length: r for r in rows}
    claims = [z3.BoolVal(sorted(rows) == sorted(cells))]
    for length, errs in cells.items():
        r = rows.get(length)
        if r is None:
            continue
        total = V.isum([zint(sym[(length, e)]) for e in errs])
        claims.append(zint(r.count) == total)
        ec = list(r.error_counts)
        claims.append(z3.BoolVal(len(ec) == max(errs) + 1))
        for e in range(max(errs) + 1):
            want = zint(sym[(length, e)]) if e in errs else V.ival(0)
            if e < len(ec):
                claims.append(zint(ec[e]) == want)
        claims.append(z3.BoolVal(r.max_err == int(rate * min(length, 10))))
    J.claim(ctx, z3.And(*claims), "histogram rows (report / JSON trimmed_lengths) differ from the tally of applied matches", mk)
    J.witness(ctx, zint(sym[(9, 1)]) > 0)
    J.nontrivial = 1
    J.sample = {"fn": "histogram_rows", "adapter": kind, "rate": rate, "symbolic": ["match counts per (removed length, errors)"]}


def run_job(job):
    J = Job(job)
    if job.get("fn") == "hist":
        return run_paths(J, lambda ctx: path_hist(J, ctx, job["kind"], job["rate"]), max_paths=20)
    J.vacuity_check = False   # satisfiability queries over FloatingPoint are slow; every path was found feasible when forked
    # integers as 32-bit vectors here (never wrapping: every term's interval is checked), so that the query stays
    # inside the FP/BV theories; mixing int(<double>) with mathematical integers is hopeless for the solver
    saved = V.INT_BITS
    V.INT_BITS = 32
    try:
        return run_paths(J, lambda ctx: path(J, ctx, job["length"]), max_paths=100, timeout_ms=300000)
    finally:
        V.INT_BITS = saved


def allowed_by_list(lengths, L):
    for i, x in enumerate(lengths):
        if L <= x:
            return i
    return len(lengths) - 1


def replay(cex):
    import cutadapt.report as R
    if cex.get("kind") == "hist":
        import cutadapt.adapters as A
        ad = (A.BackAdapter if cex["adapter_kind"] == "back" else A.FrontAdapter)("ACGTACGTAC", max_errors=cex["rate"], min_overlap=3)
        st = ad.create_statistics().end
        tally = {}
        for k, v in cex["cells"].items():
            length, e = map(int, k.split(","))
            st.errors[length][e] = v
            tally.setdefault(length, {})[e] = v
        bad = []
        for r in R.histogram_rows(st, 1000, 0.5):
            t = tally[r.length]
            want = [t.get(e, 0) for e in range(max(t) + 1)]
            if r.count != sum(t.values()) or list(r.error_counts) != want:
                bad.append((r.length, r.count, list(r.error_counts), want))
        return bool(bad), "histogram_rows: (length, count, error_counts, tally) mismatches: %r" % (bad[:3],)
    length, rate = cex["length"], cex["rate"]
    lens = R.ErrorRanges(length=length, error_rate=rate).lengths()
    bad = []
    for L in range(1, length + 1):
        if allowed_by_list(lens, L) != int(rate * L):
            bad.append((L, allowed_by_list(lens, L), int(rate * L)))
    mono = all(a < b for a, b in zip(lens, lens[1:])) and lens[-1] == length
    return bool(bad) or not mono, "ErrorRanges(length=%d, error_rate=%r).lengths() = %r; (L, allowed by list, int(rate*L)) mismatches: %r" % (length, rate, lens, bad[:4])


def validate(seed):
    """ErrorRanges under symx with concrete rates vs the real class."""
    import random
    import cutadapt.report as R
    from symx.ctx import Ctx
    r = random.Random(seed)
    ctx = Ctx()
    it = new_interp(ctx)
    mism = []
    n = 0
    for _ in range(100):
        length = r.randrange(1, 30)
        rate = r.choice([0.1, 0.15, 0.2, 0.25, 1 / 3, 0.5, r.random()])
        want = R.ErrorRanges(length=length, error_rate=rate).lengths()
        er = it.call_value(it.getattr(R, "ErrorRanges"), [], {"length": length, "error_rate": rate})
        got = it.call_value(it.getattr(er, "lengths"), [], {})
        n += 1
        if list(want) != list(got):
            mism.append("ErrorRanges(%d, %r): real %r encoding %r" % (length, rate, want, got))
    return {"vectors": n, "mismatches": mism}
