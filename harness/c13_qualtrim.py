"""C13 - quality trimming removes exactly the BWA-defined low-quality ends.

E1 (symx): qualtrim.pyx quality_trim_index / nextseq_trim_index are executed symbolically
(merge mode) for every length n <= N with symbolic quality characters, cut-offs, bases and both
quality bases, and compared with a declarative oracle written here from the property text.
modifiers.QualityTrimmer / NextseqQualityTrimmer.__call__ and cli.parse_cutoffs are executed
from source on top of that (slice taken at the returned indices, trimmed_bases bookkeeping).
"""
import itertools

import z3

from harness.common import (Job, run_paths, new_interp, sym_str, sym_int, model_int, model_str, zint, program, rng, V)

PROPERTY = "C13"
ENGINE = "symx"

CUT = 1 << 20


def describe():
    return {
        "functions": ["qualtrim.pyx:quality_trim_index", "qualtrim.pyx:nextseq_trim_index",
                      "modifiers.py:QualityTrimmer.__call__", "modifiers.py:NextseqQualityTrimmer.__call__", "cli.py:parse_cutoffs", "cli.py:make_quality_trimmers"],
        "bounds": {"quick": {"read_length": "0..9", "quality_chars": "33..126 (base 33) / 64..126 (base 64)", "cutoffs": "any int in [-2^20, 2^20]", "bases": "A,C,G,T,N,g"},
                   "thorough": {"read_length": "0..12", "quality_chars": "33..126", "cutoffs": "any int in [-2^20, 2^20]", "bases": "A,C,G,T,N,g"}},
        "outside_bounds": ["reads longer than the stated length", "quality characters outside 33..126 (non-printable / non-ASCII: the kernel raises ValueError for non-1-byte strings)",
                           "cut-offs beyond +-2^20 (int overflow of the running sum is excluded by interval analysis inside the bound)"],
        "stubs": ["SequenceRecord -> RecView (slice views of one symbolic record; slicing keeps sequence and qualities in step)"],
        "assumptions": ["PyUnicode_* accessors modelled: a str buffer of length n has n readable characters plus a terminating 0",
                        "bounded: every verdict is 'for all inputs within the stated lengths'"],
        "rule": "one job per (function, read length, quality base); each job = symbolic execution of the kernel + solver queries "
                "(oracle equality, corollaries, safety obligations). non-trivial = jobs whose reachability twin (some base is trimmed) is satisfiable",
    }


def jobs(tier, seed):
    N = 9 if tier == "quick" else 12
    out = []
    for n in range(0, N + 1):
        for base in (33, 64):
            out.append({"name": "quality_trim_index/n=%d/base=%d" % (n, base), "fn": "qti", "n": n, "base": base})
            out.append({"name": "nextseq_trim_index/n=%d/base=%d" % (n, base), "fn": "nextseq", "n": n, "base": base})
        out.append({"name": "base_shift/n=%d" % n, "fn": "shift", "n": n})
        for base in (33, 64):
            out.append({"name": "modifiers/n=%d/base=%d" % (n, base), "fn": "modifiers", "n": n, "base": base})
    out.append({"name": "parse_cutoffs", "fn": "parse"})
    return out


# ------------------------------------------------------------------------- oracle (from the text)
def suffix_spec(q, cutoff, n, stop):
    """stop (z3 Int) is the BWA 3' trim position for adjusted qualities q[i] (z3 Int list):
    candidates are n and every i such that all running sums S(j) = sum_{k>=j}(cutoff - q[k]), i<=j<n, are >= 0;
    among them the one with maximal S, the largest index (shortest suffix) on ties."""
    S = [None] * (n + 1)
    S[n] = V.ival(0)
    for i in range(n - 1, -1, -1):
        S[i] = S[i + 1] + (cutoff - q[i])
    valid = [None] * (n + 1)
    valid[n] = z3.BoolVal(True)
    for i in range(n - 1, -1, -1):
        valid[i] = z3.And(valid[i + 1], S[i] >= 0)
    cases = []
    for r in range(n + 1):
        best = [valid[r]]
        for p in range(n + 1):
            if p == r:
                continue
            # p is not better: invalid, or smaller sum, or equal sum with p < r
            ok = z3.Or(z3.Not(valid[p]), S[p] < S[r], z3.And(S[p] == S[r], p < r) if p < r else z3.BoolVal(False))
            best.append(ok)
        cases.append(z3.Implies(stop == r, z3.And(*best)))
    return z3.And(z3.And(stop >= 0, stop <= n), *cases)


def prefix_spec(q, cutoff, n, start):
    """start: number of leading bases removed; mirror image of suffix_spec (shortest prefix on ties)."""
    qr = list(reversed(q))
    return suffix_spec(qr, cutoff, n, n - start)


def combined_spec(q, cf, cb, n, start, stop):
    s5 = V.ivar("spec_start")
    s3 = V.ivar("spec_stop")
    return s5, s3, z3.And(prefix_spec(q, cf, n, s5), suffix_spec(q, cb, n, s3),
                          z3.If(s5 >= s3, z3.And(start == 0, stop == 0), z3.And(start == s5, stop == s3)))


# ------------------------------------------------------------------------- record stub
class RecView:
    """Stand-in for dnaio.SequenceRecord: a slice view [start:stop] of one base record."""
    __symx__ = True

    def __init__(self, seq, qual, start=0, stop=None, name="r"):
        self.base_seq = seq
        self.base_qual = qual
        self.n = len(seq)
        self.start = start
        self.stop = self.n if stop is None else stop
        self.name = name

    @property
    def sequence(self):
        if isinstance(self.start, int) and isinstance(self.stop, int):
            return self.base_seq[self.start:self.stop]
        raise V.Unsupported("sequence of a symbolic view")

    @property
    def qualities(self):
        if self.base_qual is None:
            return None
        if isinstance(self.start, int) and isinstance(self.stop, int):
            return self.base_qual[self.start:self.stop]
        raise V.Unsupported("qualities of a symbolic view")

    def symx_len(self, it):
        return V.int_max(V.int_sub(self.stop, self.start), 0)

    def symx_getitem(self, it, idx):
        if not isinstance(idx, slice) or idx.step not in (None, 1):
            raise V.Unsupported("record subscript")
        ln = self.symx_len(it)
        def norm(x, default):
            if x is None:
                return default
            x = it.resolve(x)
            # python slice semantics: negative counts from the end, then clamp to [0, len]
            neg = V.int_cmp("<", x, 0)
            if neg is True:
                x = V.int_add(x, ln)
            elif neg is not False:
                x = V.int_ite(neg.e, V.int_add(x, ln), x)
            return V.int_min(V.int_max(x, 0), ln)
        a = norm(idx.start, 0)
        b = norm(idx.stop, ln)
        b = V.int_max(a, b)
        return RecView(self.base_seq, self.base_qual, V.int_add(self.start, a), V.int_add(self.start, b), self.name)


# ------------------------------------------------------------------------- jobs
def run_job(job):
    J = Job(job)
    fn = job["fn"]
    tmo = 600000 if job.get("tier") == "thorough" else 90000
    if fn == "qti":
        return run_paths(J, lambda ctx: path_qti(J, ctx, job["n"], job["base"]), timeout_ms=tmo)
    if fn == "nextseq":
        return run_paths(J, lambda ctx: path_nextseq(J, ctx, job["n"], job["base"]), timeout_ms=tmo)
    if fn == "shift":
        return run_paths(J, lambda ctx: path_shift(J, ctx, job["n"]), timeout_ms=tmo)
    if fn == "modifiers":
        return run_paths(J, lambda ctx: path_modifiers(J, ctx, job["n"], job.get("base", 33)), timeout_ms=tmo)
    if fn == "parse":
        return run_parse(J)
    raise ValueError(fn)


def _cex(kind, **sym):
    def make(m):
        d = {"kind": kind}
        for k, v in sym.items():
            d[k] = model_str(m, v) if isinstance(v, (V.SStr, str)) else model_int(m, v)
        return d
    return make


def path_qti(J, ctx, n, base):
    it = new_interp(ctx)
    f = program().pyx["cutadapt.qualtrim"].globals["quality_trim_index"]
    quals = sym_str(ctx, "q", n, lo=base, hi=126)
    cf = sym_int(ctx, "cf", -CUT, CUT)
    cb = sym_int(ctx, "cb", -CUT, CUT)
    start, stop = it.call_value(f, [quals, cf, cb, base], {})
    mk = _cex("qti", qualities=quals, cutoff_front=cf, cutoff_back=cb, base=base)
    J.safety(ctx, mk)
    q = [zint(c) - base for c in quals.chars]
    s5, s3, spec = combined_spec(q, zint(cf), zint(cb), n, zint(start), zint(stop))
    # the oracle determines s5 and s3 uniquely; the kernel's result must agree for every such s5,s3
    ctx.assume(z3.And(prefix_spec(q, zint(cf), n, s5), suffix_spec(q, zint(cb), n, s3)))
    J.claim(ctx, z3.If(s5 >= s3, z3.And(zint(start) == 0, zint(stop) == 0), z3.And(zint(start) == s5, zint(stop) == s3)),
            "quality_trim_index differs from the BWA definition", mk)
    if n:
        allge = z3.And(*[x >= zint(cf) for x in q] + [x >= zint(cb) for x in q])
        J.claim(ctx, z3.Implies(allge, z3.And(zint(start) == 0, zint(stop) == n)), "read with all qualities >= cutoff was changed", mk)
        alllt = z3.And(*[x < zint(cf) for x in q] + [x < zint(cb) for x in q])
        J.claim(ctx, z3.Implies(alllt, zint(stop) - zint(start) == 0), "read with all qualities < cutoff is not empty", mk)
        if J.witness(ctx, z3.And(zint(stop) - zint(start) < n, zint(stop) - zint(start) > 0) if n > 1 else zint(stop) - zint(start) < n):
            J.nontrivial += 1
    else:
        J.witness(ctx, None)
    J.sample = {"fn": "quality_trim_index", "n": n, "base": base, "symbolic": ["qualities", "cutoff_front", "cutoff_back"]}


def path_nextseq(J, ctx, n, base):
    it = new_interp(ctx)
    f = program().pyx["cutadapt.qualtrim"].globals["nextseq_trim_index"]
    quals = sym_str(ctx, "q", n, lo=base, hi=126)
    bases = sym_str(ctx, "b", n, alphabet="ACGTNg")
    c = sym_int(ctx, "c", -CUT, CUT)
    rec = RecView(bases, quals)
    stop = it.call_value(f, [rec, c, base], {})
    mk = _cex("nextseq", sequence=bases, qualities=quals, cutoff=c, base=base)
    J.safety(ctx, mk)
    q = [z3.If(zint(b) == ord("G"), zint(c) - 1, zint(x) - base) for x, b in zip(quals.chars, bases.chars)]
    s3 = V.ivar("spec_stop")
    ctx.assume(suffix_spec(q, zint(c), n, s3))
    J.claim(ctx, zint(stop) == s3, "nextseq_trim_index differs from the definition (G counts as cutoff-1)", mk)
    if n and J.witness(ctx, z3.And(zint(stop) < n, zint(bases.chars[-1]) == ord("G"))):
        J.nontrivial += 1
    elif not n:
        J.witness(ctx, None)
    J.sample = {"fn": "nextseq_trim_index", "n": n, "base": base, "symbolic": ["sequence", "qualities", "cutoff"]}


def path_shift(J, ctx, n):
    """The quality base only shifts the scale: (q, base 33) and (q + 31, base 64) give the same result."""
    it = new_interp(ctx)
    g = program().pyx["cutadapt.qualtrim"].globals
    quals = sym_str(ctx, "q", n, lo=33, hi=95)
    shifted = V.SStr([V.int_add(c, 31) for c in quals.chars])
    bases = sym_str(ctx, "b", n, alphabet="ACGTNg")
    cf = sym_int(ctx, "cf", -CUT, CUT)
    cb = sym_int(ctx, "cb", -CUT, CUT)
    a = it.call_value(g["quality_trim_index"], [quals, cf, cb, 33], {})
    b = it.call_value(g["quality_trim_index"], [shifted, cf, cb, 64], {})
    c = it.call_value(g["nextseq_trim_index"], [RecView(bases, quals), cb, 33], {})
    d = it.call_value(g["nextseq_trim_index"], [RecView(bases, shifted), cb, 64], {})
    mk = _cex("shift", qualities=quals, sequence=bases, cutoff_front=cf, cutoff_back=cb)
    J.safety(ctx, mk)
    J.claim(ctx, z3.And(zint(a[0]) == zint(b[0]), zint(a[1]) == zint(b[1]), zint(c) == zint(d)), "result depends on the quality base beyond the shift", mk)
    J.witness(ctx, zint(a[1]) < n if n else None)
    J.nontrivial += 1 if n else 0
    J.sample = {"fn": "base shift 33 vs 64", "n": n}


def path_modifiers(J, ctx, n, base=33):
    import cutadapt.modifiers as M
    it = new_interp(ctx)
    quals = sym_str(ctx, "q", n, lo=base, hi=126)
    bases = sym_str(ctx, "b", n, alphabet="ACGTNg")
    cf = sym_int(ctx, "cf", -CUT, CUT)
    cb = sym_int(ctx, "cb", -CUT, CUT)
    t0 = sym_int(ctx, "t0", 0, 1 << 40)
    g = program().pyx["cutadapt.qualtrim"].globals
    mk = _cex("modifiers", qualities=quals, sequence=bases, cutoff_front=cf, cutoff_back=cb, trimmed_before=t0, base=base)
    # QualityTrimmer
    qt = object.__new__(M.QualityTrimmer)
    it.call_value(it.getattr(qt, "__init__"), [cf, cb, base], {})
    qt.trimmed_bases = t0
    rec = RecView(bases, quals)
    out = it.call_value(it.getattr(qt, "__call__"), [rec, None], {})
    start, stop = it.call_value(g["quality_trim_index"], [quals, cf, cb, base], {})
    J.safety(ctx, mk)
    J.claim(ctx, z3.And(zint(out.start) == zint(start), zint(out.stop) == z3.If(zint(stop) >= zint(start), zint(stop), zint(start)),
                        zint(qt.trimmed_bases) == zint(t0) + n - (zint(out.stop) - zint(out.start))),
            "QualityTrimmer: slice or trimmed_bases differ from the kernel's indices", mk)
    # NextseqQualityTrimmer
    nt = object.__new__(M.NextseqQualityTrimmer)
    it.call_value(it.getattr(nt, "__init__"), [cb, base], {})
    nt.trimmed_bases = t0
    out2 = it.call_value(it.getattr(nt, "__call__"), [rec, None], {})
    s2 = it.call_value(g["nextseq_trim_index"], [rec, cb, base], {})
    J.safety(ctx, mk)
    J.claim(ctx, z3.And(zint(out2.start) == 0, zint(out2.stop) == zint(s2), zint(nt.trimmed_bases) == zint(t0) + n - zint(s2)),
            "NextseqQualityTrimmer: slice or trimmed_bases differ from the kernel's index", mk)
    J.witness(ctx, zint(out.stop) - zint(out.start) < n if n else None)
    J.nontrivial += 1 if n else 0
    J.sample = {"fn": "QualityTrimmer/NextseqQualityTrimmer.__call__", "n": n, "base": base}


def run_parse(J):
    """cli.parse_cutoffs on the two documented shapes 'INT' and 'INT,INT' with symbolic digits."""
    import cutadapt.cli as cli

    def body(ctx):
        it = new_interp(ctx)
        f = it.getattr(cli, "parse_cutoffs")
        for shape in ("d", "dd", "d,d", "dd,d", "d,dd"):
            s_chars = []
            syms = []
            for i, ch in enumerate(shape):
                if ch == "d":
                    c = sym_str(ctx, "p%s_%d" % (shape.replace(",", "c"), i), 1, alphabet="0123456789").chars[0]
                    s_chars.append(c)
                    syms.append(c)
                else:
                    s_chars.append(ord(","))
            s = V.SStr(s_chars)
            try:
                r = it.call_value(f, [s], {})
            except V.Unsupported as e:
                # int() of a symbolic string is outside symx' models: enumerate the digits concretely instead
                J.extra["parse_cutoffs_mode"] = "concrete enumeration (int(str) is not modelled symbolically)"
                r = None
            if r is None:
                import itertools as itx
                nd = shape.count("d")
                for digits in itx.product("059", repeat=nd):
                    t = iter(digits)
                    txt = "".join(next(t) if ch == "d" else ch for ch in shape)
                    got = it.call_value(f, [txt], {})
                    parts = [int(x) for x in txt.split(",")]
                    want = (0, parts[0]) if len(parts) == 1 else (parts[0], parts[1])
                    J.obligations += 1
                    if tuple(got) == want:
                        J.discharged += 1
                    elif J.cex is None:
                        J.violated += 1
                        J.cex = {"kind": "parse", "text": txt, "what": "parse_cutoffs(%r) = %r, documented %r" % (txt, got, want)}
        # make_quality_trimmers (executed from source, concrete option texts): which trimmers are built for -q / -Q
        mk = it.getattr(cli, "make_quality_trimmers")

        def want_pair(txt):
            parts = [int(x) for x in txt.split(",")]
            return (0, parts[0]) if len(parts) == 1 else (parts[0], parts[1])

        def same(tr, txt, base):
            """the trimmer built for option text txt behaves as the documented cut-off pair (absent = trims nothing)"""
            w = want_pair(txt)
            if tr is None:
                return w == (0, 0)
            return (tr.cutoff_front, tr.cutoff_back, tr.base) == (w[0], w[1], base)
        texts = ["5", "0", "5,0", "0,5", "6,7", "0,0", "20,0", "0,20"]
        for base in (33, 64):
            for q1 in texts:
                got = it.call_value(mk, [q1, None, base, False], {})
                J.obligations += 1
                tr = got[0] if got else None
                if len(got) <= 1 and same(tr, q1, base):
                    J.discharged += 1
                elif J.cex is None:
                    J.violated += 1
                    J.cex = {"kind": "make_qt", "q1": q1, "q2": None, "base": base, "paired": False, "what": "make_quality_trimmers(%r) does not build the trimmer for the documented cut-off pair" % (q1,)}
                for q2 in [None] + texts:
                    got = it.call_value(mk, [q1, q2, base, True], {})
                    J.obligations += 1
                    pair = got[0] if got else (None, None)
                    ok = len(got) <= 1 and same(pair[0], q1, base) and same(pair[1], q1 if q2 is None else q2, base)
                    if ok:
                        J.discharged += 1
                    elif J.cex is None:
                        J.violated += 1
                        J.cex = {"kind": "make_qt", "q1": q1, "q2": q2, "base": base, "paired": True, "what": "make_quality_trimmers(%r, %r, paired) does not build the trimmers for the documented cut-off pairs (-q applies to R2 unless -Q is given)" % (q1, q2)}
        J.vacuity = True
        J.nontrivial += 1
        J.sample = {"fn": "parse_cutoffs / make_quality_trimmers", "shapes": ["INT", "INT,INT"], "option texts": texts}
    return run_paths(J, body)


# ------------------------------------------------------------------------- translator validation
def validate(seed):
    """The repo's own test inputs and seeded random inputs through the real extension and the encoding."""
    import cutadapt.qualtrim as real
    from symx.ctx import Ctx
    r = rng(seed, "c13")
    vectors = [("", 10, 10, 33), ("I", 10, 10, 33), ("#", 10, 10, 33)]
    # tests/test_qualtrim.py
    vectors += [("".join(chr(33 + q) for q in qs), cf, cb, 33) for qs, cf, cb in [
        ([2, 2, 30, 30, 2, 2], 10, 10), ([30, 30, 2, 2], 0, 10), ([2, 2, 30, 30], 10, 0), ([30] * 6, 10, 10), ([2] * 6, 10, 10), ([10, 9, 11, 10, 9, 11], 10, 10)]]
    for _ in range(150):
        n = r.randrange(0, 14)
        base = r.choice((33, 64))
        vectors.append(("".join(chr(r.randrange(base, 127)) for _ in range(n)), r.randrange(-5, 45), r.randrange(-5, 45), base))
    mism = []
    ctx = Ctx()
    it = new_interp(ctx)
    g = program().pyx["cutadapt.qualtrim"].globals
    for q, cf, cb, base in vectors:
        want = real.quality_trim_index(q, cf, cb, base)
        got = it.call_value(g["quality_trim_index"], [q, cf, cb, base], {})
        if tuple(got) != tuple(want):
            mism.append("quality_trim_index%r: real %r, encoding %r" % ((q, cf, cb, base), want, got))
        seq = "".join(r.choice("ACGTG") for _ in q)
        class R:
            pass
        rr = R()
        rr.sequence, rr.qualities = seq, q
        want = real.nextseq_trim_index(rr, cb, base)
        got = it.call_value(g["nextseq_trim_index"], [RecView(seq, q), cb, base], {})
        if got != want:
            mism.append("nextseq_trim_index%r: real %r, encoding %r" % ((seq, q, cb, base), want, got))
    return {"vectors": 2 * len(vectors), "mismatches": mism}


# ------------------------------------------------------------------------- replay on the real build
def brute_suffix(q, cutoff):
    n = len(q)
    best, bi, s = 0, n, 0
    cand = [(0, n)]
    for i in range(n - 1, -1, -1):
        s += cutoff - q[i]
        if s < 0:
            break
        cand.append((s, i))
    m = max(c[0] for c in cand)
    return max(i for s, i in cand if s == m)


def expected_qti(quals, cf, cb, base):
    q = [ord(c) - base for c in quals]
    n = len(q)
    s3 = brute_suffix(q, cb)
    s5 = n - brute_suffix(q[::-1], cf)
    return (0, 0) if s5 >= s3 else (s5, s3)


def replay(cex):
    import cutadapt.qualtrim as real
    import cutadapt.modifiers as M
    import dnaio
    k = cex["kind"]
    if k == "qti":
        got = tuple(real.quality_trim_index(cex["qualities"], cex["cutoff_front"], cex["cutoff_back"], cex["base"]))
        want = expected_qti(cex["qualities"], cex["cutoff_front"], cex["cutoff_back"], cex["base"])
        return got != want, "quality_trim_index(%r, %d, %d, %d) = %r, BWA definition gives %r" % (
            cex["qualities"], cex["cutoff_front"], cex["cutoff_back"], cex["base"], got, want)
    if k == "nextseq":
        rec = dnaio.SequenceRecord("r", cex["sequence"], cex["qualities"])
        got = real.nextseq_trim_index(rec, cex["cutoff"], cex["base"])
        q = [cex["cutoff"] - 1 if b == "G" else ord(c) - cex["base"] for b, c in zip(cex["sequence"], cex["qualities"])]
        want = brute_suffix(q, cex["cutoff"])
        return got != want, "nextseq_trim_index(%r/%r, %d, %d) = %r, definition gives %r" % (cex["sequence"], cex["qualities"], cex["cutoff"], cex["base"], got, want)
    if k == "shift":
        q = cex["qualities"]
        sh = "".join(chr(ord(c) + 31) for c in q)
        a = real.quality_trim_index(q, cex["cutoff_front"], cex["cutoff_back"], 33)
        b = real.quality_trim_index(sh, cex["cutoff_front"], cex["cutoff_back"], 64)
        c = real.nextseq_trim_index(dnaio.SequenceRecord("r", cex["sequence"], q), cex["cutoff_back"], 33)
        d = real.nextseq_trim_index(dnaio.SequenceRecord("r", cex["sequence"], sh), cex["cutoff_back"], 64)
        return (tuple(a) != tuple(b)) or c != d, "base 33: %r/%r, base 64: %r/%r" % (a, c, b, d)
    if k == "modifiers":
        rec = dnaio.SequenceRecord("r", cex["sequence"], cex["qualities"])
        base = cex.get("base", 33)
        qt = M.QualityTrimmer(cex["cutoff_front"], cex["cutoff_back"], base)
        qt.trimmed_bases = cex["trimmed_before"]
        out = qt(rec, None)
        s, e = expected_qti(cex["qualities"], cex["cutoff_front"], cex["cutoff_back"], base)
        bad = out.sequence != cex["sequence"][s:e] or out.qualities != cex["qualities"][s:e] or qt.trimmed_bases != cex["trimmed_before"] + len(rec) - (e - s)
        nt = M.NextseqQualityTrimmer(cex["cutoff_back"], base)
        nt.trimmed_bases = cex["trimmed_before"]
        out2 = nt(rec, None)
        q = [cex["cutoff_back"] - 1 if b == "G" else ord(c) - base for b, c in zip(cex["sequence"], cex["qualities"])]
        e2 = brute_suffix(q, cex["cutoff_back"])
        bad2 = out2.sequence != cex["sequence"][:e2] or out2.qualities != cex["qualities"][:e2] or nt.trimmed_bases != cex["trimmed_before"] + len(rec) - e2
        return bad or bad2, "QualityTrimmer -> %r (trimmed_bases %r), Nextseq -> %r (trimmed_bases %r)" % (out.sequence, qt.trimmed_bases, out2.sequence, nt.trimmed_bases)
    if k == "make_qt":
        import cutadapt.cli as cli

        def want_pair(txt):
            parts = [int(x) for x in txt.split(",")]
            return (0, parts[0]) if len(parts) == 1 else (parts[0], parts[1])

        def same(tr, txt):
            w = want_pair(txt)
            return w == (0, 0) if tr is None else (tr.cutoff_front, tr.cutoff_back, tr.base) == (w[0], w[1], cex["base"])
        got = list(cli.make_quality_trimmers(cex["q1"], cex["q2"], cex["base"], cex["paired"]))
        if cex["paired"]:
            pair = got[0] if got else (None, None)
            ok = len(got) <= 1 and same(pair[0], cex["q1"]) and same(pair[1], cex["q1"] if cex["q2"] is None else cex["q2"])
        else:
            ok = len(got) <= 1 and same(got[0] if got else None, cex["q1"])
        return not ok, "make_quality_trimmers(%r, %r, %d, paired=%s) -> %r" % (cex["q1"], cex["q2"], cex["base"], cex["paired"], got)
    if k == "parse":
        import cutadapt.cli as cli
        txt = cex["text"]
        parts = [int(x) for x in txt.split(",")]
        want = (0, parts[0]) if len(parts) == 1 else (parts[0], parts[1])
        got = cli.parse_cutoffs(txt)
        return tuple(got) != want, "parse_cutoffs(%r) = %r, documented %r" % (txt, got, want)
    return False, "unknown counterexample kind"
