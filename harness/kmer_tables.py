"""C07, table level: the k-mer windows that the real code builds leave no admissible occurrence uncovered - for
adapter lengths that the end-to-end encoding of c07_prefilter.py cannot reach (5..34, 48 in the thorough tier).

What runs from /repo's current source, concretely: the adapter class constructor with its _kmer_finder() /
SingleAdapter._make_kmer_finder() and kmer_heuristic.create_positions_and_kmers() (all of kmer_heuristic.py), on an
adapter of m DISTINCT symbols, so that every k-mer of the resulting table names one interval of the adapter.  The
table handed to KmerFinder is recorded (the compiled finder is also built once on an ACGT image of the table, so that
the "k-mers too long -> no prefilter" fallback is taken exactly when the real code takes it).

What the solver decides, for ALL occurrences at once: an occurrence is an alignment shape - adapter interval
[a0, a1), read start r0, read length n, up to E = trunc(rate*m) errors, each a substitution / insertion / deletion at a
symbolic adapter position - admitted by the placement rule of the adapter class, the minimum overlap and the error
tolerance trunc(rate*(a1-a0)) (the C01/C02 contract of the aligner).  Claim: some k-mer of some search set is
untouched by the errors and its image in the read lies inside that set's window [start, stop) as KmerFinder.kmers_present
evaluates it for a read of length n (transcribed from _kmer_finder.pyx; compared with the compiled kmers_present on every
run, validate()).  unsat = every admissible occurrence keeps a k-mer in its window = the prefilter cannot reject a read
in which the aligner would find that occurrence.

A satisfying assignment is only a CANDIDATE: it is turned into concrete ACGT adapters and reads (random fill-ins, every
substitute base) and match_to of the real class is run with and without the prefilter; only a read on which the two
differ is reported (and replayed by c07_prefilter.replay).  A candidate that cannot be realised makes the job
inconclusive, never a violation.

Outside: wildcards (adapter or read), the 'force anywhere' variant of the rightmost 5' adapter, error budgets above MAX_E.
"""
import random
import time

import z3

from harness import align_common as AC

SYMS = [chr(c) for c in range(33, 97) if chr(c) not in "UI"]       # 62 distinct symbols that survive upper()/U->T/I->N
KINDS = ["back", "front", "rightmost_front", "nonint_back", "nonint_front", "prefix", "suffix", "anywhere", "back_fa", "front_fa"]
RATES_QUICK = [0.1, 0.15, 0.2, 0.25, 0.34]
RATES_THOROUGH = [0.05, 0.08, 0.1, 0.12, 0.15, 0.18, 0.2, 0.25, 0.3, 0.34, 0.4]
MAX_E = 6
MAX_E_THOROUGH = 8


def table_jobs(tier, seed):
    out = []
    ms = range(5, 35) if tier == "quick" else range(5, 49)
    for kind in KINDS:
        for m in ms:
            out.append({"name": "tables/%s/m=%d" % (kind, m), "fn": "table", "kind": kind, "m": m,
                        "rates": RATES_QUICK if tier == "quick" else RATES_THOROUGH, "max_e": MAX_E if tier == "quick" else MAX_E_THOROUGH})
    return out


# ---------------------------------------------------------------------------------- the table, from the real code
class _TooLong(Exception):
    pass


def real_table(kind, m, cfg):
    """-> None (the class uses no prefilter for this configuration) | [(start, stop, [(c0, c1), ...])], mirrored flag"""
    import cutadapt.adapters as A
    seq = "".join(SYMS[:m])
    real_kf = A.KmerFinder
    rec = {}

    class Recorder:
        def __init__(self, positions_and_kmers, ref_wildcards=False, query_wildcards=False):
            rec["table"] = [(s, e, list(ks)) for s, e, ks in positions_and_kmers]
            # the compiled constructor decides whether the table fits its bit masks (ValueError -> MockKmerFinder)
            real_kf([(s, e, ["".join("ACGT"[SYMS.index(c) % 4] for c in k) for k in ks]) for s, e, ks in positions_and_kmers], ref_wildcards, query_wildcards)

        def kmers_present(self, sequence):
            return True

    A.KmerFinder = Recorder
    try:
        ad = AC.real_adapter(kind, cfg, seq)
    finally:
        A.KmerFinder = real_kf
    if not isinstance(ad.kmer_finder, Recorder):
        return None, False, None
    # AnywhereAdapter.match_to consults the prefilter only for reads that its own guard lets through: take the guard from
    # the real method (it looks at the length only)
    consulted = None
    if kind in ("anywhere", "back_fa", "front_fa"):
        consulted = [not ad._is_shorter_than_adapter("A" * n) for n in range(0, 3 * m + 3 * int(cfg["rate"] * m) + 5)]
    tab = rec["table"]
    # RightmostFrontAdapter builds its table for the reversed adapter and asks it about the reversed read
    mirrored = kind == "rightmost_front"
    base = seq[::-1] if mirrored else seq
    out = []
    for s, e, ks in tab:
        ivs = []
        for k in ks:
            p = base.find(k)
            if p < 0:
                raise ValueError("k-mer %r of the table is not a substring of the %sadapter" % (k, "reversed " if mirrored else ""))
            ivs.append((p, p + len(k)))
        out.append((s, e, ivs))
    return out, mirrored, consulted


# ---------------------------------------------------------------------------------- the solver query
def _placement(kind, m, a0, a1, r0, r1, n):
    if kind == "back":
        return z3.And(a0 == 0, z3.Or(a1 == m, r1 == n))
    if kind in ("front", "rightmost_front"):
        return z3.And(a1 == m, z3.Or(a0 == 0, r0 == 0))
    if kind == "nonint_back":
        return z3.And(a0 == 0, r1 == n)
    if kind == "nonint_front":
        return z3.And(a1 == m, r0 == 0)
    if kind == "prefix":
        return z3.And(a0 == 0, a1 == m, r0 == 0)
    if kind == "suffix":
        return z3.And(a0 == 0, a1 == m, r1 == n)
    if kind in ("anywhere", "back_fa", "front_fa"):
        return z3.And(z3.Or(a0 == 0, r0 == 0), z3.Or(a1 == m, r1 == n))
    raise ValueError(kind)


def candidate(kind, m, cfg, tab, mirrored, timeout_ms=60000, consulted=None):
    """-> ('unsat' | 'unknown', seconds) | ('sat', seconds, shape)"""
    rate, mo, indels = cfg["rate"], cfg["min_overlap"], cfg["indels"]
    E = int(rate * m)
    model_kind = kind
    if mirrored:
        # the table is made for the reversed adapter and is asked about the reversed read (RightmostFrontAdapter):
        # in reversed coordinates a 5' placement is the 3' placement
        model_kind = {"rightmost_front": "back", "front": "back", "nonint_front": "nonint_back", "prefix": "suffix"}[kind]
    s = z3.Solver()
    s.set("timeout", timeout_ms)
    a0, a1, r0, n = z3.Ints("a0 a1 r0 n")
    act = [z3.Bool("act%d" % k) for k in range(E)]
    typ = [z3.Int("typ%d" % k) for k in range(E)]        # 0 substitution, 1 insertion (extra read character), 2 deletion
    pos = [z3.Int("pos%d" % k) for k in range(E)]
    zero = z3.IntVal(0)
    nact = z3.Sum([z3.If(a, 1, 0) for a in act]) if E else zero
    nins = z3.Sum([z3.If(z3.And(act[k], typ[k] == 1), 1, 0) for k in range(E)]) if E else zero
    ndel = z3.Sum([z3.If(z3.And(act[k], typ[k] == 2), 1, 0) for k in range(E)]) if E else zero
    r1 = r0 + (a1 - a0) + nins - ndel
    L = a1 - a0
    s.add(0 <= a0, a0 < a1, a1 <= m, 0 <= r0, r0 <= r1, r1 <= n, n <= 3 * m + 3 * E + 4)
    s.add(L >= min(mo, m))
    steps = [l for l in range(1, m + 1) if int(rate * l) > int(rate * (l - 1))]
    assert len(steps) == E
    allowed = z3.Sum([z3.If(L >= l, 1, 0) for l in steps]) if steps else zero
    s.add(nact <= allowed)
    for k in range(E):
        s.add(z3.And(typ[k] >= 0, typ[k] <= 2))
        if not indels:
            s.add(typ[k] == 0)
        s.add(z3.Implies(act[k], z3.If(typ[k] == 1, z3.And(a0 < pos[k], pos[k] < a1), z3.And(a0 <= pos[k], pos[k] < a1))))
        if k:
            s.add(z3.Implies(act[k], z3.And(act[k - 1], pos[k - 1] <= pos[k])))
        for j in range(k):
            s.add(z3.Implies(z3.And(act[k], act[j], typ[k] != 1, typ[j] != 1), pos[k] != pos[j]))
    s.add(_placement(model_kind, m, a0, a1, r0, r1, n))
    if consulted is not None:
        # the read lengths for which the class asks the prefilter at all (evaluated on the real guard method)
        s.add(z3.Or(*[n == i for i, c in enumerate(consulted) if c]))
    for (st, en, ivs) in tab:
        if st < 0:
            ws = z3.If(n + st < 0, zero, n + st)
            skip = z3.BoolVal(False)
        else:
            ws = z3.IntVal(st)
            skip = st > n
        if en is None or en == 0:
            we = n
        elif en < 0:
            we = n + en
        else:
            we = z3.If(en > n, n, z3.IntVal(en))
        for (c0, c1) in ivs:
            covered = z3.And(a0 <= c0, c1 <= a1)
            broken = z3.Or(*[z3.And(act[k], z3.If(typ[k] == 1, z3.And(c0 < pos[k], pos[k] < c1), z3.And(c0 <= pos[k], pos[k] < c1))) for k in range(E)]) if E else z3.BoolVal(False)
            shift = z3.Sum([z3.If(z3.And(act[k], typ[k] == 1, pos[k] <= c0), 1, 0) for k in range(E)] + [z3.If(z3.And(act[k], typ[k] == 2, pos[k] < c0), -1, 0) for k in range(E)]) if E else zero
            img = r0 + (c0 - a0) + shift
            inside = z3.And(z3.Not(skip), ws <= img, img + (c1 - c0) <= we)
            s.add(z3.Not(z3.And(covered, z3.Not(broken), inside)))
    t = time.time()
    r = str(s.check())
    dt = time.time() - t
    if r != "sat":
        return (r, dt)
    md = s.model()

    def g(x):
        v = md.eval(x, model_completion=True)
        return z3.is_true(v) if z3.is_bool(v) else v.as_long()
    shape = {"a0": g(a0), "a1": g(a1), "r0": g(r0), "n": g(n), "errors": [(g(typ[k]), g(pos[k])) for k in range(E) if g(act[k])], "mirrored": mirrored}
    return ("sat", dt, shape)


# ---------------------------------------------------------------------------------- realisation on the real code
def realise(kind, m, cfg, shape, seed, tries=400):
    """-> (adapter, read) on which match_to with and without the prefilter differ | None"""
    r = random.Random("%s|%s|%s|%r" % (seed, kind, m, sorted(cfg.items())))
    a0, a1, r0, n = shape["a0"], shape["a1"], shape["r0"], shape["n"]
    for _ in range(tries):
        # an adapter without immediate repeats (fewer accidental k-mer hits)
        ad = []
        for i in range(m):
            ad.append(r.choice([b for b in "ACGT" if not ad or b != ad[-1]]))
        ad = "".join(ad)
        occ = []
        for p in range(a0, a1):
            for (t, q) in shape["errors"]:
                if t == 1 and q == p:
                    occ.append(r.choice([b for b in "ACGT" if b != ad[p] and (p == 0 or b != ad[p - 1])] or list("ACGT")))
            kinds_here = [t for (t, q) in shape["errors"] if q == p and t != 1]
            if 2 in kinds_here:
                continue
            if 0 in kinds_here:
                occ.append(r.choice([b for b in "ACGT" if b != ad[p]]))
            else:
                occ.append(ad[p])
        occ = "".join(occ)
        right = n - r0 - len(occ)
        if right < 0:
            return None
        read = "".join(r.choice("ACGT") for _ in range(r0)) + occ + "".join(r.choice("ACGT") for _ in range(right))
        if shape.get("mirrored"):
            ad, read = ad[::-1], read[::-1]
        try:
            with_pf = AC.real_match(kind, cfg, ad, read, prefilter=True)
            without = AC.real_match(kind, cfg, ad, read, prefilter=False)
        except Exception:  # noqa
            continue
        if with_pf != without:
            return ad, read
    return None


def run_table_job(job):
    kind, m = job["kind"], job["m"]
    t0 = time.time()
    res = {"name": job["name"], "obligations": 0, "discharged": 0, "violated": 0, "queries": 0, "solver_s": 0.0, "max_query_s": 0.0, "paths": 0, "nontrivial": 0,
           "vacuity": None, "sample": {"class": AC.CLASSES[kind], "m": m, "symbolic": ["adapter interval", "read position", "read length", "error kinds and positions"]},
           "cex": None, "detail": "", "functions": {}, "extra": {"tables_built": 0, "no_prefilter": 0, "skipped_error_budget": 0}, "cross_check": {"checked": 0, "agree": 0, "inconclusive": 0, "disagree": []}}
    inconclusive = []
    mos = sorted({1, 3, 5, m}) if kind not in ("prefix", "suffix") else [m]
    for rate in job["rates"]:
        if int(rate * m) > job["max_e"]:
            res["extra"]["skipped_error_budget"] += 1
            continue
        for indels in (True, False):
            for mo in mos:
                if mo > m:
                    continue
                cfg = dict(rate=rate, adapter_wildcards=False, read_wildcards=False, indels=indels, min_overlap=mo)
                try:
                    tab, mirrored, consulted = real_table(kind, m, cfg)
                except Exception as e:  # noqa
                    inconclusive.append("%s: building the table failed: %r" % (AC.cfg_name(cfg), e))
                    continue
                if tab is None:
                    res["extra"]["no_prefilter"] += 1
                    continue
                res["extra"]["tables_built"] += 1
                res["obligations"] += 1
                out = candidate(kind, m, cfg, tab, mirrored, consulted=consulted)
                res["queries"] += 1
                res["solver_s"] += out[1]
                res["max_query_s"] = max(res["max_query_s"], out[1])
                if out[0] == "unsat":
                    res["discharged"] += 1
                    res["nontrivial"] = 1
                    continue
                if out[0] != "sat":
                    inconclusive.append("%s,o=%d: solver returned %s" % (AC.cfg_name(cfg), mo, out[0]))
                    continue
                shape = out[2]
                real = realise(kind, m, cfg, shape, job.get("seed", 0))
                if real is None:
                    inconclusive.append("%s,o=%d: uncovered occurrence %r could not be realised on the real code" % (AC.cfg_name(cfg), mo, {k: v for k, v in shape.items()}))
                    continue
                res["violated"] += 1
                if res["cex"] is None:
                    res["cex"] = {"kind": kind, "cfg": cfg, "adapter": real[0], "read": real[1], "table": True, "shape": shape,
                                  "what": "an admissible occurrence keeps no k-mer inside its window: the prefilter rejects a read in which the aligner finds a match"}
                    res["detail"] = res["cex"]["what"]
    # vacuity: without the search sets the same query must be satisfiable (there ARE admissible occurrences)
    probe_cfg = dict(rate=job["rates"][0], adapter_wildcards=False, read_wildcards=False, indels=True, min_overlap=1)
    res["vacuity"] = candidate(kind, m, probe_cfg, [], False)[0] == "sat"
    res["solver_s"] = round(res["solver_s"], 3)
    res["max_query_s"] = round(res["max_query_s"], 3)
    res["paths"] = res["queries"]
    res["extra"]["wall_s"] = round(time.time() - t0, 2)
    if res["cex"] is not None:
        res["verdict"] = "violation"
    elif inconclusive or not res["vacuity"]:
        res["verdict"] = "inconclusive"
        res["detail"] = "; ".join(inconclusive[:3]) or "vacuous: no admissible occurrence in the model"
    else:
        res["verdict"] = "holds"
    return res


# ---------------------------------------------------------------------------------- the window semantics vs the compiled kmers_present
def window_present(table, read):
    """KmerFinder.kmers_present as the query above models it: some k-mer of a search set occurs entirely inside the
    set's window, evaluated for this read length."""
    n = len(read)
    for (st, en, ks) in table:
        if st < 0:
            ws = max(0, n + st)
        elif st > n:
            continue
        else:
            ws = st
        if en is None or en == 0:
            we = n
        elif en < 0:
            we = n + en
        else:
            we = min(en, n)
        for k in ks:
            p = read.find(k, ws)
            while p >= 0:
                if p + len(k) <= we:
                    return True
                p = read.find(k, p + 1)
    return False


def validate_windows(seed, vectors=1500):
    """-> (number of vectors, mismatches) comparing window_present with the compiled kmers_present on real tables"""
    r = random.Random("kmer_tables|%s" % seed)
    bad = []
    cnt = 0
    while cnt < vectors:
        kind = r.choice(KINDS)
        m = r.randint(3, 20)
        rate = r.choice([0.0, 0.1, 0.2, 0.3])
        cfg = dict(rate=rate, adapter_wildcards=False, read_wildcards=False, indels=r.random() < 0.7, min_overlap=r.choice([1, 2, 3, 5]))
        adapter = "".join(r.choice("ACGT") for _ in range(m))
        try:
            ad = AC.real_adapter(kind, cfg, adapter)
        except Exception:  # noqa
            continue
        pk = getattr(ad.kmer_finder, "positions_and_kmers", None)
        if pk is None:
            continue
        for _ in range(10):
            n = r.randint(0, m + 6)
            if r.random() < 0.5 and n >= 2:
                cut = r.randint(0, m - 1)
                read = "".join(r.choice("ACGT") for _ in range(max(0, n - (m - cut)))) + adapter[:m - cut]
                if r.random() < 0.5:
                    read = adapter[cut:] + "".join(r.choice("ACGT") for _ in range(max(0, n - (m - cut))))
            else:
                read = "".join(r.choice("ACGT") for _ in range(n))
            cnt += 1
            a = ad.kmer_finder.kmers_present(read)
            b = window_present(pk, read)
            if bool(a) != bool(b):
                bad.append("%s(%r, %s,o=%d) table %r read %r: compiled %r, window model %r" % (AC.CLASSES[kind], adapter, AC.cfg_name(cfg), cfg["min_overlap"], pk, read, a, b))
    return cnt, bad
