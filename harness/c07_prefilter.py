"""C07 - the k-mer prefilter never changes which adapter match is found.

E1 (symx).  Executed from source: kmer_heuristic.py (all functions, forking: two symbolic k-mers that
may be equal fork, which is the window-merging logic), _kmer_finder.pyx (KmerFinder.__cinit__,
kmers_present, populate_needle_mask, set_masks, shift_and_multiple_is_present; 64-bit masks as
bit-vectors), the adapter classes' _make_kmer_finder/_kmer_finder/match_to and the aligner of C01.

match_to is executed once with kmers_present wrapped: the wrapper runs the real kmers_present on what
the class passes, records its (symbolic) verdict and answers "present", so the alignment always runs.
Claim on every path where a match is returned: the recorded verdict is "present".  Every array access
in kmers_present / shift_and_multiple_is_present carries an in-bounds obligation.
"""
import z3

from harness.common import (Job, run_paths, model_int, model_str, zint, V, new_interp, sym_str, program, rng)
from harness import align_common as AC
from harness import c01_match_genuine as C01
from harness import kmer_tables as KT

PROPERTY = "C07"
ENGINE = "symx"

READ_ALPHABET = "ACGTNacgtnRYX!"

# (m, n, rates, profile): profile 'full' = 3 wildcard modes x all listed overlaps; 'lean' = no wildcards, overlaps {1, m}
QUICK_SHAPES = [(3, 1, None, "full"), (3, 2, None, "lean"), (3, 5, None, "lean"), (4, 2, (0.25, 0.5), "lean"), (4, 6, (0.25, 0.5), "lean")]
THOROUGH_SHAPES = [(2, 3, None, "full"), (3, 1, None, "full"), (3, 2, None, "full"), (3, 5, None, "full"), (4, 2, None, "full"), (4, 3, None, "lean"), (4, 6, None, "lean"),
                   (5, 3, (0.2, 0.4), "lean"), (5, 7, (0.2, 0.4), "lean")]


def describe():
    return {
        "functions": ["_kmer_finder.pyx:KmerFinder.__reduce__", "kmer_heuristic.py:kmer_chunks/minimize_kmer_search_list/remove_redundant_kmers/create_back_overlap_searchsets/create_positions_and_kmers",
                      "_kmer_finder.pyx:KmerFinder.__cinit__/kmers_present", "_kmer_finder.pyx:populate_needle_mask/set_masks/shift_and_multiple_is_present",
                      "adapters.py:SingleAdapter._make_kmer_finder, <class>._kmer_finder/match_to", "_align.pyx:Aligner.locate (as C01)"],
        "bounds": {"quick": {"(m, n, rates, profile)": QUICK_SHAPES, "profiles": "full = {no wildcards, adapter wildcards, read wildcards} x overlaps {1,2,3,m}; lean = no wildcards, overlaps {1,m}", "adapter alphabet": "ACGT (IUPAC subset ACGTNRX when adapter wildcards are on)", "read alphabet": READ_ALPHABET,
                             "min_overlap": "1, 2, 3 and m", "rates": "representatives below 1, > 0 (rate 0 as well at the small shapes)"},
                   "thorough": {"(m, n, rates, profile)": THOROUGH_SHAPES}},
        "table_level": {"what": "harness/kmer_tables.py: for adapter lengths 5..34 (quick) / 5..48 (thorough), every class except the force-anywhere variants, rates %r (quick) / %r (thorough), minimum overlaps {1,3,5,m}, indels on/off, no wildcards: the table that the real constructor hands to KmerFinder (computed by running adapters.py/_make_kmer_finder and kmer_heuristic.py on an adapter of distinct symbols) is checked by z3 against ALL alignment shapes (adapter interval, read position, read length <= 3m+3E+4, up to E=trunc(rate*m) <= %d (%d) errors of any kind at symbolic positions) admitted by placement rule, minimum overlap and tolerance: some k-mer stays intact inside its window" % (KT.RATES_QUICK, KT.RATES_THOROUGH, KT.MAX_E, KT.MAX_E_THOROUGH),
                        "contracts": "the aligner finds a match only if an admissible alignment exists (C01) - so covering every admissible alignment is sufficient; KmerFinder.kmers_present = 'some k-mer of a set lies inside the set's window' (transcribed; compared with the compiled kmers_present on 1500 random vectors per run)",
                        "counterexamples": "a satisfiable query is a candidate shape; it is realised as ACGT adapter and read (<= 400 random fill-ins) and reported only if the real match_to differs with and without the prefilter; an unrealised candidate makes the job inconclusive"},
        "outside_bounds": ["longer adapters/reads in the end-to-end jobs; in the table-level jobs: wildcards, force-anywhere variants, error budgets above the stated maximum", "read characters outside the listed alphabet (the kernel treats characters only through the match tables)",
                           "adapters with k-mers longer than 64 (MockKmerFinder fallback)"],
        "stubs": [],
        "assumptions": ["state mutated by a kernel call that raises is not observed afterwards", "rate representatives as in C01"],
        "rule": "job = (class, m, n, rate, switches, min_overlap); paths = partitions of equal k-mers (forks in kmer_heuristic) x aligner outcomes; claim per match path: prefilter verdict is 'present'; plus in-bounds obligations of every array read. non-trivial = jobs in which some read makes the prefilter answer 'absent'",
    }


def jobs(tier, seed):
    shapes = QUICK_SHAPES if tier == "quick" else THOROUGH_SHAPES
    out = []
    for (m, n, wanted, profile) in shapes:
        rates = [r for r in C01.pick_rates(m, wanted) if r < 1]
        modes = ((False, False), (True, False), (False, True)) if profile == "full" else ((False, False),)
        for kind in AC.CLASSES:
            if tier == "quick" and kind.endswith("_fa") and n >= m:
                continue   # quick tier: the force-anywhere variants only where the read is shorter than the adapter
            for rate in rates:
                for aw, rw in modes:
                    for indels in (True, False):
                        if kind in ("prefix", "suffix") and not indels:
                            continue   # MockKmerFinder by construction: nothing to check
                        if kind in ("prefix", "suffix"):
                            mos = [m]
                        elif profile == "full":
                            mos = sorted({1, 2, 3, m} & set(range(1, m + 1)))
                        else:
                            mos = sorted({1, m})
                        for mo in mos:
                            cfg = dict(rate=rate, adapter_wildcards=aw, read_wildcards=rw, indels=indels, min_overlap=mo)
                            out.append({"name": "%s/m=%d/n=%d/%s,o=%d" % (kind, m, n, AC.cfg_name(cfg), mo), "kind": kind, "m": m, "n": n, "cfg": cfg})
    # adapters reach worker processes by pickling (spawn/forkserver): the pickled copy's prefilter must give the same
    # verdict as the original for every read
    for kind in ("back", "front", "anywhere"):
        for aw, rw in ((False, False), (True, False), (False, True), (True, True)):
            cfg = dict(rate=0.2, adapter_wildcards=aw, read_wildcards=rw, indels=True, min_overlap=3)
            out.append({"name": "pickled-copy/%s/%s" % (kind, AC.cfg_name(cfg)), "fn": "reduce", "kind": kind, "cfg": cfg, "n": 6})
    # table level (harness/kmer_tables.py): adapter lengths 5..34 (48), every admissible occurrence keeps a k-mer in its window
    out.extend(KT.table_jobs(tier, seed))
    if tier != "quick":
        # the cheap families first, so that a global deadline cuts the large end-to-end shapes and not these
        out.sort(key=lambda j: 0 if j.get("fn") in ("table", "reduce") else 1)
    return out


def path(J, ctx, kind, m, n, cfg):
    alphabet = "ACGTNRX" if cfg["adapter_wildcards"] else "ACGT"
    it, adapter, read, c, mo = C01.setup_path(ctx, kind, m, n, cfg, adapter_alphabet=alphabet, read_alphabet=READ_ALPHABET)
    mk = C01.make_cex(kind, cfg, adapter, read, mo)
    try:
        ad = AC.build_adapter(it, kind, adapter, c, mock_prefilter=False)
    except ValueError:
        return
    rec = {}
    kp = program().pyx["cutadapt._kmer_finder"].globals["KmerFinder"].funcs["kmers_present"]

    def wrapper(it_, self_obj, sequence):
        del it_.overrides["KmerFinder.kmers_present"]
        try:
            rec["present"] = it_.call_ifunc(kp, [self_obj, sequence], {})
        finally:
            it_.overrides["KmerFinder.kmers_present"] = wrapper
        return True
    it.overrides["KmerFinder.kmers_present"] = wrapper
    try:
        mt = it.call_value(it.getattr(ad, "match_to"), [read], {})
    except (AssertionError, IndexError) as e:
        J.extra["match_to_exceptions"] = J.extra.get("match_to_exceptions", 0) + 1
        return
    if "present" not in rec:
        J.safety(ctx, mk)
        J.extra["mock_finder_paths"] = J.extra.get("mock_finder_paths", 0) + 1
        return
    present = rec["present"]
    if mt is None:
        # the in-bounds obligations of kmers_present were collected before the outcome of the alignment was
        # chosen: they are discharged once, on the match path's sibling (same formulas, weaker path condition
        # is not available), so discharge them here only when this is the first None path of the job
        J.extra["paths_none"] = J.extra.get("paths_none", 0) + 1
        J.safety(ctx, mk)
        if not J.nontrivial and present is not True and J.witness(ctx, z3.Not(V.zb(present))):
            J.nontrivial = 1
        return
    J.extra["paths_match"] = J.extra.get("paths_match", 0) + 1
    J.claims_and_safety(ctx, [(present, "the prefilter answers 'absent' for a read in which the aligner finds a match")], mk)
    J.sample = {"class": AC.CLASSES[kind], "m": m, "n": n, "cfg": AC.cfg_name(cfg), "min_overlap": cfg["min_overlap"], "symbolic": ["adapter chars", "read chars"]}


def path_reduce(J, ctx, kind, n, cfg):
    """KmerFinder.__reduce__ (from source): the finder rebuilt from the pickling recipe answers like the original."""
    it = new_interp(ctx)
    adapter = "ACGNTR" if cfg["adapter_wildcards"] else "ACGTTC"
    ad = AC.build_adapter(it, kind, adapter, cfg, mock_prefilter=False)
    kf = ad.kmer_finder
    red = it.call_value(it.getattr(kf, "__reduce__"), [], {})
    cls, args = red[0], red[1]
    copy = it.call_value(cls, list(args), {})
    read = sym_str(ctx, "r", n, alphabet=READ_ALPHABET)

    def mk(m):
        return {"kind": kind, "cfg": cfg, "adapter": adapter, "read": model_str(m, read), "pickled": True}
    a = it.call_value(it.getattr(kf, "kmers_present"), [read], {})
    b = it.call_value(it.getattr(copy, "kmers_present"), [read], {})
    J.safety(ctx, mk)
    J.claim(ctx, V.zb(a) == V.zb(b), "the prefilter of a pickled copy of the adapter gives a different verdict than the original", mk)
    if J.witness(ctx, z3.Not(V.zb(a)) if a is not True else None):
        J.nontrivial = 1
    J.sample = {"fn": "KmerFinder.__reduce__", "class": AC.CLASSES[kind], "cfg": AC.cfg_name(cfg)}


def run_job(job):
    if job.get("fn") == "table":
        return KT.run_table_job(job)
    J = Job(job)
    if job.get("fn") == "reduce":
        return run_paths(J, lambda ctx: path_reduce(J, ctx, job["kind"], job["n"], job["cfg"]), max_paths=50)
    r = run_paths(J, lambda ctx: path(J, ctx, job["kind"], job["m"], job["n"], job["cfg"]), max_paths=600 if job.get("tier") == "thorough" else 400, timeout_ms=400000 if job.get("tier") == "thorough" else 90000)
    if r["vacuity"] is None:
        r["vacuity"] = bool(J.extra.get("paths_match") or J.extra.get("paths_none") or J.extra.get("mock_finder_paths"))
    return r


def validate(seed):
    """kmers_present and the k-mer tables: real extension vs encoding on the repo's test inputs and random ones."""
    import cutadapt._kmer_finder as RK
    import cutadapt.kmer_heuristic as KH
    from symx.ctx import Ctx
    r = rng(seed, "c07")
    ctx = Ctx()
    it = new_interp(ctx)
    KF = program().pyx["cutadapt._kmer_finder"].globals["KmerFinder"]
    mism = []
    vectors = 0
    cases = [([(0, None, ["ACGT"])], False, False, s) for s in ("ACGTACG", "ACGNACG", "acgtacg", "gacgact", "ACgtACG")]
    cases += [([(0, None, ["ACGN"])], True, False, "ACGTACG"), ([(0, None, ["ACKN"])], True, True, "ACWRACG"), ([(-3, None, ["TA"]), (0, 4, ["GG"])], False, False, "GGCCTA")]
    for _ in range(150):
        m = r.randrange(1, 9)
        ad = "".join(r.choice("ACGT") for _ in range(m))
        pk = KH.create_positions_and_kmers(ad, r.randrange(1, m + 1), r.choice([0.0, 0.1, 0.2, 0.3, 0.5]), r.random() < 0.6, r.random() < 0.5, r.random() < 0.6)
        n = r.randrange(0, 12)
        cases.append((pk, False, False, "".join(r.choice("ACGTacgtN") for _ in range(n))))
    for pk, rw_, qw, s in cases:
        if not pk:
            continue
        real = RK.KmerFinder(pk, rw_, qw)
        # reads shorter than a front window make the compiled code read past the buffer: skip those (undefined)
        oob = any(stop is not None and stop > len(s) + 1 and start <= len(s) for start, stop, _ in pk if start >= 0)
        if oob:
            continue
        want = real.kmers_present(s)
        obj = it.call_value(KF, [pk, rw_, qw], {})
        got = it.call_value(it.getattr(obj, "kmers_present"), [s], {})
        vectors += 1
        if bool(want) != got:
            mism.append("kmers_present %r %r: real %r encoding %r" % (pk, s, want, got))
    # kmer_heuristic: interpreted vs native
    for _ in range(60):
        m = r.randrange(1, 10)
        ad = "".join(r.choice("ACGT") for _ in range(m))
        args = (ad, r.randrange(1, m + 1), r.choice([0.0, 0.1, 0.2, 0.34, 0.5]), r.random() < 0.6, r.random() < 0.5, r.random() < 0.6)
        want = KH.create_positions_and_kmers(*args)
        got = it.call_value(it.getattr(KH, "create_positions_and_kmers"), list(args), {})
        norm = lambda t: sorted(((a, -1 if b is None else b, tuple(sorted(k))) for a, b, k in t))
        vectors += 1
        if norm(want) != norm(got):
            mism.append("create_positions_and_kmers%r: real %r encoding %r" % (args, want, got))
    ctx.obligations = []
    # table level: the window semantics used by harness/kmer_tables.py vs the compiled kmers_present
    n_w, bad_w = KT.validate_windows(seed)
    vectors += n_w
    mism.extend(bad_w)
    return {"vectors": vectors, "mismatches": mism}


def concrete_bounds_check(kind, cfg, ad, rd):
    """Run the real source of kmers_present concretely under symx (every access bounds-checked)."""
    from symx.ctx import Ctx
    ctx = Ctx()
    it = new_interp(ctx)
    obj = AC.build_adapter(it, kind, ad, cfg, mock_prefilter=False)
    try:
        it.call_value(it.getattr(obj, "match_to"), [rd], {})
    except Exception:  # noqa
        pass
    return [o.what for o in ctx.obligations if o.kind == "bounds"]


def replay(cex):
    kind, cfg, ad, rd = cex["kind"], cex["cfg"], cex["adapter"], cex["read"]
    if cex.get("pickled"):
        import pickle
        real = AC.real_adapter(kind, cfg, ad)
        copy = pickle.loads(pickle.dumps(real))
        a, b = real.kmer_finder.kmers_present(rd), copy.kmer_finder.kmers_present(rd)
        return a != b, "%s(%r, %s): kmers_present(%r) original %r, pickled copy %r" % (AC.CLASSES[kind], ad, AC.cfg_name(cfg), rd, a, b)
    if cex.get("what", "").startswith("bounds"):
        oob = concrete_bounds_check(kind, cfg, ad, rd)
        real = AC.real_adapter(kind, cfg, ad)
        pk = getattr(real.kmer_finder, "positions_and_kmers", None)
        return bool(oob), "%s(%r, %s,o=%d) on read %r (length %d): k-mer windows %r; concrete execution of kmers_present reads out of bounds: %s" % (
            AC.CLASSES[kind], ad, AC.cfg_name(cfg), cfg["min_overlap"], rd, len(rd), pk, oob[:2])
    with_pf = AC.real_match(kind, cfg, ad, rd, prefilter=True)
    without = AC.real_match(kind, cfg, ad, rd, prefilter=False)
    return with_pf != without, "%s(%r, %s,o=%d).match_to(%r): with prefilter %r, alignment alone %r" % (
        AC.CLASSES[kind], ad, AC.cfg_name(cfg), cfg["min_overlap"], rd, with_pf, without)


def known_match(entry, cex):
    """Does the counterexample fall into the family of a listed known finding?"""
    fam = entry.get("family")
    if fam == "oob_front_window":
        return cex.get("what", "").startswith("bounds")
    return False
