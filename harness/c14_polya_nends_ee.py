"""C14 - poly-A trimming, N-end trimming, N counts and expected errors match their definitions.

E1 (symx): qualtrim.pyx poly_a_trim_index (both orientations) against the declarative definition;
expected_errors.h expected_errors_from_phreds executed from clang's AST (every implicit integer conversion taken
from the compiler) with the table as an uninterpreted function with one axiom per entry, in exact real arithmetic:
WHICH table entries are added is decided for every length and byte value (rounding of the double additions is
outside the claim); qualtrim.pyx expected_errors wrapper (ValueError for invalid characters); PolyATrimmer.
The 94 table constants are compared with 10^(-q/10).
E2 (CrossHair): modifiers.NEndTrimmer (two regexes) and predicates.TooManyN on symbolic strings.
"""
import math

import z3

from harness.common import (Job, run_paths, new_interp, sym_str, sym_int, model_int, model_str, zint, program, rng, V)
from harness.c13_qualtrim import RecView

PROPERTY = "C14"
ENGINE = "symx"


def describe():
    return {
        "functions": ["qualtrim.pyx:poly_a_trim_index", "qualtrim.pyx:expected_errors", "expected_errors.h:expected_errors_from_phreds (clang AST)", "expected_errors.h:SCORE_TO_ERROR_RATE",
                      "modifiers.py:PolyATrimmer.__call__", "modifiers.py:NEndTrimmer.__call__ (CrossHair)", "predicates.py:TooManyN.test (CrossHair)"],
        "bounds": {"quick": {"poly-A read length": "0..10 over the alphabet ATCGNa", "expected errors": "0..9 bytes, every byte value 0..255, base 33..64", "NEndTrimmer/TooManyN": "strings of length <= 4 over ACNn"},
                   "thorough": {"poly-A read length": "0..14", "expected errors": "0..13 bytes", "NEndTrimmer/TooManyN": "length <= 5"}},
        "outside_bounds": ["longer reads", "rounding of the double additions in the 4-lane sum (<= n ulp; the SSE2 path is not compiled on this build either way: scalar code is what clang parses)",
                           "float (32-bit) truncation of the value in the Cython wrapper's declared return type"],
        "stubs": ["RecView for dnaio.SequenceRecord (PolyATrimmer)"],
        "assumptions": ["table reads are modelled by an uninterpreted function with one axiom per constant (exact rationals of the doubles)"],
        "rule": "one job per (function, length[, orientation]); symbolic characters / bytes / base; non-trivial = jobs whose reachability twin (something is trimmed / an invalid byte exists) is satisfiable",
    }


def jobs(tier, seed):
    NP = 10 if tier == "quick" else 14
    NE = 9 if tier == "quick" else 13
    out = []
    for n in range(NP + 1):
        for rc in (False, True):
            out.append({"name": "poly_a/n=%d/revcomp=%d" % (n, rc), "fn": "polya", "n": n, "revcomp": rc})
    for n in range(NE + 1):
        out.append({"name": "expected_errors_from_phreds/n=%d" % n, "fn": "ee", "n": n})
        out.append({"name": "expected_errors_wrapper/n=%d" % n, "fn": "eew", "n": n})
    out.append({"name": "score_table", "fn": "table"})
    L = 4 if tier == "quick" else 5
    out.append({"name": "NEndTrimmer/len<=%d" % L, "engine": "crosshair", "fn": "check_nend", "param": {"L": L}, "timeout": 600 if L > 4 else 240})
    for cutoff in ("0", "1", "2", "0.5", "0.25", "0.34"):
        out.append({"name": "TooManyN/cutoff=%s/len<=%d" % (cutoff, L), "engine": "crosshair", "fn": "check_too_many_n", "param": {"L": L, "cutoff": cutoff}, "timeout": 900 if L > 4 else 500})
    return out


# ----------------------------------------------------------------------------------- poly-A oracle
def polya_spec(chars, n, result, revcomp):
    """result is the index returned for the sequence with z3 character terms chars."""
    target = ord("T") if revcomp else ord("A")
    seq = list(reversed(chars)) if revcomp else list(chars)      # poly-T head == poly-A tail of the reversed string
    res = (n - result) if revcomp else result                      # index counted as "start of the tail" in seq
    non = [None] * (n + 1)
    non[n] = V.ival(0)
    for i in range(n - 1, -1, -1):
        non[i] = non[i + 1] + z3.If(seq[i] == target, V.ival(0), V.ival(1))
    score = [V.ival(n - i) - 3 * non[i] for i in range(n + 1)]
    cand = [z3.And(non[i] * 5 <= n - i, score[i] > 0) if i < n else z3.BoolVal(False) for i in range(n + 1)]
    # best candidate: maximal score, largest index (shortest tail) on ties
    cases = []
    none = z3.Not(z3.Or(*cand)) if n else z3.BoolVal(True)
    for r in range(n):
        is_best = z3.And(cand[r], *[z3.Or(z3.Not(cand[p]), score[p] < score[r], z3.And(score[p] == score[r], p < r) if p < r else z3.BoolVal(False)) for p in range(n) if p != r])
        final = n if r > n - 3 else r     # tails shorter than three bases are ignored
        cases.append(z3.Implies(is_best, res == final))
    cases.append(z3.Implies(none, res == n))
    return z3.And(*cases)


def brute_polya(s, revcomp):
    n = len(s)
    t = "T" if revcomp else "A"
    seq = s[::-1] if revcomp else s
    best, bi = 0, n
    for i in range(n - 1, -1, -1):
        tail = seq[i:]
        non = sum(1 for c in tail if c != t)
        sc = len(tail) - 3 * non
        if non * 5 <= len(tail) and sc > best:
            best, bi = sc, i
    if bi > n - 3:
        bi = n
    return n - bi if revcomp else bi


# ----------------------------------------------------------------------------------- jobs
def run_job(job):
    if job.get("engine") == "crosshair":
        from harness.e2_common import e2_run_job
        return e2_run_job(__name__, job)
    J = Job(job)
    fn = job["fn"]
    if fn == "polya":
        return run_paths(J, lambda ctx: path_polya(J, ctx, job["n"], job["revcomp"]))
    if fn == "ee":
        return run_paths(J, lambda ctx: path_ee(J, ctx, job["n"]))
    if fn == "eew":
        return run_paths(J, lambda ctx: path_eew(J, ctx, job["n"]))
    if fn == "table":
        return run_table(J)
    raise ValueError(fn)


def path_polya(J, ctx, n, revcomp):
    import cutadapt.modifiers as M
    it = new_interp(ctx)
    g = program().pyx["cutadapt.qualtrim"].globals
    s = sym_str(ctx, "s", n, alphabet="ATCGNa")
    idx = it.call_value(g["poly_a_trim_index"], [s], {"revcomp": revcomp})

    def mk(m):
        return {"kind": "polya", "sequence": model_str(m, s), "revcomp": revcomp}
    J.safety(ctx, mk)
    J.claim(ctx, polya_spec([zint(c) for c in s.chars], n, zint(idx), revcomp), "poly_a_trim_index differs from the definition", mk)
    # the modifier slices at the returned index and tallies the removed length
    tr = object.__new__(M.PolyATrimmer)
    it.call_value(it.getattr(tr, "__init__"), [], {"revcomp": revcomp})
    rec = RecView(s, None)
    out = it.call_value(it.getattr(tr, "__call__"), [rec, None], {})
    J.safety(ctx, mk)
    removed = (zint(idx)) if revcomp else (n - zint(idx))
    keys = tr.trimmed_bases.keys_list() if hasattr(tr.trimmed_bases, "keys_list") else list(tr.trimmed_bases)
    ok_slice = z3.And(zint(out.start) == (zint(idx) if revcomp else 0), zint(out.stop) == (n if revcomp else zint(idx)))
    tally = []
    for k in keys:
        v = tr.trimmed_bases.get_item(k) if hasattr(tr.trimmed_bases, "get_item") else tr.trimmed_bases[k]
        tally.append(z3.And(zint(k) == removed, zint(v) == 1))
    J.claim(ctx, z3.And(ok_slice, z3.Or(*tally) if tally else z3.BoolVal(False), z3.BoolVal(len(keys) == 1)), "PolyATrimmer: slice or trimmed_bases differ from the kernel's index", mk)
    if n >= 3 and J.witness(ctx, zint(idx) != (0 if revcomp else n)):
        J.nontrivial = 1
    elif n < 3:
        J.witness(ctx, None)
    J.sample = {"fn": "poly_a_trim_index", "n": n, "revcomp": revcomp}


def path_ee(J, ctx, n):
    it = new_interp(ctx)
    prog = program()
    f = prog.cfuncs["expected_errors_from_phreds"]
    q = sym_str(ctx, "q", n, lo=0, hi=255)
    base = sym_int(ctx, "base", 33, 64)
    buf = V.Ptr(V.CArr(list(q.chars) + [0], "uint8_t", "phreds"), 0)
    r = it.call_value(f, [buf, n, base], {})

    def mk(m):
        return {"kind": "ee", "bytes": [model_int(m, c) for c in q.chars], "base": model_int(m, base)}
    J.safety(ctx, mk)
    tab = it.frame.module.globals if False else prog.c_modules["cutadapt.expected_errors_h"].globals["SCORE_TO_ERROR_RATE"]
    if not getattr(ctx, "_tab_" + tab.name, False):
        setattr(ctx, "_tab_" + tab.name, True)
        for ax in tab.axioms():
            ctx.assume(ax)
    valid = z3.And(*[z3.And(zint(c) >= zint(base), zint(c) <= 126) for c in q.chars]) if n else z3.BoolVal(True)
    total = z3.RealVal(0)
    for c in q.chars:
        total = total + tab.fn(zint(c) - zint(base))
    dev = V.zr(r) - total
    close = z3.And(dev <= total * z3.RealVal("1/100000"), -dev <= total * z3.RealVal("1/100000"))   # exact code gives dev == 0; the margin only makes counterexamples observable after float rounding
    J.claim(ctx, z3.If(valid, close, V.zr(r) == -1), "expected_errors_from_phreds is not the sum of the table entries of the qualities (or -1 for an invalid byte)", mk)
    if n and J.witness(ctx, z3.Not(valid)):
        J.nontrivial = 1
    elif not n:
        J.witness(ctx, None)
    J.sample = {"fn": "expected_errors_from_phreds", "n": n, "symbolic": ["bytes 0..255", "base 33..64"]}


def path_eew(J, ctx, n):
    it = new_interp(ctx)
    prog = program()
    g = prog.pyx["cutadapt.qualtrim"].globals
    q = sym_str(ctx, "q", n, lo=0, hi=127)

    def mk(m):
        return {"kind": "eew", "qualities": model_str(m, q)}
    tab = prog.c_modules["cutadapt.expected_errors_h"].globals["SCORE_TO_ERROR_RATE"]
    valid = z3.And(*[z3.And(zint(c) >= 33, zint(c) <= 126) for c in q.chars]) if n else z3.BoolVal(True)
    try:
        r = it.call_value(g["expected_errors"], [q], {})
    except ValueError:
        J.safety(ctx, mk)
        J.claim(ctx, z3.Not(valid), "expected_errors raises ValueError for a valid quality string", mk)
        J.extra["paths_valueerror"] = J.extra.get("paths_valueerror", 0) + 1
        return
    J.safety(ctx, mk)
    if not getattr(ctx, "_tab_" + tab.name, False):
        setattr(ctx, "_tab_" + tab.name, True)
        for ax in tab.axioms():
            ctx.assume(ax)
    total = z3.RealVal(0)
    for c in q.chars:
        total = total + tab.fn(zint(c) - 33)
    dev = V.zr(r) - total
    close = z3.And(dev <= total * z3.RealVal("1/100000"), -dev <= total * z3.RealVal("1/100000"))
    J.claim(ctx, z3.And(valid, close), "expected_errors returns a value for an invalid quality string or not the sum", mk)
    J.witness(ctx, None)
    J.nontrivial = 1 if n else 0
    J.sample = {"fn": "expected_errors", "n": n}


def table_constants():
    return program().c_modules["cutadapt.expected_errors_h"].c_tables["SCORE_TO_ERROR_RATE"]


def run_table(J):
    vals = table_constants()
    J.obligations = 94
    for q in range(94):
        want = 10 ** (-q / 10)
        ok = q < len(vals) and abs(vals[q] - want) <= 2 * math.ulp(want)
        if ok:
            J.discharged += 1
        elif J.cex is None:
            J.violated += 1
            J.cex = {"kind": "table", "q": q, "what": "SCORE_TO_ERROR_RATE[%d] = %r, 10^(-q/10) = %r" % (q, vals[q] if q < len(vals) else None, want)}
    J.vacuity = True
    J.nontrivial = 1
    J.sample = {"fn": "SCORE_TO_ERROR_RATE", "entries": len(vals)}
    r = J.result()
    r["paths"] = 1
    return r


# ----------------------------------------------------------------------------------- E2 conditions
_PARAM = {}


def set_param(p):
    _PARAM.clear()
    _PARAM.update(p or {})


def check_nend(s: str) -> bool:
    """
    pre: len(s) <= 5 and all(c in "ACNn" for c in s)
    post: _
    """
    from harness.e2_common import Rec
    import cutadapt.modifiers as M
    if len(s) > _PARAM.get("L", 4):
        return True
    quals = "".join(chr(40 + i) for i in range(len(s)))
    out = M.NEndTrimmer()(Rec("r", s, quals), None)
    a = 0
    while a < len(s) and s[a] == "N":
        a += 1
    b = len(s)
    while b > a and s[b - 1] == "N":
        b -= 1
    return out.sequence == s[a:b] and out.qualities == quals[a:b]


def check_too_many_n(s: str) -> bool:
    """
    pre: len(s) <= 5 and all(c in "ACNn" for c in s)
    post: _
    """
    from harness.e2_common import Rec
    import cutadapt.predicates as P
    if len(s) > _PARAM.get("L", 4):
        return True
    cutoff = float(_PARAM.get("cutoff", "1"))
    got = P.TooManyN(cutoff).test(Rec("r", s, None), None)
    n = sum(1 for c in s if c == "N" or c == "n")
    if cutoff < 1:
        want = len(s) > 0 and n > cutoff * len(s)
    else:
        want = n > cutoff
    return bool(got) == want


# ----------------------------------------------------------------------------------- validation / replay
def validate(seed):
    import cutadapt.qualtrim as real
    from symx.ctx import Ctx
    r = rng(seed, "c14")
    ctx = Ctx()
    it = new_interp(ctx)
    g = program().pyx["cutadapt.qualtrim"].globals
    mism = []
    vectors = 0
    seqs = ["", "A", "AAA", "TTTT", "CCAAAA", "AAAACAAAA", "ACGTAAAAAAAAAA", "TTTTTTTTGCA", "AAAAAAAAACAAAAAAAAAA", "GAATTCAAGAAAAAAAAAAAAAAAAA"]
    seqs += ["".join(r.choice("AAATC") for _ in range(r.randrange(0, 16))) for _ in range(150)]
    for s in seqs:
        for rc in (False, True):
            want = real.poly_a_trim_index(s, revcomp=rc)
            got = it.call_value(g["poly_a_trim_index"], [s], {"revcomp": rc})
            vectors += 1
            if want != got:
                mism.append("poly_a_trim_index(%r, %s): real %r encoding %r" % (s, rc, want, got))
    for _ in range(150):
        n = r.randrange(0, 14)
        q = "".join(chr(r.randrange(33, 127)) for _ in range(n))
        if r.random() < 0.2 and n:
            i = r.randrange(n)
            q = q[:i] + chr(r.choice([10, 32, 127])) + q[i + 1:]
        try:
            want = real.expected_errors(q)
        except ValueError:
            want = "ValueError"
        try:
            got = it.call_value(g["expected_errors"], [q], {})
        except ValueError:
            got = "ValueError"
        vectors += 1
        if want == "ValueError" or got == "ValueError":
            if want != got:
                mism.append("expected_errors(%r): real %r encoding %r" % (q, want, got))
        elif abs(want - got) > 1e-6 * max(1.0, abs(want)):
            mism.append("expected_errors(%r): real %r encoding %r" % (q, want, got))
    ctx.obligations = []
    return {"vectors": vectors, "mismatches": mism}


def replay(cex):
    if "condition" in cex:
        from harness.e2_common import e2_replay
        return e2_replay(cex)
    import cutadapt.qualtrim as real
    k = cex["kind"]
    if k == "polya":
        got = real.poly_a_trim_index(cex["sequence"], revcomp=cex["revcomp"])
        want = brute_polya(cex["sequence"], cex["revcomp"])
        return got != want, "poly_a_trim_index(%r, revcomp=%s) = %r, definition gives %r" % (cex["sequence"], cex["revcomp"], got, want)
    if k in ("ee", "eew"):
        vals = table_constants()
        if k == "ee":
            base = cex["base"]
            q = "".join(chr(b) for b in cex["bytes"])
            if any(b > 127 for b in cex["bytes"]):
                return False, "counterexample needs a non-ASCII byte, which the Python wrapper rejects before the C function is reached"
        else:
            base, q = 33, cex["qualities"]
        valid = all(base <= ord(c) <= 126 for c in q)
        try:
            got = real.expected_errors(q, base)
        except ValueError:
            got = "ValueError"
        if not valid:
            return got != "ValueError", "expected_errors(%r, %d) = %r for an invalid quality string" % (q, base, got)
        want = sum(10 ** (-(ord(c) - base) / 10) for c in q)
        bad = got == "ValueError" or abs(got - want) > 2e-6 * want
        return bad, "expected_errors(%r, %d) = %r, sum of 10^(-Q/10) = %r" % (q, base, got, want)
    if k == "table":
        vals = table_constants()
        q = cex["q"]
        want = 10 ** (-q / 10)
        return abs(vals[q] - want) > 2 * math.ulp(want), "SCORE_TO_ERROR_RATE[%d] = %r vs %r" % (q, vals[q], want)
    return False, "unknown counterexample kind"
