"""Machinery shared by the pipeline-level CrossHair harnesses (C04 accounting, C11 filters).

What is real: the argparse Namespaces (parsed natively at import time by cutadapt.cli.get_argument_parser),
cutadapt.cli.make_pipeline_from_args and everything it calls, every step / predicate object it creates,
SingleEndPipeline.process_reads / PairedEndPipeline.process_reads (the real loops are driven, with a one-chunk
stand-in for InputFiles), report.Statistics.collect / as_json.

What is a stand-in (rule 1 of DESIGN 2.2 - nothing symbolic may reach compiled code):
  * RecordingOutfiles   for cutadapt.files.OutputFiles: same three open_* methods (signatures compared with the real
                        class at import time); the writers it returns append every write() call to one shared log
  * LazyRec / Q         for dnaio.SequenceRecord (e2_common.Rec contract) with a qualities string that carries the read's
                        expected errors; text / header / expected errors are rows of small fixed tables selected by
                        symbolic ints
  * expected_errors     cutadapt.predicates.expected_errors is replaced by a function that returns that value
                        (contract of DESIGN section 5: a non-negative real; 0 for an empty read)
  * MatchSetter1/2      the only modifier in the pipeline: stands for the effect of AdapterCutter on info.matches
                        (a list holding one dummy match carrying an adapter name when the 'matched' flag of the mate is set)
  * Spy                 wraps every step in pipeline._steps to log which steps were called (delegates to the real step)
"""
import inspect

from harness.e2_common import Rec  # noqa: F401  (activates the shadow build)

import cutadapt.cli as _cli
import cutadapt.predicates as _predicates
from cutadapt.files import FileFormat, OutputFiles

try:  # building the pipeline is concrete work: do it outside CrossHair's tracer (speed only, no semantic effect)
    from crosshair.tracers import NoTracing, is_tracing
except Exception:  # pragma: no cover
    NoTracing = None

    def is_tracing():
        return False



# ------------------------------------------------------------------------------------- recording outputs
class RecordingWriter:
    def __init__(self, owner, paths, interleaved, force_fasta=False):
        self.owner = owner
        self.paths = tuple(paths)
        self.interleaved = interleaved
        self.force_fasta = force_fasta

    def write(self, *records):
        self.owner.log.append((self, records))

    def close(self):
        pass

    def __repr__(self):
        return "RecordingWriter%r" % (self.paths,)


class RecordingText:
    """Text file stand-in for --info-file / --rest-file / --wildcard-file (print(..., file=f))."""

    def __init__(self, owner, path):
        self.owner = owner
        self.path = path
        self.lines = 0

    def write(self, s):
        if "\n" in s:
            self.lines += 1
        return len(s)

    def close(self):
        pass

    def __ch_deep_realize__(self, memo):
        # CrossHair's print() patch deep-copies ("realizes") its arguments; the file object must stay this one
        return self

    def __deepcopy__(self, memo):
        return self


class RecordingOutfiles:
    """Same interface as cutadapt.files.OutputFiles as far as the pipeline builder and the steps use it."""

    def __init__(self):
        self.log = []        # [(writer, (record,) | (record1, record2))] in call order
        self.writers = []
        self.texts = []

    def open_text(self, path):
        t = RecordingText(self, path)
        self.texts.append(t)
        return t

    def open_record_writer(self, *paths, interleaved: bool = False, force_fasta: bool = False):
        # the argument checks of the real method
        if len(paths) not in (1, 2):
            raise ValueError("Expected one or two paths")
        if interleaved and len(paths) != 1:
            raise ValueError("Cannot write to two files when interleaved is True")
        if paths == (None,):
            paths = ("-",)
        for path in paths:
            assert path is not None
        w = RecordingWriter(self, paths, interleaved, force_fasta)
        self.writers.append(w)
        return w

    def open_stdout_record_writer(self, interleaved: bool = False, force_fasta: bool = False):
        w = RecordingWriter(self, ("-",), interleaved, force_fasta)
        self.writers.append(w)
        return w

    def close(self):
        pass


def _same_signature(a, b):
    pa = [(p.name, p.kind, p.default) for p in inspect.signature(a).parameters.values()]
    pb = [(p.name, p.kind, p.default) for p in inspect.signature(b).parameters.values()]
    return pa == pb


for _m in ("open_text", "open_record_writer", "open_stdout_record_writer"):
    assert _same_signature(getattr(OutputFiles, _m), getattr(RecordingOutfiles, _m)), "OutputFiles.%s changed its signature" % _m


# ------------------------------------------------------------------------------------- matches
class DummyAdapter:
    def __init__(self, name):
        self.name = name


class DummyMatch:
    """What the steps use of a match: .adapter.name (demultiplexers) and, for the info/rest/wildcard writers, the
    four methods below (their content is C17's business; here they only must not consume the read)."""

    def __init__(self, name):
        self.adapter = DummyAdapter(name)

    def rest(self):
        return ""

    def wildcards(self):
        return ""

    def get_info_records(self, read):
        return []

    def trimmed(self, read):
        return read


class LazyMatches(list):
    """info.matches of a read: empty, or one dummy match, decided by a (symbolic) flag that is looked at only when a
    step looks at the list - so that CrossHair does not fork on the flag for reads that an earlier filter consumes."""

    def __init__(self, flag, name):
        super().__init__()
        self._flag = flag
        self._name = name
        self._pending = True

    def _materialise(self):
        if self._pending:
            self._pending = False
            if self._flag:
                name = self._name.get() if isinstance(self._name, Cell) else self._name
                list.append(self, DummyMatch(name))

    def __bool__(self):
        self._materialise()
        return list.__len__(self) > 0

    def __len__(self):
        self._materialise()
        return list.__len__(self)

    def __getitem__(self, key):
        self._materialise()
        return list.__getitem__(self, key)

    def __iter__(self):
        self._materialise()
        return list.__iter__(self)

    def matched(self):
        return bool(self)


# ------------------------------------------------------------------------------------- driving the real loop
class Spy:
    def __init__(self, step, index, calls):
        self.step = step
        self.index = index
        self.calls = calls

    def __call__(self, *args):
        self.calls.append(self.index)
        return self.step(*args)


class OneChunk:
    """InputFiles stand-in: open() gives an iterable of records (single-end) or of (r1, r2) tuples."""

    def __init__(self, items):
        self.items = list(items)
        self.closed = False

    def open(self):
        return iter(self.items)

    def close(self):
        self.closed = True


# ------------------------------------------------------------------------------------- option sets
_PARSER = _cli.get_argument_parser()
_PARSED = {}


def parse(argv):
    """argparse Namespace of an option set; parsed natively once per process."""
    key = tuple(argv)
    if key not in _PARSED:
        _PARSED[key] = _PARSER.parse_args(list(argv))
    return _PARSED[key]


_ADAPTERS = {}


def _adapters(key, args):
    """Real adapter objects of the option set; built once per process (building the k-mer tables is slow, and the
    adapters are never asked to match here - the AdapterCutter that receives them is not run)."""
    if key not in _ADAPTERS:
        _ADAPTERS[key] = _cli.adapters_from_args(args)
    return _ADAPTERS[key]


class Built:
    """One freshly built pipeline for an option set."""

    def __init__(self, argv):
        import copy
        self.argv = tuple(argv)
        args = copy.copy(parse(argv))
        self.args = args
        self.paired = _cli.determine_paired(args)
        _cli.check_arguments(args, self.paired)
        adapters, adapters2 = _adapters(self.argv, args)
        self.names1 = [a.name for a in adapters]
        self.names2 = [a.name for a in adapters2]
        self.outfiles = RecordingOutfiles()
        self.pipeline = _cli.make_pipeline_from_args(args, FileFormat.FASTQ, self.outfiles, self.paired, adapters, adapters2)
        assert self.pipeline.paired == self.paired
        self.steps = list(self.pipeline._steps)       # the real step objects, in pipeline order
        self.calls = []

    def run(self, items, modifier):
        """Push the records through the REAL process_reads loop; -> (n, total_bp1, total_bp2)."""
        self.calls = []
        self.pipeline._modifiers = [modifier] if modifier is not None else []
        self.pipeline._steps = [Spy(s, i, self.calls) for i, s in enumerate(self.steps)]
        try:
            return self.pipeline.process_reads(OneChunk(items))
        finally:
            self.pipeline._steps = self.steps


def build(argv):
    if NoTracing is not None and is_tracing():
        with NoTracing():
            return Built(argv)
    return Built(argv)


def native(fn, *args):
    """Run concrete work outside CrossHair's tracer (its patched str/format/repr are slow and, for floats, wrong)."""
    if NoTracing is not None and is_tracing():
        with NoTracing():
            return fn(*args)
    return fn(*args)


def admissible(argv):
    """True iff cutadapt accepts the option set (used natively when the catalogues are generated)."""
    try:
        Built(argv)
        return True
    except (_cli.CommandLineError, SystemExit):
        return False


# ------------------------------------------------------------------------------------- fixed read material
# Read texts: the filters look only at the length and the number of N/n.  One symbolic int selects a row
# (concrete text, so that len()/count() are native); lengths 0..3, every N count 0..len, both cases of N.
TEXTS = ["", "A", "n", "AC", "NC", "nN", "ACG", "ANG", "NCn", "NnN"]
TEXT_ROWS = [(t, len(t), t.lower().count("n")) for t in TEXTS]
assert sorted(set(r[1:] for r in TEXT_ROWS)) == sorted((l, k) for l in range(4) for k in range(l + 1))

# Read names (name, failed the CASAVA filter).  Guide, --discard-casava: CASAVA 1.8 adds an is_filtered header field to each
# read; reads that have a Y there are discarded, reads whose header cannot be recognised are kept.  The CASAVA fields are
# the part of the header that follows the read ID, i.e. the first space ('ID read:is_filtered:control:index').
# Rows: no comment / passes / fails / ':Y:' only in places that are not the is_filtered field (in the ID, at the end of
# the comment) / fails resp. passes with a further space-separated field after the CASAVA field (' rc' is what --revcomp
# appends; -y/--suffix, --rename or the input can add others) / passes, with a ':Y:' only in such a later field
NAME_ROWS = [("r", False), ("r 1:N:0:ACGT", False), ("r 1:Y:0:ACGT", True), ("r:Y: 2:N:18:ACGT", False), ("r 2:N:0:A:Y:", False),
             ("r 1:Y:0:ACGT rc", True), ("r 1:N:0:ACGT rc", False), ("r 1:N:0:ACGT 2:Y:0:x", False)]

# Expected errors of a non-empty read (row chosen by a symbolic int); with lengths 1..3 these give error rates
# below, at and above 0.5 and expected errors below, at and above 1.0
EE_VALUES = [0.0, 1.0, 1.5, 2.5]
EE_ROWS = [(v,) for v in EE_VALUES]


class Cell:
    """Row of a table selected by a (symbolic) int; looked up on first use only, then remembered.  CrossHair
    enumerates the symbolic row number at the lookup, i.e. only on paths on which somebody needs the feature."""

    def __init__(self, table, index):
        self.table = table
        self.index = index
        self.pending = True
        self.value = None

    def get(self):
        if self.pending:
            # Rows must be tuples: indexing a list of tuples with a symbolic int makes CrossHair fork over the possible
            # rows and hand out the concrete row; a list of plain floats would give a SYMBOLIC float (and with it the slow
            # IEEE float model), and crosshair.realize() on the row number explores many more paths than this fork.
            self.value = self.table[self.index]
            self.pending = False
        return self.value


FULL_TABLES = {"t": TEXT_ROWS, "c": NAME_ROWS, "e": EE_ROWS}


class Features:
    """The filter-relevant features of one read, shared by the record given to cutadapt and by the reference.
    tables: {"t": rows of TEXT_ROWS, "c": rows of NAME_ROWS, "e": rows of EE_VALUES} (possibly a selection)."""

    def __init__(self, text_index, name_index, ee_index, matched, adapter_name, tables=FULL_TABLES):
        self.text_cell = Cell(tables["t"], text_index)
        self.name_cell = Cell(tables["c"], name_index)
        self.ee_cell = Cell(tables["e"], ee_index)
        self.matches = LazyMatches(matched, adapter_name)     # adapter_name: a str, None, or a Cell (symbolic choice)
        self._adapter_name = adapter_name

    text = property(lambda self: self.text_cell.get()[0])
    length = property(lambda self: self.text_cell.get()[1])
    n_count = property(lambda self: self.text_cell.get()[2])
    name = property(lambda self: self.name_cell.get()[0])
    is_y = property(lambda self: self.name_cell.get()[1])
    matched = property(lambda self: self.matches.matched())
    adapter_name = property(lambda self: self._adapter_name.get() if isinstance(self._adapter_name, Cell) else self._adapter_name)

    @property
    def ee(self):
        return self.ee_cell.get()[0] if self.length > 0 else 0.0


class Q(str):
    """Quality string of a record; carries the features so that the expected_errors stub can answer."""
    features = None


def expected_errors_stub(qualities):
    """Contract (DESIGN section 5, proved by C14 for the kernel): a non-negative real; the sum over no bases is 0.
    The value is a concrete float picked from EE_VALUES by a symbolic index, so that all arithmetic and comparisons
    in the predicates are the native IEEE ones (CrossHair 0.0.110 does not finish with symbolic floats here)."""
    if len(qualities) == 0:
        return 0.0
    return qualities.features.ee_cell.get()[0]


_predicates.expected_errors = expected_errors_stub


class LazyRec(Rec):
    """Rec whose text, header and qualities are looked up only when somebody reads them."""

    def __init__(self, features):
        self.features = features
        self._q = None

    @property
    def sequence(self):
        return self.features.text

    @property
    def name(self):
        return self.features.name

    @property
    def qualities(self):
        if self._q is None:
            q = Q("I" * self.features.length)
            q.features = self.features
            self._q = q
        return self._q

    def __len__(self):
        return self.features.length

    def __getitem__(self, key):
        return Rec(self.name, self.sequence, self.qualities)[key]


class MatchSetter1:
    """Single-end modifier standing for AdapterCutter: installs the (lazy) match list of the read."""

    def __init__(self, features):
        self.features = features

    def __call__(self, read, info):
        info.matches = self.features.matches
        return read


class MatchSetter2:
    def __init__(self, features1, features2):
        self.f1, self.f2 = features1, features2

    def __call__(self, read1, read2, info1, info2):
        info1.matches = self.f1.matches
        info2.matches = self.f2.matches
        return read1, read2


# ------------------------------------------------------------------------------------- catalogue of option sets
AD1 = ["-a", "a1=ACGTACGT", "-a", "a2=TTTTGGGG"]
AD2 = ["-A", "b1=GGCCGGCC", "-A", "b2=AAAACCCC"]


class Spec:
    """An option set, described independently of cutadapt's parser.  argv() renders it as command-line options
    (cutadapt parses and builds from those); the references of the checks read the fields below directly."""

    def __init__(self, paired=False, m=None, ts_out=False, M=None, tl_out=False, max_n=None, max_ee=None, max_aer=None,
                 casava=False, last=None, adapters="", pair_filter=None, out="files", aux=False):
        self.paired = paired
        self.m = m                    # None | "2" | "2:3" | "2:" | ":3"   (-m)
        self.ts_out = ts_out          # --too-short-output (+ --too-short-paired-output when paired, two files)
        self.M = M                    # likewise for -M
        self.tl_out = tl_out
        self.max_n = max_n            # None | float
        self.max_ee = max_ee          # None | float
        self.max_aer = max_aer        # None | float
        self.casava = casava
        self.last = last              # None | "discard_trimmed" | "discard_untrimmed" | "untrimmed_output"
        self.adapters = adapters      # "" | "1" | "2" | "12": which mates have adapters (-a / -A)
        self.pair_filter = pair_filter  # None | "any" | "both" | "first"
        self.out = out                # "files" | "stdout" (single-end) | "interleaved" (paired) | "demux" | "combinatorial"
        self.aux = aux                # --info-file --rest-file --wildcard-file
        assert paired or ("2" not in adapters and pair_filter is None and out not in ("interleaved", "combinatorial"))
        assert not paired or out != "stdout"
        self._argv = tuple(self._render())
        parse(self._argv)             # natively, at import time (E2 guide, rule 5)

    # -- rendering
    def argv(self):
        return self._argv

    def _render(self):
        a = []
        if "1" in self.adapters:
            a += AD1
        if "2" in self.adapters:
            a += AD2
        two = self.paired and self.out != "interleaved"      # redirect files come in pairs unless output is interleaved

        def redirect(opt):
            r = ["--%s-output" % opt, opt + ".1.fq"]
            if two:
                r += ["--%s-paired-output" % opt, opt + ".2.fq"]
            return r
        if self.m is not None:
            a += ["-m", self.m]
            if self.ts_out:
                a += redirect("too-short")
        if self.M is not None:
            a += ["-M", self.M]
            if self.tl_out:
                a += redirect("too-long")
        if self.max_n is not None:
            a += ["--max-n", repr(self.max_n)]
        if self.max_ee is not None:
            a += ["--max-ee", repr(self.max_ee)]
        if self.max_aer is not None:
            a += ["--max-aer", repr(self.max_aer)]
        if self.casava:
            a += ["--discard-casava"]
        if self.last == "discard_trimmed":
            a += ["--discard-trimmed"]
        elif self.last == "discard_untrimmed":
            a += ["--discard-untrimmed"]
        elif self.last == "untrimmed_output":
            a += redirect("untrimmed")
        if self.pair_filter is not None:
            a += ["--pair-filter", self.pair_filter]
        if self.aux:
            a += ["--info-file", "info.tsv", "--rest-file", "rest.txt", "--wildcard-file", "wild.txt"]
        if self.out == "files":
            a += ["-o", "out.1.fq"] + (["-p", "out.2.fq"] if self.paired else [])
        elif self.out == "interleaved":
            a += ["--interleaved", "-o", "out.1.fq"]
        elif self.out == "demux":
            a += ["-o", "{name}.1.fq"] + (["-p", "{name}.2.fq"] if self.paired else [])
        elif self.out == "combinatorial":
            a += ["-o", "{name1}-{name2}.1.fq", "-p", "{name1}-{name2}.2.fq"]
        return a

    def label(self):
        return ("pe" if self.paired else "se") + ":" + " ".join(self.argv())

    # -- what the documentation says about it
    def paths(self, stem):
        """File names of a (redirect or main) output with the given stem: one file single-end / interleaved, else two."""
        if self.paired and self.out != "interleaved":
            return (stem + ".1.fq", stem + ".2.fq")
        return (stem + ".1.fq",)

    def names(self, mate):
        """Adapter names available for the mate (1 or 2)."""
        if str(mate) not in self.adapters:
            return []
        return ["a1", "a2"] if mate == 1 else ["b1", "b2"]

    def lengths(self, which):
        """(applies to R1, applies to R2) for -m / -M: 'LEN' both, 'L1:L2' both (separately), 'L1:' only R1, ':L2' only R2."""
        v = self.m if which == "m" else self.M
        if v is None:
            return (False, False)
        if not self.paired:
            return (True, False)
        if ":" not in v:
            return (True, True)
        a, b = v.split(":")
        return (a != "", b != "")

    def length_values(self, which):
        v = self.m if which == "m" else self.M
        if ":" not in v:
            return (int(v), int(v))
        a, b = v.split(":")
        return (int(a) if a else None, int(b) if b else None)

    def untrimmed_mode(self):
        """Guide, 'Filtering paired-end reads': with adapters for only one of the mates the pair-filter mode of
        --discard-untrimmed / --untrimmed-output is forced to 'both'."""
        if self.adapters in ("1", "2"):
            return "both"
        return self.pair_filter or "any"

    def mode(self):
        return self.pair_filter or "any"


_TABLES = {}


def tables_for(spec):
    """Rows of the feature tables that a condition on this option set enumerates.  A feature that no enabled filter
    looks at gets a single row; paired-end sets use a selection (the number of paths is the product over both mates):
      text    no --max-n: one text per length 0..3; --max-n single-end: all ten (length, N count) rows;
              --max-n paired: (0,0) (1,0) (2,1) (2,2) (3,0) (3,2)
      header  --discard-casava single-end: all eight (with --max-ee/--max-aer: passes / fails / ':Y:' in the ID / fails + ' rc' / passes + later ':Y:'\n              field); paired: no comment / passes / fails / fails + ' rc' / passes + later ':Y:' field (with --max-ee/--max-aer: passes / fails)
      expected errors  --max-ee/--max-aer single-end: 0, 1, 1.5, 2.5; paired: 1, 1.5, 2.5"""
    key = id(spec)
    if key not in _TABLES:
        if spec.max_n is None:
            t = [0, 1, 3, 6]
        elif spec.paired:
            t = [0, 1, 4, 5, 6, 8]
        else:
            t = list(range(len(TEXT_ROWS)))
        with_ee = spec.max_ee is not None or spec.max_aer is not None
        if not spec.casava:
            c = [0]
        elif spec.paired:
            c = [1, 2] if with_ee else [0, 1, 2, 5, 7]
        else:
            c = [1, 2, 3, 5, 7] if with_ee else list(range(len(NAME_ROWS)))
        if spec.max_ee is None and spec.max_aer is None:
            e = [0]
        elif spec.paired:
            e = [1, 2, 3]
        else:
            e = [0, 1, 2, 3]
        _TABLES[key] = {"t": [TEXT_ROWS[i] for i in t], "c": [NAME_ROWS[i] for i in c], "e": [EE_ROWS[i] for i in e]}
    return _TABLES[key]


class MatchSetter:
    """The only modifier of the pipelines driven here (single-end or paired-end call convention): stands for
    AdapterCutter's effect on info.matches by installing the (lazy) match list that belongs to the record."""

    def __call__(self, *args):
        if len(args) == 2:
            read, info = args
            info.matches = read.features.matches
            return read
        read1, read2, info1, info2 = args
        info1.matches = read1.features.matches
        info2.matches = read2.features.matches
        return read1, read2


def writer_kind(spec, writer):
    """'final' for the files that hold the processed reads (-o/-p, standard output, every demultiplexed file including
    the one for reads without adapter), else the name of the redirecting option.  Decided by the file name only."""
    first = writer.paths[0]
    for stem in ("too-short", "too-long"):
        if first.startswith(stem + "."):
            return stem
    if first.startswith("untrimmed.") and spec.out in ("files", "interleaved", "stdout"):
        return "untrimmed"
    return "final"


# ------------------------------------------------------------------------------------- validation of the stand-ins
_ADAPTER_SEQ = {"a1": "ACGTACGT", "a2": "TTTTGGGG", "b1": "GGCCGGCC", "b2": "AAAACCCC"}


def validate_against_cli(specs, seed, per_set=40):
    """Differential test of the stand-ins (LazyRec, RecordingOutfiles, MatchSetter, OneChunk) against the real thing:
    the same concrete reads go (a) through the recording pipeline used by the conditions and (b) through
    cutadapt.cli.main on real FASTQ files (real dnaio records, real adapter matching - the read is its table text
    followed by the complete adapter, -O 8 -, real writers).  Every output file must hold the same reads in the
    same order and the Statistics must agree.  Option sets that need the expected_errors stand-in are skipped.
    -> {'vectors': number of reads compared, 'mismatches': [...]}"""
    import os
    import random
    import tempfile
    from cutadapt.report import Statistics
    rnd = random.Random(seed)
    vectors, mismatches = 0, []
    for spec in specs:
        if spec.max_ee is not None or spec.max_aer is not None or spec.out == "stdout":
            continue
        tables = tables_for(spec)
        name_rows = [i for i, (nm, _) in enumerate(tables["c"]) if not spec.paired or " " in nm or nm == "r"]
        items, lines1, lines2 = [], [], []
        for i in range(per_set):
            feats = []
            for mate in (1, 2) if spec.paired else (1,):
                names = spec.names(mate)
                f = Features(rnd.randrange(len(tables["t"])), rnd.choice(name_rows), 0, bool(names) and rnd.random() < 0.5,
                             rnd.choice(names) if names else None, tables)
                feats.append(f)
            recs = [LazyRec(f) for f in feats]
            items.append(tuple(recs) if spec.paired else recs[0])
            for f, lines in zip(feats, (lines1, lines2)):
                seq = f.text + (_ADAPTER_SEQ[f.adapter_name] if f.matched else "")
                f.real_name = "q%d%s" % (i, f.name[1:])
                lines.append("@%s\n%s\n+\n%s\n" % (f.real_name, seq, "I" * len(seq)))
        # (a) the recording pipeline
        built = Built(spec.argv())
        n, bp1, bp2 = built.run(items, MatchSetter())
        want = {}
        for writer, recs in built.outfiles.log:
            if writer.interleaved:
                want.setdefault(writer.paths[0], []).extend(r.features.real_name for r in recs)
            else:
                for path, r in zip(writer.paths, recs):
                    want.setdefault(path, []).append(r.features.real_name)
        stub_stats = Statistics().collect(n, bp1, bp2, [], built.steps)
        # (b) the real program
        cwd = os.getcwd()
        with tempfile.TemporaryDirectory(prefix="verif-c04-") as tmp:
            try:
                os.chdir(tmp)
                inputs = ["in.1.fq"]
                if spec.paired and spec.out == "interleaved":
                    with open("in.1.fq", "w") as f:
                        f.write("".join(a + b for a, b in zip(lines1, lines2)))
                else:
                    with open("in.1.fq", "w") as f:
                        f.write("".join(lines1))
                    if spec.paired:
                        with open("in.2.fq", "w") as f:
                            f.write("".join(lines2))
                        inputs.append("in.2.fq")
                try:
                    real_stats = _cli.main(list(spec.argv()) + ["-O", "8", "--quiet"] + inputs)
                except SystemExit as e:
                    mismatches.append("%s: cutadapt exited with %r" % (spec.label(), e.code))
                    continue
                got = {}
                for fn in os.listdir(tmp):
                    if fn.startswith("in.") or not fn.endswith(".fq"):
                        continue
                    with open(fn) as f:
                        got[fn] = [line[1:].rstrip("\n") for k, line in enumerate(f) if k % 4 == 0]
            finally:
                os.chdir(cwd)
        vectors += len(items)
        got = {k: v for k, v in got.items() if v}
        if got != want:
            mismatches.append("%s: output files differ: real %r, recording pipeline %r" % (spec.label(), got, want))
        if (real_stats.n, real_stats.written, dict(real_stats.filtered), real_stats.written_bp) != \
                (stub_stats.n, stub_stats.written, dict(stub_stats.filtered), stub_stats.written_bp):
            mismatches.append("%s: Statistics differ: real n=%r written=%r filtered=%r, recording pipeline n=%r written=%r filtered=%r" % (
                spec.label(), real_stats.n, real_stats.written, dict(real_stats.filtered), stub_stats.n, stub_stats.written, dict(stub_stats.filtered)))
    return {"vectors": vectors, "mismatches": mismatches}
