"""C05 - paired-end outputs stay synchronised and pairs are filtered as a unit.

E2 (CrossHair on the real classes).  Two kinds of conditions:

* check_pair_decision: one paired option set per condition (param), parsed natively by the real argument parser; the real
  make_pipeline_from_args builds the real steps against a recording outfiles stub; ONE pair with symbolic per-mate features
  (length / N content via an index into fixed texts, expected errors, CASAVA flag, matched flag, index of the last matching
  adapter) and a symbolic pair id is pushed through the steps exactly as PairedEndPipeline.process_reads does.  Asserted:
  every writer call receives (mate 1, mate 2) of that pair; the pair goes to exactly the destination that the documented
  combination of the two per-read criteria selects (reference: harness.paired_common.ref_filters / ref_final, written from
  doc/guide.rst), and to nothing else; the files opened are the documented ones, each either a pair of files or one
  interleaved file.  Because the steps keep no state that influences a later pair (counters are only added to), the one-pair
  step extends to "record k of R1 and of R2 come from input pair k" by induction on the write sequence.
* check_pair_adapters: the real PairedAdapterCutter (with its real _find_best_match_pair) over StubAdapter pairs that report
  arbitrary optional matches with symbolic score and error count: both mates are treated with the matches of the same-rank
  adapter pair that is maximal by (sum of scores, fewer errors in total, given first), or neither mate is changed.
"""
from harness.e2_common import Rec, StubAdapter, e2_jobs, e2_run_job, e2_replay
from harness.paired_common import (PRec, Quals, option_set, config, build_pipeline, push_pair, info_with_matches, pick, pick_clamped,
                                   ref_filters, ref_final, writes_ok, layout_ok, pair_sync_ok)

from cutadapt.modifiers import PairedAdapterCutter, ModificationInfo

PROPERTY = "C05"
ENGINE = "crosshair"

_PARAM = {}


def set_param(p):
    _PARAM.clear()
    _PARAM.update(p or {})
    if "argv" in _PARAM:
        config(_PARAM["argv"])      # parse natively, outside CrossHair


# ------------------------------------------------------------------------------------------ pair decision
TEXTS_LEN = ["", "A", "AC", "ACG", "ACGT", "ACGTA"]              # lengths 0..5
TEXTS_N = ["ACGT", "ANGT", "NCGN", "NNGN", "NNNN", "N"]          # 0,1,2,3,4,1 N bases
TEXTS_MIX = ["", "N", "ACG", "NNG", "ACGTA", "ANGNA"]            # lengths 0,1,3,3,5,5 with 0,1,0,2,0,2 N bases
TEXTS_POS = ["A", "AC", "ACG", "ACGT", "ACGTA", "ACGTAC"]        # lengths 1..6 (average error rate needs length > 0)
TEXTS_SMALL = ["A", "ANN", "ACGTA", "NNNNN"]                     # lengths 1,3,5,5 with 0,2,0,5 N bases
EE_VALUES = [0.0, 1.0, 2.5]
DEFAULT_TEXT = 2


class _Feat:
    """The per-read quantities the documented criteria talk about, kept apart from the record that is sent through the steps."""

    def __init__(self):
        self.text = None
        self.eeval = None
        self.cas = None
        self.matched_flag = False
        self.last_name = None

    def length(self):
        return len(self.text)

    def ncount(self):
        return self.text.count("N")

    def ee(self):
        return self.eeval

    def casava(self):
        return self.cas

    def matched(self):
        return self.matched_flag

    def last(self):
        return self.last_name


def _mate(mate, pid, adapters, t, q, c, m, k):
    """Record, features and ModificationInfo of one mate.  A symbolic argument is only looked at when the option set has a
    filter that depends on it (param 'features': t = text, q = expected errors, c = CASAVA flag, m = matched, k = which adapter)."""
    feats = _PARAM["features"]
    texts = _PARAM.get("texts", TEXTS_LEN)
    f = _Feat()
    f.text = pick_clamped(texts, t) if "t" in feats else texts[min(DEFAULT_TEXT, len(texts) - 1)]
    quals = Quals("I" * len(f.text))
    if "q" in feats:
        f.eeval = pick(EE_VALUES, q)
        quals.ee = f.eeval
    if "c" in feats:
        f.cas = bool(c)
        name = "pair %d:Y:18:ATCACG" % mate if f.cas else "pair %d:N:18:ATCACG" % mate
    else:
        name = "pair/%d" % mate
    rec = PRec(name, f.text, quals, pair=pid, mate=mate)
    found = []
    if adapters and "m" in feats and m:
        f.matched_flag = True
        last = pick_clamped(adapters, k) if "k" in feats else adapters[0]
        f.last_name = last.name
        # two matches, so that "the last match" and "a match" are different things
        found = [adapters[0], last]
    return rec, f, info_with_matches(rec, found)


def check_pair_decision(pid: int, t1: int, t2: int, q1: int, q2: int, c1: bool, c2: bool, m1: bool, m2: bool, k1: int, k2: int) -> bool:
    """
    pre: 0 <= pid <= 1000000000
    pre: 0 <= t1 <= 5 and 0 <= t2 <= 5
    pre: 0 <= q1 <= 2 and 0 <= q2 <= 2
    pre: 0 <= k1 <= 2 and 0 <= k2 <= 2
    post: _
    """
    spec = _PARAM["spec"]
    cfg = config(_PARAM["argv"])
    pipeline, out = build_pipeline(cfg)
    if not cfg.paired or not pipeline.paired or not layout_ok(out, spec):
        return False
    r1, f1, info1 = _mate(1, pid, cfg.adapters, t1, q1, c1, m1, k1)
    r2, f2, info2 = _mate(2, pid, cfg.adapters2, t2, q2, c2, m2, k2)
    left = push_pair(pipeline._steps, r1, r2, info1, info2)
    if left is not None:               # the last step takes every pair that reaches it
        return False
    if not pair_sync_ok(out, pid):
        return False
    want = ref_filters(spec, f1, f2)
    if want is None:
        want = ref_final(spec, f1.matched, f2.matched, f1.last, f2.last)
    if spec["text_files"] and len(out.texts) != 2:
        return False
    return writes_ok(out, want, (r1, r2))


# ------------------------------------------------------------------------------------------ --pair-adapters
def _ref_best_pair(c1, c2):
    """c1[k] / c2[k]: (present, score, errors) of the rank-k adapter on R1 / R2.  A rank is a candidate when both of its
    adapters are found; the best is the one with the highest score sum, then the fewest errors in total, then the first."""
    best = None
    for k in range(len(c1)):
        if not (c1[k][0] and c2[k][0]):
            continue
        key = (c1[k][1] + c2[k][1], -(c1[k][2] + c2[k][2]))
        if best is None or key > best[1]:
            best = (k, key)
    return None if best is None else best[0]


def _expected_after(action, seq, quals, kind, rstart, rstop):
    """What the documented actions leave of a read with a match at [rstart, rstop): a 3' adapter ('after') goes together with
    everything behind it, a 5' adapter ('before') together with everything in front of it."""
    n = len(seq)
    lo, hi = (0, rstart) if kind == "after" else (rstop, n)        # the part that is kept
    if action == "trim":
        return seq[lo:hi], quals[lo:hi]
    if action == "mask":
        return "N" * lo + seq[lo:hi] + "N" * (n - hi), quals
    if action == "lowercase":
        return seq[:lo].lower() + seq[lo:hi].upper() + seq[hi:].lower(), quals
    if action == "retain":                                          # as trim, but the adapter itself stays
        lo, hi = (0, rstop) if kind == "after" else (rstart, n)
        return seq[lo:hi], quals[lo:hi]
    if action is None:
        return seq, quals
    raise ValueError(action)


def check_pair_adapters(pa0: bool, sa0: int, ea0: int, pb0: bool, sb0: int, eb0: int,
                        pa1: bool, sa1: int, ea1: int, pb1: bool, sb1: int, eb1: int,
                        pa2: bool, sa2: int, ea2: int, pb2: bool, sb2: int, eb2: int) -> bool:
    """
    pre: -8 <= sa0 <= 8 and -8 <= sb0 <= 8 and -8 <= sa1 <= 8 and -8 <= sb1 <= 8 and -8 <= sa2 <= 8 and -8 <= sb2 <= 8
    pre: 0 <= ea0 <= 3 and 0 <= eb0 <= 3 and 0 <= ea1 <= 3 and 0 <= eb1 <= 3 and 0 <= ea2 <= 3 and 0 <= eb2 <= 3
    post: _
    """
    ranks = _PARAM.get("ranks", 2)
    action = _PARAM.get("action", "trim")
    seq1, seq2 = "ACGTAC", "TTGCAAG"
    q1 = "".join(chr(40 + i) for i in range(len(seq1)))
    q2 = "".join(chr(50 + i) for i in range(len(seq2)))
    c1 = [(pa0, sa0, ea0), (pa1, sa1, ea1), (pa2, sa2, ea2)][:ranks]
    c2 = [(pb0, sb0, eb0), (pb1, sb1, eb1), (pb2, sb2, eb2)][:ranks]
    # rank k: 3' match at [k+1, k+3) of R1, 5' match at [k+1, k+3) of R2 -> the result shows which rank was applied
    stubs1 = [StubAdapter("f%d" % k, [("after", k + 1, k + 3, s, e)] if p else [None]) for k, (p, s, e) in enumerate(c1)]
    stubs2 = [StubAdapter("r%d" % k, [("before", k + 1, k + 3, s, e)] if p else [None]) for k, (p, s, e) in enumerate(c2)]
    cutter = PairedAdapterCutter(stubs1, stubs2, action)
    read1 = PRec("p/1", seq1, q1, pair=7, mate=1)
    read2 = PRec("p/2", seq2, q2, pair=7, mate=2)
    info1, info2 = ModificationInfo(read1), ModificationInfo(read2)
    out1, out2 = cutter(read1, read2, info1, info2)
    want = _ref_best_pair(c1, c2)
    if want is None:
        # neither mate is changed
        return (out1.sequence == seq1 and out1.qualities == q1 and out2.sequence == seq2 and out2.qualities == q2
                and len(info1.matches) == 0 and len(info2.matches) == 0 and cutter.with_adapters == 0)
    if len(info1.matches) != 1 or len(info2.matches) != 1:
        return False
    if info1.matches[0].adapter is not stubs1[want] or info2.matches[0].adapter is not stubs2[want]:
        return False
    w1 = _expected_after(action, seq1, q1, "after", want + 1, want + 3)
    w2 = _expected_after(action, seq2, q2, "before", want + 1, want + 3)
    return (out1.sequence, out1.qualities) == w1 and (out2.sequence, out2.qualities) == w2 and cutter.with_adapters == 1


# ------------------------------------------------------------------------------------------ conditions
CONDITIONS = []
_MODES = (None, "any", "both", "first")


def _add(name, opt, features, texts=None, timeout=240, thorough_only=False):
    p = {"argv": opt["argv"], "spec": opt["spec"], "features": features}
    if texts is not None:
        p["texts"] = texts
    CONDITIONS.append({"name": name, "fn": "check_pair_decision", "param": p, "timeout": timeout, "thorough_only": thorough_only})


# -m / -M in all four notations x pair-filter mode x discard / redirect
for _mode in _MODES:
    for _m, _M in (("2", "4"), ("2:", ":4"), (":2", "4:"), ("1:3", "4:2")):
        for _redir in (False, True):
            _add("length/mode=%s/m=%s/M=%s/%s" % (_mode, _m, _M, "redirect" if _redir else "discard"),
                 option_set(mode=_mode, m=_m, M=_M, short_out=_redir, long_out=_redir), "t")
    # a bound of 0 is a bound, not "no restriction" (LEN:0 is not LEN:)
    for _m, _M in (("2:0", "3:0"), ("0:2", "0")):
        for _redir in (False, True):
            _add("length/zero-bound/mode=%s/m=%s/M=%s/%s" % (_mode, _m, _M, "redirect" if _redir else "discard"),
                 option_set(mode=_mode, m=_m, M=_M, short_out=_redir, long_out=_redir), "t")

# trimmed / untrimmed filters: adapters on R1 only, R2 only, both x mode x option
for _mode in _MODES:
    for _side, _r1, _r2 in (("r1", ("one",), ()), ("r2", (), ("two",)), ("both", ("one",), ("two",))):
        for _u in ("discard", "output", "discard_trimmed"):
            _add("untrimmed/%s/adapters=%s/mode=%s" % (_u, _side, _mode), option_set(mode=_mode, r1=_r1, r2=_r2, untrimmed=_u), "m")

# the filters without a redirect file
for _mode in _MODES:
    _add("max_n/mode=%s" % _mode, option_set(mode=_mode, max_n=1), "t", TEXTS_N)
    _add("max_ee/mode=%s" % _mode, option_set(mode=_mode, max_ee=1.0), "q")
    _add("max_aer/mode=%s" % _mode, option_set(mode=_mode, max_aer=0.5), "tq", TEXTS_POS)
    _add("casava/mode=%s" % _mode, option_set(mode=_mode, casava=True), "c")

# several filters in one command, interleaved files, text files in front of the filters
_add("combined/interleaved-out/both", option_set(mode="both", m="2", M="4:", short_out=True, long_out=True, max_n=1, r1=("one",), untrimmed="output", interleaved=True), "tm", TEXTS_MIX)
_add("combined/interleaved-out/any", option_set(mode=None, m=":2", M="4", short_out=True, r1=("one",), r2=("two",), untrimmed="output", interleaved=True), "tm", TEXTS_MIX)
_add("combined/interleaved-in/first", option_set(mode="first", m="1:3", long_out=False, M="4", max_n=1, r2=("two",), untrimmed="discard", interleaved_input=True), "tm", TEXTS_MIX)
_add("combined/interleaved-both/any", option_set(mode="any", m="3", short_out=True, r1=("one", "two"), untrimmed="discard_trimmed", interleaved=True, interleaved_input=True), "tm")
_add("combined/all-discarding/both", option_set(mode="both", m="2", max_n=1, casava=True, r1=("one",), r2=("two",), untrimmed="discard"), "tcm", TEXTS_SMALL, timeout=600)
_add("combined/all-discarding/any", option_set(mode=None, M="3", max_n=1, max_ee=1.0, max_aer=0.4, r1=("one",), untrimmed="discard"), "tqm", TEXTS_SMALL, timeout=600)
_add("combined/all-discarding/first", option_set(mode="first", m="2:", M=":3", max_ee=1.0, casava=True, r2=("two",), untrimmed="discard_trimmed"), "tqcm", TEXTS_SMALL[:3], timeout=600)
_add("textfiles/any", option_set(mode=None, m="2:", short_out=True, r1=("one", "two"), r2=("three",), untrimmed="output", text_files=True), "tmk")
_add("textfiles/interleaved/both", option_set(mode="both", M="3", long_out=True, r1=("one",), untrimmed="discard", text_files=True, interleaved=True), "tm")

# demultiplexed outputs stay paired too (the routing itself is C15)
_add("demux/name/r1", option_set(r1=("one", "two", "three"), demux="name", m="2", short_out=True), "tmk")
_add("demux/name/r1+r2/untrimmed-output", option_set(mode="both", r1=("one", "two"), r2=("x", "y"), demux="name", untrimmed="output"), "mk")
_add("demux/name/pair-adapters/discard-untrimmed", option_set(r1=("one", "two"), r2=("x", "y"), pair_adapters=True, demux="name", untrimmed="discard"), "mk")
_add("demux/combi", option_set(mode="first", r1=("one", "two"), r2=("x", "y", "z"), demux="combi", M="4", long_out=True), "tmk")
_add("demux/combi/discard-untrimmed", option_set(r1=("one", "two"), r2=("x",), demux="combi", untrimmed="discard"), "mk")

# the length notations again with interleaved files; thorough tier: larger feature products
for _mode in _MODES:
    for _m, _M in (("2", "4"), ("2:", ":4"), (":2", "4:"), ("1:3", "4:2")):
        _add("length/interleaved-out/mode=%s/m=%s/M=%s" % (_mode, _m, _M), option_set(mode=_mode, m=_m, M=_M, short_out=True, long_out=True, interleaved=True), "t")
    _add("combined/all-filters/mode=%s" % _mode, option_set(mode=_mode, m="2:1", M="4", short_out=True, max_n=1, max_ee=1.0, casava=True, r1=("one", "two"), untrimmed="discard"),
         "tqcmk", TEXTS_MIX, timeout=3000, thorough_only=True)

for _ranks in (1, 2, 3):
    for _action in ("trim", "mask", "lowercase", "retain", None):
        if _ranks == 1 and _action not in ("trim", None):
            continue
        CONDITIONS.append({"name": "pair_adapters/ranks=%d/action=%s" % (_ranks, _action), "fn": "check_pair_adapters",
                           "param": {"ranks": _ranks, "action": _action}, "timeout": 300 if _ranks < 3 else 900})


def describe():
    return {
        "functions": ["steps.py:PairedEndFilter.__init__/__call__/_is_filtered_any/_is_filtered_both/_is_filtered_first/_is_filtered_second",
                      "steps.py:PairedSingleEndStep.__call__, PairedEndSink.__call__, PairedDemultiplexer.__init__/_open_writers/__call__, CombinatorialDemultiplexer.__init__/_open_writers/__call__, RestFileWriter.__call__, WildcardFileWriter.__call__",
                      "cli.py:get_argument_parser, determine_paired, check_arguments, adapters_from_args (native, per option set), make_pipeline_from_args, make_filter, parse_lengths, determine_demultiplex_mode (under CrossHair)",
                      "predicates.py:TooShort, TooLong, TooManyN, TooManyExpectedErrors, TooHighAverageErrorRate, CasavaFiltered, IsUntrimmed, IsTrimmed (.test)",
                      "modifiers.py:PairedAdapterCutter.__init__/__call__/_find_best_match_pair", "pipeline.py:PairedEndPipeline.process_reads (its step loop, re-stated in paired_common.push_pair)"],
        "bounds": {"option_sets": "%d paired command lines, one per condition: --pair-filter absent/any/both/first x -m/-M as LEN, LEN:, :LEN2, LEN:LEN2 (also with bounds of 0: 2:0, 3:0, 0:2, 0) with and without --too-short/--too-long(-paired)-output; adapters on R1 only / R2 only / both x --discard-untrimmed / --untrimmed(-paired)-output / --discard-trimmed; --max-n, --max-ee, --max-aer, --discard-casava; combinations; interleaved input and/or output; --rest-file/--wildcard-file; {name} and {name1}/{name2} outputs" % sum(1 for c in CONDITIONS if c["fn"] == "check_pair_decision"),
                   "pair": "one pair per condition; per mate: text out of 3..6 fixed texts (lengths 0..6, 0..5 N bases), expected errors out of {0, 1, 2.5}, CASAVA flag, matched flag, last matching adapter out of <= 3; pair id any int in 0..1e9",
                   "pair_adapters": "1..3 adapter pairs, each adapter found or not, score -8..8, errors 0..3; actions trim, mask, lowercase, retain, none; fixed match coordinates that differ per rank"},
        "outside_bounds": ["more than one pair per run is covered by induction only (the steps read no state that a previous pair wrote, counters are only incremented)",
                           "reading the input files and writing real files (dnaio / xopen), multi-core runs (C06)", "the modifiers in front of the steps: their effect on a mate is represented by the symbolic features",
                           "order of filters when two different criteria hit (C11): the reference uses the builder's order -m, -M, --max-n, --max-ee, --max-aer, --discard-casava, trimmed/untrimmed; no option set combines --discard-casava with a redirecting trimmed/untrimmed option",
                           "--pair-adapters with --action=crop (known C03 defect)", "more than 3 adapter pairs, more than 3 adapter names per side",
                           "interleaved OUTPUT together with {name} (crashes while the pipeline is built: PairedDemultiplexer._open_writers calls None.replace) - reported separately, no condition"],
        "stubs": ["RecOutfiles / RecordingWriter: cutadapt.files.OutputFiles as far as the builder uses it; writers record the tuples they are given", "PRec: dnaio.SequenceRecord contract (harness.e2_common.Rec) plus pair id and mate number",
                  "DummyMatch: a match of which only .adapter (a real adapter of the option set) is used", "cutadapt.predicates.expected_errors: returns the non-negative real attached to the qualities (contract C14)",
                  "StubAdapter: match_to returns an arbitrary optional match inside the sequence it was given (contract C01); score and errors symbolic"],
        "assumptions": ["CrossHair's model of str/int/list/dict operations", "only 'Confirmed over all paths' counts as discharged",
                        "a side for which no adapter was given never has a match (info.matches of that mate stays empty)"],
        "rule": "one CrossHair condition per option set / per (number of adapter pairs, action); symbolic: the per-mate features of one pair and the pair id, resp. presence, score and error count of every adapter's match. non-trivial = conditions with more than one explored path whose reachability twin is refuted",
    }


def jobs(tier, seed):
    return e2_jobs(CONDITIONS, tier)


def run_job(job):
    return e2_run_job(__name__, job)


def replay(cex):
    return e2_replay(cex)
