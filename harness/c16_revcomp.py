"""C16 - --revcomp keeps the orientation that matches strictly better.

E2 (CrossHair on the real classes): ReverseComplementer.__call__, PairedReverseComplementer.__call__, Renamer ({rc}),
InfoFileWriter (RC_MAP, orientation of the info row), on top of the real AdapterCutter / MultipleAdapters.  The
adapters are OrientedStub objects: match_to() answers an arbitrary programmed match (C01 contract: coordinates inside
the text it was given; the score is arbitrary and may be negative) and answers *differently for the forward text and
for its reverse complement* (single-end) resp. for R1 and R2 (paired-end) - the two texts use disjoint alphabets, so
the stub recognises what it is looking at.

Reference (from the statement): the result of the same stage without --revcomp (a second, fresh AdapterCutter over
fresh stubs with the same programme) on the read as given and on its reverse complement with reversed qualities
(pairs: on (R1, R2) and on (R2, R1)); the reverse/swapped result is expected iff it contains a match and its total
score is strictly greater; then ' rc' is appended to the name(s) (or {rc} is filled in), info.is_rc is true, the
counter goes up by one, and matches / statistics of that orientation - and only of that one - are registered.

Every function check_* below is one CrossHair condition; its arguments are the symbolic inputs.
"""
from harness.e2_common import Rec, StubStats, clamp, revcomp, e2_jobs, e2_run_job, e2_replay

from cutadapt.adapters import Matchable, RemoveBeforeMatch, RemoveAfterMatch
from cutadapt.modifiers import (AdapterCutter, ReverseComplementer, PairedReverseComplementer, PairedEndModifierWrapper, Renamer)
from cutadapt.steps import InfoFileWriter
from cutadapt.info import ModificationInfo

PROPERTY = "C16"
ENGINE = "crosshair"

_PARAM = {}

BIG = 99          # a 3' coordinate beyond every read: the stub clamps it to the end of the text
FWD_TEXT = "ACCA"  # reverse complement TGGT: disjoint alphabets (paired: R1 = ACCA, R2 = GTTG)
R2_TEXT = "GTTG"
FWD_ALPHABET = "ACac"


# built natively at import time (Renamer compiles its template with exec(); CrossHair's dict proxy cannot be exec's globals)
_RENAMER = Renamer("{id}_{rc} {comment}")


def set_param(p):
    _PARAM.clear()
    _PARAM.update(p or {})


# ---------------------------------------------------------------------------------- stubs
class OrientedStub(Matchable):
    """Adapter stub with one programme per orientation.  prog = {'f': [outcome, ...], 'r': [...]}; outcome k of an
    orientation answers the k-th call that shows a text of that orientation; outcome = None | (kind, x, y, score,
    errors) as in e2_common.StubAdapter (coordinates clamped into the text: C01 contract).  The orientation of a call
    is recognised from the first character (forward texts consist of A/C, the others of G/T); an empty text belongs to
    the orientation of the previous call (it can only be what an earlier round of the same search left)."""

    def __init__(self, name, prog, astop=5, fwd_alphabet=None, shared=None):
        super().__init__(name)
        self.prog = {"f": list(prog.get("f", [])), "r": list(prog.get("r", []))}
        self.count = {"f": 0, "r": 0}
        self.calls = []
        self.fwd_alphabet = FWD_ALPHABET if fwd_alphabet is None else fwd_alphabet
        self.shared = {"cur": "f"} if shared is None else shared   # stubs of one linked adapter share the orientation
        self.astop = astop
        self.sequence = "A" * astop

    def match_to(self, sequence):
        if len(sequence) > 0:
            self.shared["cur"] = "f" if sequence[0] in self.fwd_alphabet else "r"
        o = self.shared["cur"]
        k = self.count[o]
        self.count[o] = k + 1
        self.calls.append((o, sequence))
        outs = self.prog[o]
        if k >= len(outs) or outs[k] is None:
            return None
        kind, x, y, score, errors = outs[k]
        n = len(sequence)
        rstart = clamp(x, 0, n)
        rstop = clamp(y, rstart, n)
        cls = RemoveBeforeMatch if kind == "before" else RemoveAfterMatch
        return cls(0, self.astop, rstart, rstop, score, errors, adapter=self, sequence=sequence)

    def create_statistics(self):
        return StubStats()

    def enable_debug(self):
        pass

    def spec(self):
        return self.name

    def descriptive_identifier(self):
        return "stub"


class RecFile:
    """Recording text file: print() hands over its pieces one write() at a time."""

    def __init__(self):
        self.pieces = []

    def write(self, s):
        self.pieces.append(s)

    def flush(self):
        pass

    def __ch_deep_realize__(self, memo):
        # CrossHair's print() patch deep-copies ("realizes") its arguments; the file object must stay this one
        return self

    def __deepcopy__(self, memo):
        return self


def _outcome(kind, c, score):
    # one symbolic cut position per match: a 5' match covers [0, c), a 3' match [c, end)
    c = _conc(c, 0, _n())
    return ("before", 0, c, score, 0) if kind == "before" else ("after", c, BIG, score, 0)


def _mdesc(m):
    return (type(m).__name__, m.rstart, m.rstop, m.score, m.errors, m.sequence, m.adapter.name)


def _mdescs(ms):
    return [_mdesc(m) for m in ms]


def _partition(total):
    """The forward/unswapped score is split by sign where the other orientation has no match: the negative half is the
    family of the known defect (assert reverse_matches), the other half has to be confirmed."""
    sign = _PARAM.get("fwd_sign")
    if sign is None:
        return True
    return (total < 0) == (sign == "neg")


def _n():
    """Length of the read text of the current condition (cut positions range over 0..length)."""
    return len(_PARAM.get("seq", FWD_TEXT))


def _conc(x, lo, hi):
    """Identity on lo..hi that hands back a concrete int (one explicit two-way fork per value; much cheaper for
    CrossHair than realising the int at the first slice)."""
    for v in range(lo, hi):
        if x == v:
            return v
    return hi


def _quals(n):
    return "".join(chr(40 + i) for i in range(n))


# ---------------------------------------------------------------------------------- single-end
def _single_progs(c, s):
    """-> list of per-adapter programmes {'f': [...], 'r': [...]}"""
    if _PARAM.get("two_adapters"):
        fk = _PARAM.get("fk", ("after", "before"))
        rk = _PARAM.get("rk", ("before", "after"))
        fixed = _PARAM.get("fixed_cuts") or (None, None, None, None)   # quick tier: the second adapter cuts at fixed positions
        c = tuple(c[i] if fixed[i] is None else fixed[i] for i in range(4))
        return [{"f": [_outcome(fk[0], c[0], s[0])], "r": [_outcome(rk[0], c[2], s[2])]},
                {"f": [_outcome(fk[1], c[1], s[1])], "r": [_outcome(rk[1], c[3], s[3])]}]
    fk = _PARAM.get("fk", ("after",))
    rk = _PARAM.get("rk", ("after",))
    return [{"f": [_outcome(k, c[i], s[i]) for i, k in enumerate(fk)],
             "r": [_outcome(k, c[2 + i], s[2 + i]) for i, k in enumerate(rk)]}]


def _cutter(progs, times, action):
    stubs = [OrientedStub("a%d" % i, p) for i, p in enumerate(progs)]
    return AdapterCutter(stubs, times=times, action=action, index=False), stubs


def _fwd_total(s0, s1):
    if _PARAM.get("two_adapters"):
        return 0
    n = len(_PARAM.get("fk", ("after",)))
    return (s0 if n > 0 else 0) + (s1 if n > 1 else 0)


def check_single(c0: int, c1: int, c2: int, c3: int, s0: int, s1: int, s2: int, s3: int) -> bool:
    """
    pre: 0 <= c0 <= _n() and 0 <= c1 <= _n() and 0 <= c2 <= _n() and 0 <= c3 <= _n()
    pre: -3 <= s0 <= 3 and -3 <= s1 <= 3 and -3 <= s2 <= 3 and -3 <= s3 <= 3
    pre: _partition(_fwd_total(s0, s1))
    post: _
    """
    times = _PARAM.get("times", 2)
    action = _PARAM.get("action", "trim")
    naming = _PARAM.get("naming", "suffix")      # 'suffix': ' rc' appended;  'rename': --rename with {rc}
    seq = _PARAM.get("seq", FWD_TEXT)
    quals = _quals(len(seq))
    name = "r1 x"
    c = (c0, c1, c2, c3)
    s = (s0, s1, s2, s3)

    # the stage without --revcomp, on the read as given and on its reverse complement with reversed qualities
    cut_f, stubs_f = _cutter(_single_progs(c, s), times, action)
    info_f = ModificationInfo(Rec(name, seq, quals))
    out_f = cut_f(Rec(name, seq, quals), info_f)
    cut_r, stubs_r = _cutter(_single_progs(c, s), times, action)
    info_r = ModificationInfo(Rec(name, seq, quals))
    out_r = cut_r(Rec(name, revcomp(seq), quals[::-1]), info_r)
    total_f = sum(m.score for m in info_f.matches)
    total_r = sum(m.score for m in info_r.matches)
    better = len(info_r.matches) > 0 and total_r > total_f
    if better:
        want, want_info, want_cut, want_stubs = out_r, info_r, cut_r, stubs_r
    else:
        want, want_info, want_cut, want_stubs = out_f, info_f, cut_f, stubs_f

    # the stage with --revcomp
    cutter, stubs = _cutter(_single_progs(c, s), times, action)
    rc = ReverseComplementer(cutter, rc_suffix=" rc" if naming == "suffix" else None)
    read = Rec(name, seq, quals)
    info = ModificationInfo(read)
    out = rc(read, info)
    if naming == "rename":
        out = _RENAMER(out, info)
        want_name = "r1_rc x" if better else "r1_ x"
    else:
        want_name = name + " rc" if better else name
    if out.sequence != want.sequence or out.qualities != want.qualities or out.name != want_name:
        return False
    if info.is_rc is None or bool(info.is_rc) != better:
        return False
    if rc.reverse_complemented != (1 if better else 0):
        return False
    # matches and statistics: those of the chosen orientation and only those
    if _mdescs(info.matches) != _mdescs(want_info.matches):
        return False
    if cutter.with_adapters != want_cut.with_adapters:
        return False
    for st, wst in zip(stubs, want_stubs):
        got_stats = cutter.adapter_statistics[st]
        if _mdescs(got_stats.added) != _mdescs(want_cut.adapter_statistics[wst].added):
            return False
        if got_stats.reverse_complemented != (len(got_stats.added) if better else 0):
            return False
    # later steps see that orientation: the info file marks the row and starts from the re-oriented input read
    f = RecFile()
    InfoFileWriter(f)(out, info)
    p = f.pieces
    if info.matches:
        # first row: name, errors, start, stop, left, match, right, adapter, 3 x qualities, rc flag - separated by tabs
        if len(p) < 24 or p[23] != "\n" or p[22] != ("1" if better else "0"):
            return False
        if p[0] != want_name or p[8] + p[10] + p[12] != (revcomp(seq) if better else seq):
            return False
    return True


# ---------------------------------------------------------------------------------- paired-end
def _paired_progs(c, s):
    present = _PARAM.get("present", (True, True, True, True))
    kinds = _PARAM.get("kinds", ("after", "after", "after", "after"))
    which = _PARAM.get("cutters", "both")
    used = (which != "only2", which != "only1", which != "only2", which != "only1")   # outcomes 0, 2: cutter 1; outcomes 1, 3: cutter 2
    o = [(_outcome(kinds[i], c[i], s[i]) if present[i] and used[i] else None) for i in range(4)]
    # adapter of cutter 1: sees R1 (forward alphabet) in the given order and R2 when swapped; cutter 2 the other way
    return {"f": [o[0]], "r": [o[2]]}, {"r": [o[1]], "f": [o[3]]}


def _paired_cutters(c, s, times, action):
    which = _PARAM.get("cutters", "both")
    p1, p2 = _paired_progs(c, s)
    a1 = OrientedStub("A1", p1)
    a2 = OrientedStub("A2", p2)
    cut1 = AdapterCutter([a1], times=times, action=action, index=False) if which in ("both", "only1") else None
    cut2 = AdapterCutter([a2], times=times, action=action, index=False) if which in ("both", "only2") else None
    return cut1, cut2, a1, a2


def _unswapped_total(s0, s1):
    present = _PARAM.get("present", (True, True, True, True))
    which = _PARAM.get("cutters", "both")
    return (s0 if present[0] and which != "only2" else 0) + (s1 if present[1] and which != "only1" else 0)


def check_paired(c0: int, c1: int, c2: int, c3: int, s0: int, s1: int, s2: int, s3: int) -> bool:
    """
    pre: 0 <= c0 <= _n() and 0 <= c1 <= _n() and 0 <= c2 <= _n() and 0 <= c3 <= _n()
    pre: -3 <= s0 <= 3 and -3 <= s1 <= 3 and -3 <= s2 <= 3 and -3 <= s3 <= 3
    pre: _partition(_unswapped_total(s0, s1))
    post: _
    """
    times = _PARAM.get("times", 1)
    action = _PARAM.get("action", "trim")
    seq1 = _PARAM.get("seq", FWD_TEXT)
    seq2 = R2_TEXT[:len(seq1)]
    q1, q2 = _quals(len(seq1)), _quals(len(seq2))[::-1]
    n1, n2 = "p/1", "p/2"
    c = (c0, c1, c2, c3)
    s = (s0, s1, s2, s3)

    # the stage without --revcomp on (R1, R2) and on (R2, R1)
    u1, u2, ua1, ua2 = _paired_cutters(c, s, times, action)
    ui1, ui2 = ModificationInfo(Rec(n1, seq1, q1)), ModificationInfo(Rec(n2, seq2, q2))
    uo1, uo2 = PairedEndModifierWrapper(u1, u2)(Rec(n1, seq1, q1), Rec(n2, seq2, q2), ui1, ui2)
    w1, w2, wa1, wa2 = _paired_cutters(c, s, times, action)
    wi1, wi2 = ModificationInfo(Rec(n1, seq1, q1)), ModificationInfo(Rec(n2, seq2, q2))
    wo1, wo2 = PairedEndModifierWrapper(w1, w2)(Rec(n2, seq2, q2), Rec(n1, seq1, q1), wi1, wi2)
    total_u = sum(m.score for m in ui1.matches) + sum(m.score for m in ui2.matches)
    total_w = sum(m.score for m in wi1.matches) + sum(m.score for m in wi2.matches)
    better = (len(wi1.matches) + len(wi2.matches) > 0) and total_w > total_u
    if better:
        want = (wo1, wo2, wi1, wi2, w1, w2, wa1, wa2)
    else:
        want = (uo1, uo2, ui1, ui2, u1, u2, ua1, ua2)
    e1, e2, ei1, ei2, ec1, ec2, ea1, ea2 = want

    cut1, cut2, a1, a2 = _paired_cutters(c, s, times, action)
    prc = PairedReverseComplementer(cut1, cut2)
    r1, r2 = Rec(n1, seq1, q1), Rec(n2, seq2, q2)
    info1, info2 = ModificationInfo(r1), ModificationInfo(r2)
    o1, o2 = prc(r1, r2, info1, info2)
    suffix = " rc" if better else ""
    if (o1.sequence, o1.qualities, o1.name) != (e1.sequence, e1.qualities, e1.name + suffix):
        return False
    if (o2.sequence, o2.qualities, o2.name) != (e2.sequence, e2.qualities, e2.name + suffix):
        return False
    if info1.is_rc is None or info2.is_rc is None or bool(info1.is_rc) != better or bool(info2.is_rc) != better:
        return False
    if prc.reverse_complemented != (1 if better else 0):
        return False
    if _mdescs(info1.matches) != _mdescs(ei1.matches) or _mdescs(info2.matches) != _mdescs(ei2.matches):
        return False
    for cut, adapter, ecut, eadapter in ((cut1, a1, ec1, ea1), (cut2, a2, ec2, ea2)):
        if cut is None:
            continue
        if cut.with_adapters != ecut.with_adapters:
            return False
        st = cut.adapter_statistics[adapter]
        if _mdescs(st.added) != _mdescs(ecut.adapter_statistics[eadapter].added):
            return False
        if st.reverse_complemented != (len(st.added) if better else 0):
            return False
    return True


# ---------------------------------------------------------------------------------- conditions
def _kinds(n, first):
    order = ("after", "before") if first == "after" else ("before", "after")
    return tuple(order[i % 2] for i in range(n))


CONDITIONS = []


def _add_single(name, param, timeout=240, thorough_only=False):
    nf = 2 if param.get("two_adapters") else len(param["fk"])
    nr = 2 if param.get("two_adapters") else len(param["rk"])
    if nr == 0 and nf > 0:
        # partition of the forward score by sign: the negative half is the known defect's family
        for sign in ("nonneg", "neg"):
            p = dict(param, fwd_sign=sign)
            CONDITIONS.append({"name": "single/%s/fwd_score=%s" % (name, sign), "fn": "check_single", "param": p, "timeout": timeout, "thorough_only": thorough_only})
    else:
        CONDITIONS.append({"name": "single/%s" % name, "fn": "check_single", "param": param, "timeout": timeout, "thorough_only": thorough_only})


def _seq_for(n_matches):
    return "ACCA" if n_matches < 4 else "ACC"


for _nf in (0, 1, 2):
    for _nr in (0, 1, 2):
        _add_single("times=2/trim/fwd=%d/rev=%d" % (_nf, _nr), {"times": 2, "action": "trim", "fk": _kinds(_nf, "after"), "rk": _kinds(_nr, "before"), "seq": _seq_for(_nf + _nr)})
for _nf in (0, 1):
    for _nr in (0, 1):
        _add_single("times=1/trim/fwd=%d/rev=%d" % (_nf, _nr), {"times": 1, "action": "trim", "fk": _kinds(_nf, "before"), "rk": _kinds(_nr, "after"), "seq": "ACCA"})
for _action in ("mask", "lowercase", "retain", None):
    _add_single("times=1/%s/fwd=1/rev=1" % _action, {"times": 1, "action": _action, "fk": ("after",), "rk": ("before",), "seq": "ACCA"})
_add_single("times=2/mask/fwd=2/rev=1", {"times": 2, "action": "mask", "fk": ("before", "after"), "rk": ("after",), "seq": "ACCA"})
_add_single("rename/times=1/fwd=1/rev=1", {"times": 1, "action": "trim", "fk": ("after",), "rk": ("after",), "naming": "rename", "seq": "ACCA"})
_add_single("rename/times=2/fwd=0/rev=2", {"times": 2, "action": "trim", "fk": (), "rk": ("after", "before"), "naming": "rename", "seq": "ACCA"})
_add_single("two_adapters/times=1/second_adapter_fixed_cuts", {"times": 1, "action": "trim", "two_adapters": True, "fk": ("after", "before"), "rk": ("before", "after"), "seq": "ACC", "fixed_cuts": (None, 1, None, 2)})
_add_single("two_adapters/times=1", {"times": 1, "action": "trim", "two_adapters": True, "fk": ("after", "before"), "rk": ("before", "after"), "seq": "AC"}, timeout=900, thorough_only=True)
import itertools as _it
for _fk in _it.product(("before", "after"), repeat=2):
    for _rk in _it.product(("before", "after"), repeat=2):
        if (_fk, _rk) != (_kinds(2, "after"), _kinds(2, "before")):
            _add_single("times=2/trim/fwd=%s/rev=%s" % ("".join(k[0] for k in _fk), "".join(k[0] for k in _rk)), {"times": 2, "action": "trim", "fk": _fk, "rk": _rk, "seq": "ACC"}, thorough_only=True)
_add_single("times=2/trim/fwd=2/rev=2/len4", {"times": 2, "action": "trim", "fk": ("after", "before"), "rk": ("before", "after"), "seq": "ACCA"}, timeout=900, thorough_only=True)


def _add_paired(name, param, timeout=240, thorough_only=False):
    present = param["present"]
    which = param.get("cutters", "both")
    sw = (present[2] and which != "only2") or (present[3] and which != "only1")
    un = (present[0] and which != "only2") or (present[1] and which != "only1")
    if not sw and un:
        for sign in ("nonneg", "neg"):
            p = dict(param, fwd_sign=sign)
            CONDITIONS.append({"name": "paired/%s/unswapped_score=%s" % (name, sign), "fn": "check_paired", "param": p, "timeout": timeout, "thorough_only": thorough_only})
    else:
        CONDITIONS.append({"name": "paired/%s" % name, "fn": "check_paired", "param": param, "timeout": timeout, "thorough_only": thorough_only})


for _pres in _it.product((False, True), repeat=4):
    _add_paired("both/trim/present=%s" % "".join("1" if x else "0" for x in _pres),
                {"cutters": "both", "present": _pres, "kinds": ("after", "before", "before", "after"), "times": 1, "action": "trim", "seq": _seq_for(sum(_pres))})
for _which in ("only1", "only2"):
    for _pres in ((True, True, True, True), (True, True, False, False)):
        _add_paired("%s/trim/present=%s" % (_which, "".join("1" if x else "0" for x in _pres)),
                    {"cutters": _which, "present": _pres, "kinds": ("after", "after", "before", "after"), "times": 1, "action": "trim", "seq": "ACCA"})
_add_paired("both/mask/times=2/present=1111", {"cutters": "both", "present": (True, True, True, True), "kinds": ("after", "before", "after", "before"), "times": 2, "action": "mask", "seq": "ACC"})


def describe():
    return {
        "functions": ["modifiers.py:ReverseComplementer.__call__", "modifiers.py:PairedReverseComplementer.__call__", "modifiers.py:Renamer.__call__/compile_rename_function ({rc})",
                      "steps.py:InfoFileWriter.__call__ (RC_MAP, re-oriented original read)", "modifiers.py:AdapterCutter.__call__/match_and_trim/_match_and_trim_once_action_trim (baseline and callee)",
                      "modifiers.py:PairedEndModifierWrapper.__call__ (baseline)", "adapters.py:MultipleAdapters.match_to"],
        "bounds": {"read": "fixed text ACCA (reverse complement TGGT), pairs ACCA/GTTG, distinct quality characters; ACC / GTT where four matches are symbolic at once", "matches": "0..2 per orientation (--times 1 and 2), one or two adapters; pairs: 0..1 per cutter and order",
                   "cut positions": "0..4 (every prefix/suffix of the text, symbolic)", "scores": "-3..3 each, symbolic (negative scores included)",
                   "actions": "trim, mask, lowercase, retain, none", "naming": "' rc' suffix; --rename '{id}_{rc} {comment}'", "paired": "both cutters, only R1 cutter, only R2 cutter"},
        "outside_bounds": ["longer reads and more than 2 rounds", "score magnitudes above 3 (the decision is a linear comparison of sums)", "PairedEndRenamer (does not accept {rc})"],
        "stubs": ["OrientedStub: match_to returns an arbitrary optional match whose coordinates lie inside the text it was given (C01 contract), programmed separately for the forward text and its reverse complement (R1/R2); score symbolic, unconstrained in sign",
                  "StubStats: records add_match calls and the reverse_complemented counter", "Rec: dnaio.SequenceRecord contract (reverse_complement reverses the qualities)", "RecFile: records print()'s pieces"],
        "assumptions": ["CrossHair's model of str/int/list operations", "only 'Confirmed over all paths' counts as discharged",
                        "conditions whose other orientation has no match are split by the sign of the forward/unswapped score; the negative half is the family of the known defect (assert reverse_matches)"],
        "rule": "one CrossHair condition per (single/paired, --times, action, number and kind of matches per orientation, naming); symbolic: cut positions and scores. non-trivial = conditions with more than one explored path whose reachability twin is refuted",
    }


def known_match(entry, cex):
    """Family of the known defect: the forward (unswapped) score is negative and the other orientation has no match."""
    if entry.get("family") == "negative_forward_score_no_reverse_match":
        return (cex.get("param") or {}).get("fwd_sign") == "neg"
    return False


def jobs(tier, seed):
    return e2_jobs(CONDITIONS, tier)


def run_job(job):
    return e2_run_job(__name__, job)


def replay(cex):
    return e2_replay(cex)
