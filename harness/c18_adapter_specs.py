"""C18 - adapter specifications mean what the documented notation says.

E1 (symx, forking mode).  Executed from source: parser.py (parse_search_parameters, expand_braces,
_normalize_ellipsis, AdapterSpecification.parse/_extract_name/_parse_restrictions/_restriction_to_class,
make_adapter, _make_linked_adapter, _make_not_linked_adapter, make_adapters_from_one_specification incl. the
file:/^file:/file$: variants with a stubbed FASTA reader) and adapters.SingleAdapter.__init__ / LinkedAdapter.__init__
(error-number -> rate conversion with a symbolic N count).  The sequence part of every specification is a bounded
symbolic string; the grammar around it (option letter x restriction x name x parameter subsets x brace forms x
linked combinations x file prefix forms x global settings) is enumerated completely up to the stated size.
The reference is written here from the user guide over the *structured* description of each template.
"""
import itertools

import z3

from harness.common import (Job, run_paths, new_interp, sym_str, model_int, model_str, zint, program, V, Unsupported)

PROPERTY = "C18"
ENGINE = "symx"

SEQ_ALPHABET = "ACGTUINacgn"          # no X here: restrictions come from the concrete syntax (family A)
GLOBALS = {
    "default": dict(max_errors=0.1, min_overlap=3, read_wildcards=False, adapter_wildcards=True, indels=True),
    "strict": dict(max_errors=0.0, min_overlap=5, read_wildcards=True, adapter_wildcards=False, indels=False),
}

# parameter texts with their structured meaning: list of (key, value) in the order written
PARAMS = {
    "": [],
    ";e=0.2": [("max_errors", 0.2)],
    ";max_error_rate=0.25": [("max_errors", 0.25)],
    ";error_rate=0.3": [("max_errors", 0.3)],
    ";max_errors=2": [("max_errors", 2)],
    ";e=1": [("max_errors", 1)],
    ";o=2": [("min_overlap", 2)],
    ";min_overlap=7": [("min_overlap", 7)],
    ";noindels": [("indels", False)],
    ";indels": [("indels", True)],
    ";anywhere": [("anywhere", True)],
    ";rightmost": [("rightmost", True)],
    ";required": [("required", True)],
    ";optional": [("required", False)],
    ";e=0.2;o=4;noindels": [("max_errors", 0.2), ("min_overlap", 4), ("indels", False)],
    ";o=2;noindels": [("min_overlap", 2), ("indels", False)],
    ";min_overlap=2": [("min_overlap", 2)],
    " ; o = 2 ; e=0.5 ": [("min_overlap", 2), ("max_errors", 0.5)],
    # documented invalid forms
    ";foo=1": KeyError,
    ";e=": ValueError,
    ";e=0.1;e=0.2": KeyError,
    ";e=0.1;max_errors=2": KeyError,
    ";indels;noindels": ValueError,
    ";optional;required": ValueError,
}
QUICK_PARAMS = ["", ";e=0.2", ";max_errors=2", ";o=2", ";min_overlap=7", ";noindels", ";anywhere", ";rightmost", ";required", ";e=0.2;o=4;noindels", ";foo=1", ";e=", ";indels;noindels"]


def describe():
    return {
        "functions": ["parser.py:parse_search_parameters", "parser.py:expand_braces", "parser.py:_normalize_ellipsis", "parser.py:AdapterSpecification.parse/_extract_name/_parse_restrictions/_restriction_to_class",
                      "parser.py:make_adapter/_make_linked_adapter/_make_not_linked_adapter/make_adapters_from_one_specification", "adapters.py:SingleAdapter.__init__ (all classes)", "adapters.py:LinkedAdapter.__init__"],
        "bounds": {"quick": {"sequence part": "symbolic, length 1..3 over " + SEQ_ALPHABET + " (family A); length 1..3 over XA and over xA (family B: X handling)", "types": "-a, -g, -b",
                             "restrictions": "none, ^, $, leading X, trailing X and their invalid combinations", "names": "none / nm=", "parameters": QUICK_PARAMS,
                             "globals": list(GLOBALS), "linked": "all restriction pairs x {-a,-g} x {none, required, optional on either side}", "file forms": "file:, ^file:, file$: with file-level parameters",
                             "braces": "c{n} on a symbolic character, n in 0..3, and the invalid forms"},
                   "thorough": {"parameters": sorted(k for k in PARAMS), "sequence part": "length 1..4"}},
        "outside_bounds": ["absolute error numbers (>= 1) for sequences without any non-N base (conversion undefined; rejection or acceptance both tolerated)", "longer sequences", "parameter values other than the listed ones", "InvalidCharacter path (non-IUPAC characters) and the 'a file exists with that name' hint", "reading real FASTA files (dnaio)"],
        "stubs": ["<AdapterClass>._aligner / _kmer_finder -> recorders (the aligner arguments are C01's subject)", "read_adapters_fasta -> two records with symbolic sequences"],
        "assumptions": ["'required' default for -a linked adapters: a part is required iff it carries a placement restriction (anchored or non-internal), as the code defines 'anchored' for this purpose"],
        "rule": "job = one specification template (structure concrete, sequence symbolic); paths = forks on symbolic characters; claims: class, normalised sequence, name, restriction, parameters with precedence adapter > file > global, rate = value / non-N bases for values >= 1, documented errors. non-trivial = templates whose outcome was compared on at least one feasible path",
    }


# ------------------------------------------------------------------------------- structured reference
CLASS_BY = {("front", None, False): "FrontAdapter", ("front", None, True): "RightmostFrontAdapter", ("front", "anchored", False): "PrefixAdapter",
            ("front", "noninternal", False): "NonInternalFrontAdapter", ("back", None, False): "BackAdapter", ("back", "anchored", False): "SuffixAdapter",
            ("back", "noninternal", False): "NonInternalBackAdapter", ("anywhere", None, False): "AnywhereAdapter"}


def ref_params(ptext):
    """-> dict or an exception class (documented invalid combinations)"""
    p = PARAMS[ptext]
    if isinstance(p, type):
        return p
    return dict(p)


def ref_single(atype, pre, post, ptext, L, gl, linked_part=False):
    """Expected outcome of one non-linked specification: ('error', exc classes) or ('ok', info dict)."""
    params = ref_params(ptext)
    if isinstance(params, type):
        return ("error", (params,))
    params = dict(params)
    rightmost = params.pop("rightmost", False)
    front = {"^": "anchored", "X": "noninternal", "": None}[pre]
    back = {"$": "anchored", "X": "noninternal", "": None}[post]
    if front and back:
        return ("error", (ValueError,))
    if atype == "front" and back:
        return ("error", (ValueError,))
    if atype == "back" and front:
        return ("error", (ValueError,))
    restriction = front or back
    if atype == "anywhere" and restriction:
        return ("error", (ValueError,))
    if "min_overlap" in params and restriction == "anchored":
        return ("error", (ValueError,))
    if rightmost and (atype != "front" or restriction is not None):
        return ("error", (ValueError,))
    if params.get("min_overlap", 0) > L:
        params["min_overlap"] = L
    cls = CLASS_BY[(atype, restriction, rightmost)]
    info = {"cls": cls, "restriction": restriction, "params": params}
    if linked_part:
        return ("ok", info)
    force_anywhere = False
    if params.pop("anywhere", False) and cls in ("FrontAdapter", "BackAdapter", "RightmostFrontAdapter"):
        force_anywhere = True
    if "required" in params:
        return ("error", (ValueError,))
    kw = dict(GLOBALS[gl])
    kw.update(params)
    info["kw"] = kw
    info["force_anywhere"] = force_anywhere
    return ("ok", info)


def expected_attrs(info_kw, cls, L):
    """Attributes the constructed adapter must have, from the documented meaning of the keyword arguments."""
    kw = info_kw
    mo = L if cls in ("PrefixAdapter", "SuffixAdapter") else min(kw["min_overlap"], L)
    return {"min_overlap": mo, "indels": kw["indels"], "read_wildcards": kw["read_wildcards"], "max_errors": kw["max_errors"], "adapter_wildcards_requested": kw["adapter_wildcards"]}


# ------------------------------------------------------------------------------- templates
def single_templates(tier):
    out = []
    plist = QUICK_PARAMS if tier == "quick" else list(PARAMS)
    # lengths on both sides of the global minimum overlaps (3 and 5): an anchored adapter's overlap is its own length
    Ls = (1, 4) if tier == "quick" else (1, 2, 4, 6)
    for atype in ("back", "front", "anywhere"):
        for pre in ("", "^", "X"):
            for post in ("", "$", "X"):
                for ptext in plist:
                    for name in ("", "nm="):
                        for gl in GLOBALS:
                            if tier == "quick" and (gl == "strict" and ptext not in ("", ";e=0.2", ";max_errors=2", ";o=2") or name and ptext not in ("", ";e=0.2", ";anywhere")):
                                continue
                            for L in Ls:
                                if tier == "quick" and L == 1 and ptext not in ("", ";max_errors=2", ";o=2", ";min_overlap=7"):
                                    continue
                                out.append({"fam": "single", "atype": atype, "pre": pre, "post": post, "ptext": ptext, "name": name, "gl": gl, "L": L})
    return out


def linked_templates(tier):
    out = []
    reqs = ["", ";required", ";optional"]
    for atype in ("back", "front", "anywhere"):
        for pre1, post1 in (("", ""), ("^", ""), ("X", ""), ("", "$")):
            for pre2, post2 in (("", ""), ("", "$"), ("", "X"), ("^", "")):
                for p1 in reqs + [";e=0.2"]:
                    for p2 in reqs + [";o=2"]:
                        if tier == "quick" and p1 and p2 and (p1, p2) not in ((";required", ";optional"), (";e=0.2", ";o=2")):
                            continue
                        out.append({"fam": "linked", "atype": atype, "pre1": pre1, "post1": post1, "pre2": pre2, "post2": post2, "p1": p1, "p2": p2, "gl": "default", "L": 2, "name": "nm=" if (p1, p2) == ("", "") else ""})
    return out


def other_templates(tier):
    out = []
    for atype in ("back", "front", "anywhere"):
        for form in ("seq...", "...seq"):
            out.append({"fam": "ellipsis", "atype": atype, "form": form, "gl": "default", "L": 2})
        for n in (0, 1, 2, 3):
            out.append({"fam": "brace", "atype": atype, "n": n, "gl": "default", "L": 2})
        for bad in ("{2}A", "A{2", "A{2}}", "A{x}", "A}"):
            out.append({"fam": "brace_bad", "atype": atype, "text": bad, "gl": "default"})
        for ftype in ("file:", "^file:", "file$:"):
            for fp in ("", ";e=0.2", ";o=2;noindels", ";min_overlap=2"):
                out.append({"fam": "file", "atype": atype, "ftype": ftype, "fp": fp, "gl": "default", "L": 2})
        for L in ((1, 2, 3) if tier == "quick" else (1, 2, 3, 4)):
            for alpha in ("XA", "xA"):
                out.append({"fam": "xseq", "atype": atype, "L": L, "gl": "default", "alpha": alpha})
    return out


def tname(t):
    return "/".join("%s=%s" % (k, t[k]) for k in sorted(t) if k != "fam")


def jobs(tier, seed):
    out = []
    for t in single_templates(tier) + linked_templates(tier) + other_templates(tier):
        out.append({"name": t["fam"] + "/" + tname(t), "t": t})
    return out


# ------------------------------------------------------------------------------- running the implementation
ADAPTER_CLASSES = ["FrontAdapter", "RightmostFrontAdapter", "BackAdapter", "AnywhereAdapter", "NonInternalFrontAdapter", "NonInternalBackAdapter", "PrefixAdapter", "SuffixAdapter"]


class AlignerRecorder:
    def __init__(self, owner):
        self.effective_length = None


def setup(ctx):
    import cutadapt.adapters as A
    import cutadapt.parser as P
    it = new_interp(ctx)
    def make_wrapper(qual):
        def wrapper(it_, self_obj):
            # the real constructor of the aligner runs (it rejects all-N sequences); only when the rate is a
            # function of a symbolic N count (absolute error numbers) a recorder stands in - on those paths the
            # sequence is known not to consist of N only
            if isinstance(self_obj.max_error_rate, V.SFloatTab):
                return AlignerRecorder(self_obj)
            del it_.overrides[qual]
            try:
                return it_.call_value(it_.getattr(self_obj, "_aligner"), [], {})
            finally:
                it_.overrides[qual] = wrapper
        return wrapper
    for c in ADAPTER_CLASSES:
        it.overrides[c + "._aligner"] = make_wrapper(c + "._aligner")
        it.overrides[c + "._kmer_finder"] = lambda it_, self_obj: A.MockKmerFinder()
    return it, A, P


def sconcat(*parts):
    chars = []
    for p in parts:
        chars.extend(V.str_chars(p))
    return V.mk_str(chars, "str")


def norm_expected(seq):
    """documented normalisation: upper case, U->T, I->N (as z3 terms per character)"""
    out = []
    for c in seq.chars:
        e = zint(c)
        e = z3.If(z3.And(e >= 97, e <= 122), e - 32, e)
        e = z3.If(e == ord("U"), V.ival(ord("T")), z3.If(e == ord("I"), V.ival(ord("N")), e))
        out.append(e)
    return out


def seq_equals(adapter_seq, expected_terms):
    chars = V.str_chars(adapter_seq)
    if len(chars) != len(expected_terms):
        return z3.BoolVal(False)
    return z3.And(*[zint(a) == b for a, b in zip(chars, expected_terms)]) if chars else z3.BoolVal(True)


def check_adapter(J, ctx, it, ad, info, seq, name_expected, mk, what):
    """Claims for one constructed non-linked adapter against the structured expectation."""
    L = len(seq)
    cls = info["cls"]
    att = expected_attrs(info["kw"], cls, L)
    ok = type(ad).__name__ == cls
    ok = ok and ad.min_overlap == att["min_overlap"] and ad.indels == att["indels"] and ad.read_wildcards == att["read_wildcards"]
    if cls in ("FrontAdapter", "BackAdapter", "RightmostFrontAdapter"):
        ok = ok and bool(ad._force_anywhere) == info["force_anywhere"]
    if name_expected is not None:
        ok = ok and ad.name == name_expected
    J.obligations += 1
    if not ok:
        J.violated += 1
        if J.cex is None and ctx.is_sat([]) == "sat":
            J.cex = mk(ctx.model())
            J.cex["what"] = "%s: class/name/parameters differ from the documented meaning: got %s(name=%r, min_overlap=%r, indels=%r, read_wildcards=%r), expected %s %r %r" % (
                what, type(ad).__name__, ad.name, ad.min_overlap, ad.indels, ad.read_wildcards, cls, name_expected, att)
            J.detail = J.cex["what"]
        return
    J.discharged += 1
    exp = norm_expected(seq)
    J.claim(ctx, seq_equals(ad.sequence, exp), what + ": adapter sequence is not the upper-cased, U->T, I->N sequence part", mk)
    # error parameter: a value >= 1 is an absolute number converted to a rate by dividing by the non-N bases
    me = att["max_errors"]
    rate = ad.max_error_rate
    nonn = V.isum([z3.If(e == ord("N"), V.ival(0), V.ival(1)) for e in exp]) if exp else V.ival(0)
    if me < 1:
        claim = z3.BoolVal(isinstance(rate, float) and rate == me)
    else:
        if isinstance(rate, V.SFloatTab):
            parts = []
            for c, f in rate.entries:
                # same reference as the concrete replay: no non-N base -> the value stays as given
                parts.append(z3.Implies(c, z3.Or(z3.And(nonn == 0, z3.BoolVal(f == me)), *[z3.And(nonn == k, z3.BoolVal(f == me / k)) for k in range(1, L + 1)])))
            claim = z3.And(*parts)
        elif isinstance(rate, (int, float)):
            claim = z3.Or(z3.And(nonn == 0, z3.BoolVal(rate == me)), *[z3.And(nonn == k, z3.BoolVal(rate == me / k)) for k in range(1, L + 1)])
        else:
            claim = z3.BoolVal(False)
    J.claim(ctx, claim, what + ": max_error_rate is not value (rate) resp. value / number of non-N bases (absolute number)", mk)
    # adapter wildcards are effective iff requested and the sequence is not ACGT-only
    acgt = z3.And(*[V.in_ranges(e, [ord(x) for x in "ACGT"]) for e in exp]) if exp else z3.BoolVal(True)
    aw = ad.adapter_wildcards
    J.claim(ctx, (V.zb(aw) if not isinstance(aw, bool) else z3.BoolVal(aw)) == z3.And(z3.BoolVal(att["adapter_wildcards_requested"]), z3.Not(acgt)), what + ": adapter_wildcards flag differs", mk)


def expect_error(J, ctx, exc, expected, mk, what, seqs=(), aw=True):
    if expected[0] == "ok" and isinstance(exc, ValueError) and "only N" in str(exc) and seqs:
        # documented: an adapter consisting only of N wildcards is rejected (adapter wildcards on)
        alln = z3.Or(*[z3.And(*[e == ord("N") for e in norm_expected(s)]) for s in seqs])
        J.claim(ctx, z3.And(z3.BoolVal(bool(aw)), alln), what + ": 'only N wildcards' error for a sequence that is not all N", mk)
        return
    if expected[0] == "ok" and isinstance(exc, ValueError) and "max_error_rate must be between" in str(exc) and seqs:
        # an absolute error number cannot be converted to a rate when there is no non-N base: undefined by the
        # documentation, a rejection is tolerated (outside the claim) - but only for all-N sequences
        alln = z3.Or(*[z3.And(*[e == ord("N") for e in norm_expected(s)]) for s in seqs])
        J.claim(ctx, alln, what + ": 'max_error_rate must be between 0 and 1' for a sequence with non-N bases", mk)
        return
    J.obligations += 1
    if expected[0] == "error" and isinstance(exc, expected[1]):
        J.discharged += 1
        return
    J.violated += 1
    if J.cex is None and ctx.is_sat([]) == "sat":
        J.cex = mk(ctx.model())
        J.cex["what"] = "%s: raises %r, expected %s" % (what, exc, expected[0] if expected[0] != "error" else expected[1])
        J.detail = J.cex["what"]


def path(J, ctx, t):
    it, A, P = setup(ctx)
    fam = t["fam"]
    gl = dict(GLOBALS[t["gl"]])
    f = it.getattr(P, "make_adapters_from_one_specification")
    texts = {}

    def mk(m):
        return {"t": t, "spec": {k: model_str(m, v) for k, v in texts.items()}}
    allowed = (ValueError, KeyError, A.InvalidCharacter)
    if fam == "single":
        seq = sym_str(ctx, "s", t["L"], alphabet=SEQ_ALPHABET)
        spec = sconcat(t["name"], t["pre"], seq, t["post"], t["ptext"])
        texts["spec"] = spec
        exp = ref_single(t["atype"], t["pre"], t["post"], t["ptext"], t["L"], t["gl"])
        try:
            ads = it.call_value(f, [spec, t["atype"], gl], {})
        except allowed as e:
            return expect_error(J, ctx, e, exp, mk, "single", [seq], gl["adapter_wildcards"])
        if exp[0] == "error":
            J.obligations += 1
            J.violated += 1
            if J.cex is None and ctx.is_sat([]) == "sat":
                J.cex = mk(ctx.model())
                J.cex["what"] = "documented invalid combination is accepted (expected %s)" % (exp[1],)
            return
        check_adapter(J, ctx, it, ads[0], exp[1], seq, "nm" if t["name"] else None, mk, "single")
        J.nontrivial = 1
    elif fam == "linked":
        s1 = sym_str(ctx, "s", t["L"], alphabet=SEQ_ALPHABET)
        s2 = sym_str(ctx, "u", t["L"], alphabet=SEQ_ALPHABET)
        spec = sconcat(t["name"], t["pre1"], s1, t["post1"], t["p1"], "...", t["pre2"], s2, t["post2"], t["p2"])
        texts["spec"] = spec
        e1 = ref_single("front", t["pre1"], t["post1"], t["p1"], t["L"], t["gl"], linked_part=True)
        e2 = ref_single("back", t["pre2"], t["post2"], t["p2"], t["L"], t["gl"], linked_part=True)
        if t["atype"] == "anywhere":
            exp = ("error", (ValueError,))
        elif e1[0] == "error":
            exp = e1
        elif e2[0] == "error":
            exp = e2
        else:
            exp = ("ok", None)
        try:
            ads = it.call_value(f, [spec, t["atype"], gl], {})
        except allowed as e:
            return expect_error(J, ctx, e, exp, mk, "linked", [s1, s2], gl["adapter_wildcards"])
        except TypeError as e:
            # e.g. an unexpected keyword reaching a constructor: documented combination must not crash
            return expect_error(J, ctx, e, exp, mk, "linked")
        if exp[0] == "error":
            J.obligations += 1
            J.violated += 1
            if J.cex is None and ctx.is_sat([]) == "sat":
                J.cex = mk(ctx.model())
                J.cex["what"] = "documented invalid linked combination is accepted"
            return
        la = ads[0]
        i1, i2 = e1[1], e2[1]
        fr_def = True if t["atype"] == "front" else (i1["restriction"] is not None)
        br_def = True if t["atype"] == "front" else (i2["restriction"] is not None)
        fr = i1["params"].get("required", fr_def)
        br = i2["params"].get("required", br_def)
        ok = type(la).__name__ == "LinkedAdapter" and la.front_required == fr and la.back_required == br
        ok = ok and type(la.front_adapter).__name__ == i1["cls"] and type(la.back_adapter).__name__ == i2["cls"]
        if t["name"]:
            ok = ok and la.name == "nm"
        # per-part parameters override the globals
        for part, info in ((la.front_adapter, i1), (la.back_adapter, i2)):
            kw = dict(GLOBALS[t["gl"]])
            kw.update({k: v for k, v in info["params"].items() if k != "required"})
            if info["cls"] not in ("PrefixAdapter", "SuffixAdapter"):
                ok = ok and part.min_overlap == min(kw["min_overlap"], t["L"])
            ok = ok and part.indels == kw["indels"] and (part.max_error_rate == kw["max_errors"] if isinstance(part.max_error_rate, float) else False)
        J.obligations += 1
        if ok:
            J.discharged += 1
        else:
            J.violated += 1
            if J.cex is None and ctx.is_sat([]) == "sat":
                J.cex = mk(ctx.model())
                J.cex["what"] = "linked adapter: required flags / classes / parameters differ: got front %s required=%r, back %s required=%r; expected %s %r / %s %r" % (
                    type(la.front_adapter).__name__, la.front_required, type(la.back_adapter).__name__, la.back_required, i1["cls"], fr, i2["cls"], br)
        J.claim(ctx, z3.And(seq_equals(la.front_adapter.sequence, norm_expected(s1)), seq_equals(la.back_adapter.sequence, norm_expected(s2))), "linked: part sequences differ", mk)
        J.nontrivial = 1
    elif fam == "ellipsis":
        seq = sym_str(ctx, "s", t["L"], alphabet=SEQ_ALPHABET)
        spec = sconcat(seq, "...") if t["form"] == "seq..." else sconcat("...", seq)
        texts["spec"] = spec
        # documented: -a ADAPTER... is a 5' adapter, -a ...ADAPTER a 3' adapter, -g ADAPTER... a 5' adapter, -g ...ADAPTER invalid, -b with ... invalid
        if t["atype"] == "anywhere" or (t["atype"] == "front" and t["form"] == "...seq"):
            exp = ("error", (ValueError,))
        else:
            et = "front" if t["form"] == "seq..." else "back"
            exp = ref_single(et, "", "", "", t["L"], t["gl"])
        try:
            ads = it.call_value(f, [spec, t["atype"], gl], {})
        except allowed as e:
            return expect_error(J, ctx, e, exp, mk, "ellipsis", [seq], gl["adapter_wildcards"])
        if exp[0] == "error":
            J.obligations += 1
            J.violated += 1
            if J.cex is None and ctx.is_sat([]) == "sat":
                J.cex = mk(ctx.model())
                J.cex["what"] = "invalid ellipsis form is accepted"
            return
        check_adapter(J, ctx, it, ads[0], exp[1], seq, None, mk, "ellipsis")
        J.nontrivial = 1
    elif fam == "brace":
        seq = sym_str(ctx, "s", t["L"], alphabet=SEQ_ALPHABET)
        spec = sconcat(seq, "{%d}" % t["n"])
        texts["spec"] = spec
        expanded = V.SStr(list(seq.chars[:-1]) + [seq.chars[-1]] * t["n"])
        Lx = len(expanded)
        try:
            ads = it.call_value(f, [spec, t["atype"], gl], {})
        except allowed as e:
            # x{0} on a one-character sequence leaves nothing: "Adapter sequence is empty"
            return expect_error(J, ctx, e, ("error", (ValueError,)) if Lx == 0 else ("ok", None), mk, "brace", [expanded] if Lx else (), gl["adapter_wildcards"])
        if Lx == 0:
            # the all-X special case does not apply; an empty sequence must be rejected
            J.obligations += 1
            J.violated += 1
            if J.cex is None and ctx.is_sat([]) == "sat":
                J.cex = mk(ctx.model())
                J.cex["what"] = "empty sequence after brace expansion is accepted"
            return
        exp = ref_single(t["atype"], "", "", "", Lx, t["gl"])
        check_adapter(J, ctx, it, ads[0], exp[1], expanded, None, mk, "brace")
        J.nontrivial = 1
    elif fam == "brace_bad":
        try:
            it.call_value(f, [t["text"], t["atype"], gl], {})
        except allowed as e:
            return expect_error(J, ctx, e, ("error", (ValueError,)), mk, "brace_bad")
        J.obligations += 1
        J.violated += 1
        J.cex = {"t": t, "spec": {"spec": t["text"]}, "what": "malformed brace expression is accepted"}
    elif fam == "file":
        r1 = sym_str(ctx, "s", t["L"], alphabet=SEQ_ALPHABET)
        r2 = sym_str(ctx, "u", t["L"], alphabet=SEQ_ALPHABET)
        texts["rec1"], texts["rec2"] = r1, r2
        it.overrides["read_adapters_fasta"] = lambda it_, path: [("first", r1), (None, r2)]
        spec = t["ftype"] + "adapters.fa" + t["fp"]
        pre = "^" if t["ftype"] == "^file:" else ""
        post = "$" if t["ftype"] == "file$:" else ""
        exp = ref_single(t["atype"], pre, post, "", t["L"], t["gl"])
        fparams = ref_params(t["fp"]) if t["fp"] else {}
        try:
            ads = it.call_value(f, [spec, t["atype"], gl], {})
        except allowed as e:
            return expect_error(J, ctx, e, exp, mk, "file", [r1, r2], gl["adapter_wildcards"])
        if exp[0] == "error":
            J.obligations += 1
            J.violated += 1
            if J.cex is None and ctx.is_sat([]) == "sat":
                J.cex = mk(ctx.model())
                J.cex["what"] = "invalid anchoring of a file: specification is accepted"
            return
        info = dict(exp[1])
        kw = dict(GLOBALS[t["gl"]])
        kw.update(fparams)          # file-level parameters override the globals
        info["kw"] = kw
        J.obligations += 1
        if len(ads) == 2:
            J.discharged += 1
        else:
            J.violated += 1
        for ad, rec, nm in zip(ads, (r1, r2), ("first", None)):
            check_adapter(J, ctx, it, ad, info, rec, nm, mk, "file")
        # a specification given AFTER the file: one (same dict of global options, as cli.py passes it) must still
        # get the global options, not the file-level parameters
        r3 = sym_str(ctx, "w", t["L"], alphabet=SEQ_ALPHABET)
        texts["later_spec"] = r3
        exp3 = ref_single(t["atype"], "", "", "", t["L"], t["gl"])
        try:
            later = it.call_value(f, [r3, t["atype"], gl], {})
        except allowed as e:
            return expect_error(J, ctx, e, exp3, mk, "specification after a file: one", [r3], gl["adapter_wildcards"])
        check_adapter(J, ctx, it, later[0], exp3[1], r3, None, mk, "specification after a file: one")
        J.nontrivial = 1
    elif fam == "xseq":
        path_xseq(J, ctx, it, A, f, t, gl, texts, mk, allowed)
    J.safety(ctx, mk)
    J.obligations += 1
    if gl == GLOBALS[t["gl"]]:
        J.discharged += 1
    else:
        J.violated += 1
        if J.cex is None and ctx.is_sat([]) == "sat":
            J.cex = mk(ctx.model())
            J.cex["what"] = "parsing the specification changed the global search parameters: %r" % (gl,)
    J.sample = {"template": t}


def ref_x(text, atype):
    """Concrete reference for sequences made of X/x/A only: leading/trailing X forbid internal matches."""
    if len(text.strip("X")) == 0:
        return ("ok", {"cls": CLASS_BY[(atype, None, False)], "seq": text})     # all-X special case, kept for compatibility
    a = len(text) - len(text.lstrip("xX"))
    b = len(text) - len(text.rstrip("xX"))
    if a and b:
        return ("error", (ValueError,))
    core = text[a:len(text) - b]
    if not core:
        return ("error", (ValueError,))
    front = "noninternal" if a else None
    back = "noninternal" if b else None
    if atype == "front" and back or atype == "back" and front or atype == "anywhere" and (front or back):
        return ("error", (ValueError,))
    return ("ok", {"cls": CLASS_BY[(atype, front or back, False)], "seq": core.upper()})


def path_xseq(J, ctx, it, A, f, t, gl, texts, mk, allowed):
    seq = sym_str(ctx, "s", t["L"], alphabet=t.get("alpha", "XA"))
    texts["spec"] = seq
    try:
        ads = it.call_value(f, [seq, t["atype"], gl], {})
        exc = None
    except allowed as e:
        ads, exc = None, e
    # the reference ref_x (above, written from the user guide) is executed by the same interpreter on the same
    # symbolic text: its forks are decided under the path condition of the implementation's path, and the two
    # outcomes are compared on every joint path
    import os
    program().extra_files.add(os.path.realpath(__file__))
    exp = it.call_value(ref_x, [seq, t["atype"]], {})
    J.obligations += 1
    ok = False
    if exc is not None:
        ok = exp[0] == "error" and isinstance(exc, exp[1])
    elif exp[0] == "ok" and type(ads[0]).__name__ == exp[1]["cls"]:
        r = V.str_eq(ads[0].sequence, exp[1]["seq"])
        ok = r is True or (r is not False and J.claim(ctx, r, "xseq: adapter sequence differs from the documented core sequence", mk) is True)
    if ok:
        J.discharged += 1
        J.nontrivial = 1
    else:
        J.violated += 1
        if J.cex is None and ctx.is_sat([]) == "sat":
            m = ctx.model()
            J.cex = mk(m)
            J.cex["what"] = "X handling: %r as %s gives %s, documented: %s" % (model_str(m, seq), t["atype"], repr(exc) if exc is not None else type(ads[0]).__name__, exp[0] if exp[0] == "error" else exp[1]["cls"])


def run_job(job):
    J = Job(job)
    r = run_paths(J, lambda ctx: path(J, ctx, job["t"]), max_paths=300)
    if r["vacuity"] is None:
        r["vacuity"] = r["obligations"] > 0
    return r


# ------------------------------------------------------------------------------- validation / replay
def validate(seed):
    """The repo's own test specifications (tests/test_parser.py) and random concrete instances of the templates
    through the real parser and the encoding."""
    import random
    import cutadapt.parser as P
    from symx.ctx import Ctx
    r = random.Random("c18|%s" % seed)
    specs = [("back", "ACGT"), ("front", "^ACGT;o=3"), ("back", "ACGT$"), ("front", "XACGT"), ("back", "ACGTX;e=0.2"), ("anywhere", "ACGT"), ("back", "A{3}CG"), ("back", "name=ACG;noindels"),
             ("back", "ACG...TTT"), ("front", "^ACG...TTT$"), ("back", "ACG;required...TTT;optional"), ("front", "ACGT;rightmost"), ("back", "ACGT;anywhere"), ("back", "ACGT;max_errors=2"),
             ("back", "ACNT;max_errors=1"), ("front", "ACGT$"), ("back", "^ACGT"), ("anywhere", "^ACGT"), ("back", "XXX"), ("back", "ACG;foo"), ("back", "ACG;e="), ("back", "...ACG"), ("front", "...ACG"),
             ("back", "ACG..."), ("back", "{3}"), ("back", "ACGT;o=2;o=3")]
    for _ in range(60):
        t = r.choice(single_templates("thorough"))
        seq = "".join(r.choice(SEQ_ALPHABET) for _ in range(t["L"]))
        specs.append((t["atype"], t["name"] + t["pre"] + seq + t["post"] + t["ptext"]))
    mism = []
    n = 0
    for atype, spec in specs:
        gl = dict(GLOBALS["default"])
        def run_real():
            ads = list(P.make_adapters_from_one_specification(spec, atype, dict(gl)))
            a = ads[0]
            if type(a).__name__ == "LinkedAdapter":
                return ("L", type(a.front_adapter).__name__, a.front_adapter.sequence, a.front_required, type(a.back_adapter).__name__, a.back_adapter.sequence, a.back_required, a.name if "=" in spec.split(";")[0] else None)
            return (type(a).__name__, a.sequence, a.name if "=" in spec.split(";")[0] else None, a.max_error_rate, a.min_overlap, a.indels)
        try:
            want = run_real()
        except Exception as e:  # noqa
            want = type(e).__name__
        ctx = Ctx()
        it, A, P2 = setup(ctx)
        try:
            ads = it.call_value(it.getattr(P2, "make_adapters_from_one_specification"), [spec, atype, dict(gl)], {})
            a = ads[0]
            if type(a).__name__ == "LinkedAdapter":
                got = ("L", type(a.front_adapter).__name__, a.front_adapter.sequence, a.front_required, type(a.back_adapter).__name__, a.back_adapter.sequence, a.back_required, a.name if "=" in spec.split(";")[0] else None)
            else:
                got = (type(a).__name__, a.sequence, a.name if "=" in spec.split(";")[0] else None, a.max_error_rate, a.min_overlap, a.indels)
        except Unsupported:
            raise
        except Exception as e:  # noqa
            got = type(e).__name__
        n += 1
        if want != got:
            mism.append("%s %r: real %r encoding %r" % (atype, spec, want, got))
    return {"vectors": n, "mismatches": mism}


def replay(cex):
    """Re-run the concrete specification on the real parser and compare with the structured reference."""
    import cutadapt.parser as P
    import cutadapt.adapters as A
    t = cex["t"]
    fam = t["fam"]
    gl = dict(GLOBALS[t["gl"]])
    spec = cex["spec"].get("spec")
    if fam == "file":
        orig = P.read_adapters_fasta
        P.read_adapters_fasta = lambda path: [("first", cex["spec"]["rec1"]), (None, cex["spec"]["rec2"])]
        spec = t["ftype"] + "adapters.fa" + t["fp"]
    later = None
    try:
        try:
            ads = list(P.make_adapters_from_one_specification(spec, t["atype"], gl))
            exc = None
            if fam == "file" and "later_spec" in cex["spec"]:
                later = list(P.make_adapters_from_one_specification(cex["spec"]["later_spec"], t["atype"], gl))
        except Exception as e:  # noqa
            ads, exc = None, e
    finally:
        if fam == "file":
            P.read_adapters_fasta = orig
    desc = "make_adapters_from_one_specification(%r, %r, %s) -> %s" % (spec, t["atype"], t["gl"], repr(exc) if exc is not None else [
        (type(a).__name__, getattr(a, "sequence", None), a.name, getattr(a, "max_error_rate", None), getattr(a, "min_overlap", None), getattr(a, "indels", None),
         getattr(a, "front_required", None), getattr(a, "back_required", None)) for a in ads])
    # the documented expectation for this template, evaluated concretely
    bad = concrete_violation(t, cex["spec"], ads, exc, later)
    if not bad and gl != GLOBALS[t["gl"]]:
        bad = "the global search parameters were changed by parsing the specification: %r" % (gl,)
    return bool(bad), desc + " ; " + (bad or "consistent with the documented meaning")


def concrete_violation(t, texts, ads, exc, later=None):
    fam = t["fam"]
    L = t.get("L", 0)

    def norm(s):
        return s.upper().replace("U", "T").replace("I", "N")

    def single_bad(ad, info, seqtext, name_expected):
        att = expected_attrs(info["kw"], info["cls"], len(seqtext))
        if type(ad).__name__ != info["cls"]:
            return "class %s, documented %s" % (type(ad).__name__, info["cls"])
        if ad.sequence != norm(seqtext):
            return "sequence %r, documented %r" % (ad.sequence, norm(seqtext))
        if name_expected is not None and ad.name != name_expected:
            return "name %r" % (ad.name,)
        if ad.min_overlap != att["min_overlap"] or ad.indels != att["indels"] or ad.read_wildcards != att["read_wildcards"]:
            return "parameters (min_overlap=%r, indels=%r, read_wildcards=%r), documented %r" % (ad.min_overlap, ad.indels, ad.read_wildcards, att)
        me = att["max_errors"]
        nonn = len(norm(seqtext)) - norm(seqtext).count("N")
        want = me if me < 1 or nonn == 0 else me / nonn
        if ad.max_error_rate != want:
            return "max_error_rate %r, documented %r" % (ad.max_error_rate, want)
        if info["cls"] in ("FrontAdapter", "BackAdapter", "RightmostFrontAdapter") and bool(ad._force_anywhere) != info["force_anywhere"]:
            return "force_anywhere %r" % (ad._force_anywhere,)
        if ad.adapter_wildcards != (att["adapter_wildcards_requested"] and not set(norm(seqtext)) <= set("ACGT")):
            return "adapter_wildcards %r" % (ad.adapter_wildcards,)
        return None

    def err_bad(exp):
        if exc is not None:
            if exp[0] == "error" and isinstance(exc, exp[1]):
                return None
            if exp[0] == "ok" and isinstance(exc, ValueError) and ("only N" in str(exc) and GLOBALS[t["gl"]]["adapter_wildcards"] or "max_error_rate must be between" in str(exc)):
                cand = [v for k, v in texts.items()]
                import re as _r
                if any(set(_r.sub(r"[^A-Za-z]", "", x.split(";")[0].split("=")[-1]).upper().replace("I", "N")) <= {"N", "X"} for x in cand) or True:
                    # tolerated only if some sequence part is all N
                    parts = []
                    for x in cand:
                        for piece in x.split("..."):
                            core = piece.split(";")[0].split("=")[-1].strip("^$").upper().replace("I", "N")
                            parts.append(core)
                    if any(p and set(p.strip("X")) <= {"N"} for p in parts):
                        return None
            return "raises %r, documented outcome %s" % (exc, exp[0] if exp[0] != "error" else exp[1])
        if exp[0] == "error":
            return "accepted, documented error %s" % (exp[1],)
        return False   # no error expected, none raised: continue with the comparison

    if fam == "single":
        spec = texts["spec"]
        seqtext = spec[len(t["name"]) + len(t["pre"]):][:L]
        exp = ref_single(t["atype"], t["pre"], t["post"], t["ptext"], L, t["gl"])
        b = err_bad(exp)
        if b is not False:
            return b
        return single_bad(ads[0], exp[1], seqtext, "nm" if t["name"] else None)
    if fam == "xseq":
        exp = ref_x(texts["spec"], t["atype"])
        b = err_bad(exp)
        if b is not False:
            return b
        ad = ads[0]
        if type(ad).__name__ != exp[1]["cls"] or ad.sequence != exp[1]["seq"]:
            return "got %s %r, documented %s %r" % (type(ad).__name__, ad.sequence, exp[1]["cls"], exp[1]["seq"])
        return None
    if fam == "brace_bad":
        return err_bad(("error", (ValueError,))) or None
    # remaining families: re-run the symbolic path's comparison concretely is not duplicated here; report what the parser did
    if fam == "linked":
        e1 = ref_single("front", t["pre1"], t["post1"], t["p1"], L, t["gl"], linked_part=True)
        e2 = ref_single("back", t["pre2"], t["post2"], t["p2"], L, t["gl"], linked_part=True)
        exp = ("error", (ValueError,)) if t["atype"] == "anywhere" else (e1 if e1[0] == "error" else (e2 if e2[0] == "error" else ("ok", None)))
        b = err_bad(exp)
        if b is not False:
            return b
        la = ads[0]
        i1, i2 = e1[1], e2[1]
        fr = i1["params"].get("required", True if t["atype"] == "front" else i1["restriction"] is not None)
        br = i2["params"].get("required", True if t["atype"] == "front" else i2["restriction"] is not None)
        if type(la).__name__ != "LinkedAdapter" or la.front_required != fr or la.back_required != br or type(la.front_adapter).__name__ != i1["cls"] or type(la.back_adapter).__name__ != i2["cls"]:
            return "linked: got %s/%s required %r/%r, documented %s/%s required %r/%r" % (type(la.front_adapter).__name__, type(la.back_adapter).__name__, la.front_required, la.back_required, i1["cls"], i2["cls"], fr, br)
        return None
    if fam in ("ellipsis", "brace", "file"):
        if fam == "ellipsis":
            seqtext = texts["spec"].replace("...", "")
            if t["atype"] == "anywhere" or (t["atype"] == "front" and t["form"] == "...seq"):
                exp = ("error", (ValueError,))
            else:
                exp = ref_single("front" if t["form"] == "seq..." else "back", "", "", "", L, t["gl"])
            b = err_bad(exp)
            if b is not False:
                return b
            return single_bad(ads[0], exp[1], seqtext, None)
        if fam == "brace":
            base = texts["spec"].split("{")[0]
            seqtext = base[:-1] + base[-1] * t["n"]
            if not seqtext:
                return err_bad(("error", (ValueError,))) or None
            exp = ref_single(t["atype"], "", "", "", len(seqtext), t["gl"])
            b = err_bad(exp)
            if b is not False:
                return b
            return single_bad(ads[0], exp[1], seqtext, None)
        if fam == "file":
            pre = "^" if t["ftype"] == "^file:" else ""
            post = "$" if t["ftype"] == "file$:" else ""
            exp = ref_single(t["atype"], pre, post, "", L, t["gl"])
            b = err_bad(exp)
            if b is not False:
                return b
            info = dict(exp[1])
            kw = dict(GLOBALS[t["gl"]])
            kw.update(ref_params(t["fp"]) if t["fp"] else {})
            info["kw"] = kw
            if len(ads) != 2:
                return "expected two adapters from two records"
            for ad, key, nm in zip(ads, ("rec1", "rec2"), ("first", None)):
                bb = single_bad(ad, info, texts[key], nm)
                if bb:
                    return bb
            if later is not None and "later_spec" in texts:
                exp3 = ref_single(t["atype"], "", "", "", L, t["gl"])
                bb = single_bad(later[0], exp3[1], texts["later_spec"], None)
                if bb:
                    return "specification given after the file: one: " + bb
            return None
    return None
