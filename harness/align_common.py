"""Shared by C01 / C02 / C07: building adapters from the real constructors under symx, the
harness-owned reference semantics (character matching per wildcard mode, edit / Hamming distance,
placement rules) and concrete re-implementations of the same reference for replay."""
import itertools
import math

import z3

from harness.common import (V, new_interp, sym_str, sym_int, model_int, model_str, zint, program, SInt, SStr)

# adapter classes: name -> (class, placement)
CLASSES = {
    "back": "BackAdapter",
    "front": "FrontAdapter",
    "rightmost_front": "RightmostFrontAdapter",
    "nonint_back": "NonInternalBackAdapter",
    "nonint_front": "NonInternalFrontAdapter",
    "prefix": "PrefixAdapter",
    "suffix": "SuffixAdapter",
    "anywhere": "AnywhereAdapter",
    # regular 5'/3' adapters with the 'anywhere' search parameter (used for linked adapters): anywhere placement
    "front_fa": "FrontAdapter",
    "back_fa": "BackAdapter",
    "rightmost_fa": "RightmostFrontAdapter",
}
BASIC_KINDS = ["back", "front", "rightmost_front", "nonint_back", "nonint_front", "prefix", "suffix", "anywhere"]
FIVE_PRIME = {"front", "rightmost_front", "nonint_front", "prefix"}

IUPAC_ALPHABET = "ABCDGHIKMNRSTUVWXY"    # what the constructor accepts with adapter wildcards on
ACGT = "ACGT"

# IUPAC codes, from the user guide (harness-owned; NOT read from _match_tables.py)
IUPAC = {"A": "A", "C": "C", "G": "G", "T": "T", "U": "T", "R": "AG", "Y": "CT", "S": "GC", "W": "AT", "K": "GT", "M": "AC",
         "B": "CGT", "D": "AGT", "H": "ACT", "V": "ACG", "N": "ACGT", "X": ""}


# --------------------------------------------------------------------------- rates
def rate_representatives(M):
    """One double per step of r -> (trunc(fl(r*L)))_{1<=L<=M} on [0,1): 0 and, for every 1<=e<L<=M, the
    smallest double r with fl(r*L) >= e.  Verified by evaluation."""
    reps = {0.0}
    for L in range(1, M + 1):
        for e in range(1, L):
            r = e / L
            while r * L >= e:
                r = math.nextafter(r, 0.0)
            r = math.nextafter(r, 1.0)
            while r * L < e:
                r = math.nextafter(r, 1.0)
            assert r * L >= e and math.nextafter(r, 0.0) * L < e and 0 < r < 1
            reps.add(r)
    reps = sorted(reps)
    sig = [tuple(int(r * L) for L in range(1, M + 1)) for r in reps]
    assert all(a != b for a, b in zip(sig, sig[1:])), "representatives not distinct"
    return reps


# --------------------------------------------------------------------------- concrete reference
def norm_adapter(seq):
    return seq.upper().replace("U", "T").replace("I", "N")


def eff_adapter_wildcards(seq_norm, adapter_wildcards):
    return adapter_wildcards and not set(seq_norm) <= set("ACGT")


def _view(c, iupac):
    """-> (set of bases, other flag)"""
    u = c.upper()
    if iupac:
        if u == "N":
            return set("ACGT"), True
        if u in IUPAC:
            return set(IUPAC[u]), False
        return set(), False
    if u in "ACGT":
        return {u}, False
    if u == "U":
        return {"T"}, False
    return set(), True


def chars_match(a, r, aw_eff, rw):
    """Reference: does adapter character a (normalised) match read character r?"""
    if not aw_eff and not rw:
        return r.upper() == a if r.isascii() else False
    sa, oa = _view(a, aw_eff)
    sr, orr = _view(r, rw)
    return bool(sa & sr) or (oa and orr)


def edit_distance(a, r, aw_eff, rw, indels=True):
    if not indels:
        if len(a) != len(r):
            return None
        return sum(0 if chars_match(x, y, aw_eff, rw) else 1 for x, y in zip(a, r))
    prev = list(range(len(r) + 1))
    for i in range(1, len(a) + 1):
        cur = [i] + [0] * len(r)
        for j in range(1, len(r) + 1):
            cur[j] = min(prev[j - 1] + (0 if chars_match(a[i - 1], r[j - 1], aw_eff, rw) else 1), prev[j] + 1, cur[j - 1] + 1)
        prev = cur
    return prev[len(r)]


def placement_ok(kind, m, n, astart, astop, rstart, rstop):
    if not (0 <= astart <= astop <= m and 0 <= rstart <= rstop <= n):
        return False
    if kind == "back":
        return astart == 0 and (astop == m or rstop == n)
    if kind in ("front", "rightmost_front"):
        return astop == m and (astart == 0 or rstart == 0)
    if kind == "nonint_back":
        return astart == 0 and rstop == n
    if kind == "nonint_front":
        return astop == m and rstart == 0
    if kind == "prefix":
        return astart == 0 and astop == m and rstart == 0
    if kind == "suffix":
        return astart == 0 and astop == m and rstop == n
    if kind in ("anywhere", "front_fa", "back_fa", "rightmost_fa"):
        return (astart == 0 or rstart == 0) and (astop == m or rstop == n)
    raise ValueError(kind)


def tolerance(seq_norm, astart, astop, rate, aw_eff):
    part = seq_norm[astart:astop]
    k = len(part) - (part.count("N") if aw_eff else 0)
    return math.floor(k * rate)


def check_match_concrete(kind, cfg, adapter, read, match):
    """Reference check of one reported match (used for replay): list of violated clauses."""
    seq = norm_adapter(adapter)
    m, n = len(seq), len(read)
    aw = eff_adapter_wildcards(seq, cfg["adapter_wildcards"])
    rw = cfg["read_wildcards"]
    astart, astop, rstart, rstop, score, errors = match
    bad = []
    if not placement_ok(kind, m, n, astart, astop, rstart, rstop):
        bad.append("placement/coordinates")
        return bad
    if astop - astart < min(cfg["min_overlap"], m):
        bad.append("minimum overlap")
    d = edit_distance(seq[astart:astop], read[rstart:rstop], aw, rw, cfg["indels"])
    if d is None or d != errors:
        bad.append("errors=%d but distance=%s" % (errors, d))
    if errors > tolerance(seq, astart, astop, cfg["rate"], aw):
        bad.append("errors=%d exceed tolerance %d" % (errors, tolerance(seq, astart, astop, cfg["rate"], aw)))
    return bad


def real_adapter(kind, cfg, adapter):
    import cutadapt.adapters as A
    cls = getattr(A, CLASSES[kind])
    kw = dict(max_errors=cfg["rate"], read_wildcards=cfg["read_wildcards"], adapter_wildcards=cfg["adapter_wildcards"], indels=cfg["indels"])
    # the command line passes min_overlap (-O) to every adapter class, anchored ones included (they must ignore it)
    kw["min_overlap"] = cfg.get("min_overlap_given", cfg["min_overlap"])
    if kind.endswith("_fa"):
        kw["force_anywhere"] = True
    return cls(adapter, **kw)


def real_match(kind, cfg, adapter, read, prefilter=True):
    import cutadapt.adapters as A
    ad = real_adapter(kind, cfg, adapter)
    if not prefilter:
        ad.kmer_finder = A.MockKmerFinder()
    mt = ad.match_to(read)
    if mt is None:
        return None
    return (mt.astart, mt.astop, mt.rstart, mt.rstop, mt.score, mt.errors)


# --------------------------------------------------------------------------- symbolic reference
def z_upper(c):
    return z3.If(z3.And(c >= 97, c <= 122), c - 32, c)


def _ords(s):
    return [ord(x) for x in s]


def z_has(c_upper, base, iupac):
    """z3 Bool: (upper-cased) character c has nucleotide `base` in the given view."""
    if iupac:
        codes = [k for k, v in IUPAC.items() if base in v]
        return V.in_ranges(c_upper, _ords(codes))
    codes = [base] + (["U"] if base == "T" else [])
    return V.in_ranges(c_upper, _ords(codes))


def z_other(c_upper, iupac):
    if iupac:
        return c_upper == ord("N")
    return z3.Not(V.in_ranges(c_upper, _ords("ACGTU")))


class Ref:
    """Symbolic reference semantics for one (adapter, read) pair."""

    def __init__(self, adapter_chars, read_chars, adapter_wildcards, read_wildcards, indels, tag=""):
        self.tag = tag
        # documented normalisation of the adapter: upper case, U->T, I->N (adapter is given upper-case)
        self.a = []
        for c in adapter_chars:
            e = zint(c)
            e = z_upper(e) if not (isinstance(c, SInt) and c.dom is not None and all(not (97 <= v <= 122) for v in c.dom)) and not isinstance(c, int) else e
            e = z3.If(e == ord("U"), V.ival(ord("T")), z3.If(e == ord("I"), V.ival(ord("N")), e))
            self.a.append(z3.simplify(e) if isinstance(c, int) else e)
        self.r = [zint(c) for c in read_chars]
        self.ru = [z_upper(c) for c in self.r]
        self.m, self.n = len(self.a), len(self.r)
        self.rw = read_wildcards
        self.indels = indels
        all_acgt = z3.And(*[V.in_ranges(c, _ords("ACGT")) for c in self.a]) if self.a else z3.BoolVal(True)
        self.aw_eff = z3.And(z3.BoolVal(bool(adapter_wildcards)), z3.Not(all_acgt))
        self.aw_eff = z3.simplify(self.aw_eff)
        self._match = {}
        self._tables = {}

    def match(self, i, j):
        """adapter[i] matches read[j]"""
        k = (i, j)
        if k in self._match:
            return self._match[k]
        a, ru = self.a[i], self.ru[j]
        plain = ru == a
        def views(aw):
            parts = [z3.And(z_has(a, b, aw), z_has(ru, b, self.rw)) for b in "ACGT"]
            parts.append(z3.And(z_other(a, aw), z_other(ru, self.rw)))
            return z3.Or(*parts)
        if self.rw:
            e = z3.If(self.aw_eff, views(True), views(False))
        else:
            e = z3.If(self.aw_eff, views(True), plain)
        e = z3.simplify(e)
        # name the atom so that the DP tables stay small
        b = z3.Bool("refmatch%s_%d_%d" % (self.tag, i, j))
        self._match[k] = b
        self.defs = getattr(self, "defs", [])
        self.defs.append(b == e)
        return b

    def table(self, a0, r0):
        """D[i][j] = distance(adapter[a0:a0+i], read[r0:r0+j]) as z3 Int terms (None = undefined without indels)."""
        k = (a0, r0)
        if k in self._tables:
            return self._tables[k]
        ma, nr = self.m - a0, self.n - r0
        D = [[None] * (nr + 1) for _ in range(ma + 1)]
        self.defs = getattr(self, "defs", [])
        if self.indels:
            for j in range(nr + 1):
                D[0][j] = V.ival(j)
            for i in range(1, ma + 1):
                D[i][0] = V.ival(i)
                for j in range(1, nr + 1):
                    sub = D[i - 1][j - 1] + z3.If(self.match(a0 + i - 1, r0 + j - 1), V.ival(0), V.ival(1))
                    dele = D[i - 1][j] + 1
                    ins = D[i][j - 1] + 1
                    mn = z3.If(sub <= dele, z3.If(sub <= ins, sub, ins), z3.If(dele <= ins, dele, ins))
                    v = V.ivar("refD%s_%d_%d_%d_%d" % (self.tag, a0, r0, i, j))
                    self.defs.append(v == mn)
                    D[i][j] = v
        else:
            D[0][0] = V.ival(0)
            for i in range(1, min(ma, nr) + 1):
                v = V.ivar("refH%s_%d_%d_%d" % (self.tag, a0, r0, i))
                self.defs.append(v == D[i - 1][i - 1] + z3.If(self.match(a0 + i - 1, r0 + i - 1), V.ival(0), V.ival(1)))
                D[i][i] = v
        self._tables[k] = D
        return D

    def non_n(self, a0, a1):
        """number of non-N characters in adapter[a0:a1] (z3 Int)"""
        if a1 <= a0:
            return V.ival(0)
        return V.isum([z3.If(self.a[i] == ord("N"), V.ival(0), V.ival(1)) for i in range(a0, a1)])

    def tolerance_ok(self, a0, a1, errors, rate):
        """errors <= floor(fl(rate * k)), k = aligned adapter bases that are not N wildcards (IEEE double product, exact)."""
        L = a1 - a0
        plain = errors <= math.floor(L * rate)
        if L == 0:
            return plain
        k = self.non_n(a0, a1)
        wild = z3.Or(*[z3.And(k == kk, errors <= math.floor(kk * rate)) for kk in range(0, L + 1)])
        return z3.If(self.aw_eff, wild, plain)

    def admissible_intervals(self, kind):
        """All (astart, astop, rstart, rstop) admitted by the placement rule of the class."""
        m, n = self.m, self.n
        out = []
        for a0 in range(m + 1):
            for a1 in range(a0, m + 1):
                for r0 in range(n + 1):
                    for r1 in range(r0, n + 1):
                        if placement_ok(kind, m, n, a0, a1, r0, r1):
                            out.append((a0, a1, r0, r1))
        return out

    def dist(self, a0, a1, r0, r1):
        D = self.table(a0, r0)
        return D[a1 - a0][r1 - r0]


# --------------------------------------------------------------------------- building adapters under symx
def build_adapter(it, kind, adapter, cfg, mock_prefilter):
    import cutadapt.adapters as A
    if mock_prefilter:
        it.overrides["SingleAdapter._make_kmer_finder"] = lambda it_, *a, **k: A.MockKmerFinder()
    cls = it.getattr(A, CLASSES[kind])
    kw = dict(max_errors=cfg["rate"], read_wildcards=cfg["read_wildcards"], adapter_wildcards=cfg["adapter_wildcards"], indels=cfg["indels"])
    kw["min_overlap"] = cfg.get("min_overlap_given", cfg["min_overlap"])
    if kind.endswith("_fa"):
        kw["force_anywhere"] = True
    return it.call_value(cls, [adapter], kw)


def match_tuple(mt):
    return (mt.astart, mt.astop, mt.rstart, mt.rstop, mt.score, mt.errors)


def cfg_name(cfg):
    return "e=%.17g,aw=%d,rw=%d,indels=%d" % (cfg["rate"], cfg["adapter_wildcards"], cfg["read_wildcards"], cfg["indels"])
