"""Shared by the C05 (paired synchronisation / pair filtering) and C15 (demultiplexing) CrossHair harnesses.

What is REAL: cutadapt.cli.get_argument_parser / determine_paired / check_arguments / adapters_from_args (run natively, once
per option set, outside CrossHair), cutadapt.cli.make_pipeline_from_args and every step object it builds (PairedEndFilter,
SingleEndFilter, PairedSingleEndStep, PairedEndSink, SingleEndSink, Demultiplexer, PairedDemultiplexer,
CombinatorialDemultiplexer, the predicates), cutadapt.modifiers.ModificationInfo.

What is a STAND-IN: the `outfiles` object (RecOutfiles: same calls as cutadapt.files.OutputFiles as far as the builder and
the steps use it; its writers record the tuples they are given), the records (PRec, a harness.e2_common.Rec that also carries
a pair id and a mate number), the matches in info.matches (DummyMatch: only `.adapter` - a real adapter object of the option
set - is looked at by the steps), and cutadapt.predicates.expected_errors (compiled; returns the value attached to the
qualities object, any non-negative real being allowed by the C14 contract).

An "option set" is a dict {"argv": [...], "spec": {...}} made by option_set(): argv goes to the real parser, spec is the
documented meaning of the same options written down independently (doc/guide.rst, sections "Filtering reads",
"Filtering paired-end reads", "Demultiplexing", "combinatorial demultiplexing") and is what the references below evaluate.
"""
from harness.e2_common import Rec

import cutadapt.cli as _cli
import cutadapt.predicates as _predicates
from cutadapt.files import FileFormat
from cutadapt.modifiers import ModificationInfo

# ------------------------------------------------------------------------------------------------ stand-ins


class PRec(Rec):
    """Record stand-in that knows which input pair it came from (pair) and which mate it is (1 or 2)."""

    def __init__(self, name, sequence, qualities=None, pair=0, mate=1):
        super().__init__(name, sequence, qualities)
        self.pair = pair
        self.mate = mate

    def __getitem__(self, key):
        r = super().__getitem__(key)
        return PRec(r.name, r.sequence, r.qualities, self.pair, self.mate)

    def __repr__(self):
        return "PRec(%r, %r, pair=%r, mate=%r)" % (self.name, self.sequence, self.pair, self.mate)


class Quals(str):
    """Quality string that carries the number of expected errors the (stubbed) kernel reports for it."""
    ee = 0.0


def _expected_errors_stub(qualities):
    return qualities.ee


_predicates.expected_errors = _expected_errors_stub


class DummyMatch:
    """A match as far as the steps look at it: the adapter it belongs to.  rest()/wildcards() serve the
    --rest-file / --wildcard-file writers that C05 wraps in PairedSingleEndStep (their content is C17's business)."""

    def __init__(self, adapter):
        self.adapter = adapter

    def rest(self):
        return "REST"

    def wildcards(self):
        return "WILD"


class RecordingWriter:
    def __init__(self, paths, interleaved):
        self.paths = tuple(paths)
        self.interleaved = interleaved
        self.calls = []

    def write(self, *records):
        self.calls.append(tuple(records))


class RecordingText:
    def __init__(self, path):
        self.path = path
        self.chunks = []

    def write(self, s):
        self.chunks.append(s)


class RecOutfiles:
    """cutadapt.files.OutputFiles as far as make_pipeline_from_args and the steps use it."""

    def __init__(self):
        self.writers = []
        self.texts = []

    def open_text(self, path):
        t = RecordingText(path)
        self.texts.append(t)
        return t

    def open_record_writer(self, *paths, interleaved=False, force_fasta=False):
        # the argument checks of the real method
        if len(paths) not in (1, 2):
            raise ValueError("Expected one or two paths")
        if interleaved and len(paths) != 1:
            raise ValueError("Cannot write to two files when interleaved is True")
        if paths == (None,):
            paths = ("-",)
        for path in paths:
            assert path is not None
        w = RecordingWriter(paths, interleaved)
        self.writers.append(w)
        return w

    def open_stdout_record_writer(self, interleaved=False, force_fasta=False):
        w = RecordingWriter(("-",), interleaved)
        self.writers.append(w)
        return w


# ------------------------------------------------------------------------------------------------ option sets

_ADAPTER_SEQS = ("ACGTACGT", "TTGGCCAA", "GATTACAG")
_ADAPTER_OPTS1 = ("-a", "-g", "-b")
_ADAPTER_OPTS2 = ("-A", "-G", "-B")


def ref_parse_lengths(s):
    """LEN[:LEN2] as documented for -m/-M in paired-end mode: 'LEN' applies to both reads, 'LEN:LEN2' gives one bound per
    read, and an omitted value imposes no restriction on that read.  -> (bound for R1 or None, bound for R2 or None)"""
    if ":" not in s:
        return (int(s), int(s))
    a, b = s.split(":")
    return (int(a) if a else None, int(b) if b else None)


def option_set(paired=True, mode=None, m=None, M=None, short_out=False, long_out=False, max_n=None, max_ee=None, max_aer=None,
               casava=False, r1=(), r2=(), pair_adapters=False, untrimmed=None, interleaved=False, demux=None, text_files=False,
               interleaved_input=False):
    """Build the command line and, independently, its documented meaning.

    mode: value of --pair-filter or None (option absent).  m/M: the -m/-M strings.  short_out/long_out: redirect files.
    r1/r2: names of the adapters given for R1/R2.  untrimmed: None | 'discard' (--discard-untrimmed) | 'output'
    (--untrimmed-output [+ --untrimmed-paired-output]) | 'discard_trimmed'.  interleaved: one interleaved output file instead
    of -o/-p.  demux: None | 'name' | 'combi'.  text_files: also give --rest-file and --wildcard-file."""
    argv = []
    spec = {"paired": paired, "mode": mode or "any", "min": None, "max": None, "short_paths": None, "long_paths": None,
            "max_n": max_n, "max_ee": max_ee, "max_aer": max_aer, "casava": casava, "names1": list(r1), "names2": list(r2),
            "untrimmed": untrimmed, "untrimmed_paths": None, "demux": demux, "interleaved": interleaved, "text_files": text_files}
    two = paired and not interleaved     # two output files per destination

    def paths(stem):
        return (stem + ".1.fq", stem + ".2.fq") if two else (stem + ".fq",)

    if mode is not None:
        argv += ["--pair-filter", mode]
    if interleaved or interleaved_input:
        argv += ["--interleaved"]
    for i, name in enumerate(r1):
        argv += [_ADAPTER_OPTS1[i % 3], "%s=%s" % (name, _ADAPTER_SEQS[i % 3])]
    for i, name in enumerate(r2):
        argv += [_ADAPTER_OPTS2[i % 3], "%s=%s" % (name, _ADAPTER_SEQS[(i + 1) % 3])]
    if pair_adapters:
        argv += ["--pair-adapters"]
    if m is not None:
        argv += ["-m", m]
        spec["min"] = ref_parse_lengths(m) if paired else (int(m), None)
        if short_out:
            spec["short_paths"] = paths("short")
            argv += ["--too-short-output", spec["short_paths"][0]]
            if two:
                argv += ["--too-short-paired-output", spec["short_paths"][1]]
    if M is not None:
        argv += ["-M", M]
        spec["max"] = ref_parse_lengths(M) if paired else (int(M), None)
        if long_out:
            spec["long_paths"] = paths("long")
            argv += ["--too-long-output", spec["long_paths"][0]]
            if two:
                argv += ["--too-long-paired-output", spec["long_paths"][1]]
    if max_n is not None:
        argv += ["--max-n", str(max_n)]
    if max_ee is not None:
        argv += ["--max-ee", str(max_ee)]
    if max_aer is not None:
        argv += ["--max-aer", str(max_aer)]
    if casava:
        argv += ["--discard-casava"]
    if untrimmed == "discard":
        argv += ["--discard-untrimmed"]
    elif untrimmed == "discard_trimmed":
        argv += ["--discard-trimmed"]
    elif untrimmed == "output":
        spec["untrimmed_paths"] = paths("untrimmed")
        argv += ["--untrimmed-output", spec["untrimmed_paths"][0]]
        if two:
            argv += ["--untrimmed-paired-output", spec["untrimmed_paths"][1]]
    if text_files:
        argv += ["--rest-file", "rest.txt", "--wildcard-file", "wild.txt"]
    if demux == "name":
        spec["templates"] = paths("out.{name}")
    elif demux == "combi":
        spec["templates"] = paths("out.{name1}-{name2}")
    else:
        spec["templates"] = paths("out")
    argv += ["-o", spec["templates"][0]]
    if two:
        argv += ["-p", spec["templates"][1]]
    # two input files unless the input is interleaved; all four input/output layout combinations are documented
    argv += ["in.1.fq", "in.2.fq"] if paired and not interleaved_input else ["in.fq"]
    return {"argv": argv, "spec": spec}


# ------------------------------------------------------------------------------------------------ native configuration

_CONFIGS = {}


class Config:
    def __init__(self, argv):
        self.argv = list(argv)
        self.args = _cli.get_argument_parser().parse_args(self.argv)
        self.paired = _cli.determine_paired(self.args)
        _cli.make_input_paths(self.args.inputs, self.paired, self.args.interleaved and len(self.args.inputs) == 1)
        _cli.check_arguments(self.args, self.paired)
        self.adapters, self.adapters2 = _cli.adapters_from_args(self.args)


def config(argv):
    """Parse an option set with the real parser (natively; call this from set_param, never with symbolic values)."""
    key = tuple(argv)
    if key not in _CONFIGS:
        _CONFIGS[key] = Config(argv)
    return _CONFIGS[key]


def build_pipeline(cfg):
    """The real builder against a recording outfiles stub -> (pipeline, outfiles)."""
    out = RecOutfiles()
    pipeline = _cli.make_pipeline_from_args(cfg.args, FileFormat.FASTQ, out, cfg.paired, cfg.adapters, cfg.adapters2)
    return pipeline, out


def push_pair(steps, read1, read2, info1, info2):
    """The step loop of PairedEndPipeline.process_reads for one pair."""
    reads = (read1, read2)
    for step in steps:
        reads = step(*reads, info1, info2)
        if reads is None:
            break
    return reads


def push_single(steps, read, info):
    """The step loop of SingleEndPipeline.process_reads for one read."""
    for step in steps:
        read = step(read, info)
        if read is None:
            break
    return read


def pick(items, i):
    """items[i] for a symbolic index i by explicit case distinction, so that the result is the concrete item on every path
    (plain indexing would give CrossHair a symbolic if-then-else value, e.g. a symbolic float)."""
    for j in range(len(items)):
        if i == j:
            return items[j]
    raise IndexError(i)


def pick_clamped(items, i):
    """items[min(i, len(items) - 1)] for a symbolic i >= 0, by explicit case distinction (see pick)."""
    for j in range(len(items) - 1):
        if i == j:
            return items[j]
    return items[len(items) - 1]


def info_with_matches(read, adapters):
    """ModificationInfo whose matches are dummy matches of the given adapters, in that order."""
    info = ModificationInfo(read)
    for a in adapters:
        info.matches.append(DummyMatch(a))
    return info


# ------------------------------------------------------------------------------------------------ references


def combine(mode, crit1, crit2):
    """--pair-filter: any = at least one of the reads, both = both reads, first = the first read only.
    crit1/crit2 are zero-argument callables so that nothing is evaluated that the rule does not look at."""
    if mode == "any":
        return crit1() or crit2()
    if mode == "both":
        return crit1() and crit2()
    if mode == "first":
        return crit1()
    raise ValueError(mode)


def _bound_hit(bounds, mode, paired, test, f1, f2):
    b1, b2 = bounds
    if not paired:
        return test(f1, b1)
    if b1 is not None and b2 is not None:
        return combine(mode, lambda: test(f1, b1), lambda: test(f2, b2))
    if b1 is not None:                 # LEN:  -> R2 is not looked at
        return test(f1, b1)
    return test(f2, b2)                # :LEN2 -> R1 is not looked at


def ref_filters(spec, f1, f2):
    """Destination of a read / pair according to the documented filters, before the trimmed/untrimmed options and the
    final output.  f1/f2: objects with .length() .ncount() .ee() .casava() (f2 is None for single-end data).
    -> None (passes) | ('discard', None) | ('write', paths)"""
    mode = spec["mode"]
    paired = spec["paired"]

    def both(test):
        if not paired:
            return test(f1)
        return combine(mode, lambda: test(f1), lambda: test(f2))

    if spec["min"] is not None and _bound_hit(spec["min"], mode, paired, lambda f, b: f.length() < b, f1, f2):
        return ("write", spec["short_paths"]) if spec["short_paths"] else ("discard", None)
    if spec["max"] is not None and _bound_hit(spec["max"], mode, paired, lambda f, b: f.length() > b, f1, f2):
        return ("write", spec["long_paths"]) if spec["long_paths"] else ("discard", None)
    if spec["max_n"] is not None and both(lambda f: f.ncount() > spec["max_n"]):
        return ("discard", None)
    if spec["max_ee"] is not None and both(lambda f: f.ee() > spec["max_ee"]):
        return ("discard", None)
    if spec["max_aer"] is not None and both(lambda f: f.ee() / f.length() > spec["max_aer"]):
        return ("discard", None)
    if spec["casava"] and both(lambda f: f.casava()):
        return ("discard", None)
    return None


def ref_untrimmed_mode(spec):
    """'both' is forced for --discard-untrimmed / --untrimmed-(paired-)output when adapters are given for one side only."""
    if bool(spec["names1"]) != bool(spec["names2"]):
        return "both"
    return spec["mode"]


def ref_demux_paths(spec):
    """Every file (pair) that demultiplexing must create, as a list of path tuples."""
    t = spec["templates"]
    out = []
    if spec["demux"] == "name":
        for name in spec["names1"]:
            out.append(tuple(p.replace("{name}", name) for p in t))
        if spec["untrimmed"] == "output":
            out.append(spec["untrimmed_paths"])
        elif spec["untrimmed"] != "discard":
            out.append(tuple(p.replace("{name}", "unknown") for p in t))
    elif spec["demux"] == "combi":
        firsts = list(spec["names1"])
        seconds = list(spec["names2"])
        if spec["untrimmed"] != "discard":
            firsts = firsts + ["unknown"]
            seconds = seconds + ["unknown"]
        for a in firsts:
            for b in seconds:
                out.append(tuple(p.replace("{name1}", a).replace("{name2}", b) for p in t))
    return out


def ref_demux_destination(spec, last1, last2):
    """last1/last2: name of the adapter of the last match on R1/R2 or None.  -> ('write', paths) | ('discard', None)"""
    t = spec["templates"]
    if spec["demux"] == "name":
        if last1 is not None:
            return ("write", tuple(p.replace("{name}", last1) for p in t))
        if spec["untrimmed"] == "discard":
            return ("discard", None)
        if spec["untrimmed"] == "output":
            return ("write", spec["untrimmed_paths"])
        return ("write", tuple(p.replace("{name}", "unknown") for p in t))
    if spec["demux"] == "combi":
        if spec["untrimmed"] == "discard" and (last1 is None or last2 is None):
            return ("discard", None)
        a = last1 if last1 is not None else "unknown"
        b = last2 if last2 is not None else "unknown"
        return ("write", tuple(p.replace("{name1}", a).replace("{name2}", b) for p in t))
    raise ValueError(spec["demux"])


def ref_final(spec, matched1, matched2, last1, last2):
    """Destination of a read / pair that passed the filters of ref_filters.  matched1/matched2: zero-argument callables;
    last1/last2: zero-argument callables giving the adapter name of the last match (or None)."""
    if spec["demux"]:
        return ref_demux_destination(spec, last1(), last2() if spec["demux"] == "combi" else None)
    u = spec["untrimmed"]
    paired = spec["paired"]
    if u == "discard_trimmed":
        hit = combine(spec["mode"], matched1, matched2) if paired else matched1()
        if hit:
            return ("discard", None)
    elif u in ("discard", "output"):
        hit = combine(ref_untrimmed_mode(spec), lambda: not matched1(), lambda: not matched2()) if paired else not matched1()
        if hit:
            return ("write", spec["untrimmed_paths"]) if u == "output" else ("discard", None)
    return ("write", spec["templates"])


def ref_opened(spec):
    """All record files (as path tuples) the command must create."""
    out = []
    if spec["short_paths"]:
        out.append(spec["short_paths"])
    if spec["long_paths"]:
        out.append(spec["long_paths"])
    if spec["demux"]:
        out += ref_demux_paths(spec)
    else:
        if spec["untrimmed"] == "output":
            out.append(spec["untrimmed_paths"])
        out.append(spec["templates"])
    return out


# ------------------------------------------------------------------------------------------------ observation


def writes_ok(out, expected, records):
    """expected: ('write', paths) | ('discard', None).  True iff the writers opened by the builder received exactly the
    expected thing: one call with exactly `records` (same objects, same order) on the writer opened for `paths` and nothing
    anywhere else - or nothing at all."""
    kind, paths = expected
    hits = 0
    for w in out.writers:
        if kind == "write" and w.paths == tuple(paths):
            if len(w.calls) != 1:
                return False
            got = w.calls[0]
            if len(got) != len(records):
                return False
            for g, r in zip(got, records):
                if g is not r:
                    return False
            hits += 1
        elif w.calls:
            return False
    return hits == (1 if kind == "write" else 0)


def layout_ok(out, spec):
    """The set of opened record files is the documented one, no file is opened twice, and each writer can take what it will
    be given: two files, or one interleaved file, for pairs; one plain file for single reads."""
    opened = sorted(w.paths for w in out.writers)
    if opened != sorted(tuple(p) for p in ref_opened(spec)):
        return False
    flat = [p for w in out.writers for p in w.paths]
    if len(flat) != len(set(flat)):
        return False
    for w in out.writers:
        if spec["paired"]:
            if not ((len(w.paths) == 2 and not w.interleaved) or (len(w.paths) == 1 and w.interleaved)):
                return False
        elif len(w.paths) != 1 or w.interleaved:
            return False
    return True


def pair_sync_ok(out, pid):
    """Every call of every writer got exactly (mate 1, mate 2) of the pair with id pid."""
    for w in out.writers:
        for call in w.calls:
            if len(call) != 2:
                return False
            a, b = call
            if a.mate != 1 or b.mate != 2 or a.pair != pid or b.pair != pid:
                return False
    return True
