"""C04 - each read is written once or counted as filtered once; the reported totals add up.

E2 (CrossHair on the real classes).  One inductive step over the REAL steps: for every option set of the catalogue
the pipeline is built by cutadapt.cli.make_pipeline_from_args (natively parsed arguments, recording output files); the
counters of all steps are put into an ARBITRARY (symbolic) pre-state - every filter counter and every cell of the
written-length histograms an unconstrained non-negative int; one read (pair) with symbolic filter-relevant features is
pushed through the REAL process_reads loop; then report.Statistics.collect() of the real steps is compared with what
the recording writers received.  Because the code only ever adds to a counter, the step extends to histories of any
length (that is what the symbolic pre-state checks).

The check functions return "ok" or a sentence saying what is wrong (so that a counterexample explains itself).
"""
import re

from harness.e2_common import Rec, StubAdapter, e2_jobs, e2_run_job, e2_replay
from harness import pipeline_common as pc
from harness.pipeline_common import Spec

import cutadapt.modifiers as _modifiers
from cutadapt.modifiers import (QualityTrimmer, NextseqQualityTrimmer, PolyATrimmer, AdapterCutter, ReverseComplementer,
                                PairedReverseComplementer, PairedAdapterCutter)
from cutadapt.report import Statistics, FILTERS, full_report, minimal_report
from cutadapt.steps import HasStatistics, HasFilterStatistics, SingleEndSink, PairedEndSink
from cutadapt.pipeline import SingleEndPipeline, PairedEndPipeline

PROPERTY = "C04"
ENGINE = "crosshair"

_PARAM = {}
OK = "ok"


def set_param(p):
    _PARAM.clear()
    _PARAM.update(p or {})


def _spec():
    """The option set of the current condition: by position in the catalogue, or - for recorded witnesses that must
    survive a re-ordering of the catalogue - by its label ('se:<options>' / 'pe:<options>')."""
    if "label" in _PARAM:
        return _BY_LABEL[_PARAM["label"]]
    return OPTION_SETS[_PARAM.get("set", 0)]


def _hi(k):
    """Largest row number of feature table k ('t' text, 'c' header, 'e' expected errors) for the current option set."""
    return len(pc.tables_for(_spec())[k]) - 1


MAXLEN = 3      # read lengths 0..MAXLEN (pipeline_common.TEXTS)


# ---------------------------------------------------------------------------------- pre-state
class Pre:
    """Installs an arbitrary pre-state into the real steps and remembers it."""

    def __init__(self, built, ks, hs, gs):
        self.filters = [s for s in built.steps if isinstance(s, HasFilterStatistics)]
        assert len(self.filters) <= len(ks), "more filter steps than pre-state arguments"
        self.k = list(ks[:len(self.filters)])
        for step, k in zip(self.filters, self.k):
            assert step.filtered() == 0
            step._filtered = k
        self.sinks = [s for s in built.steps if isinstance(s, HasStatistics)]
        assert len(self.sinks) == 1, "exactly one step keeps the statistics of written reads"
        rls = self.sinks[0].get_statistics()
        assert rls.written_reads() == 0
        for length in range(MAXLEN + 1):
            rls._written_lengths1[length] = hs[length]
            if built.paired:
                rls._written_lengths2[length] = gs[length]
        self.rls, self.hs, self.gs = rls, hs, gs
        self.written = sum(hs)
        self.bp1 = sum(length * hs[length] for length in range(MAXLEN + 1))
        self.bp2 = sum(length * gs[length] for length in range(MAXLEN + 1)) if built.paired else 0
        # the invariant, assumed for the history so far: every earlier read was counted exactly once
        self.n = self.written + sum(self.k)


    def untouched(self):
        """True if no cell of the written-length histograms was assigned to since the pre-state was installed."""
        for length in range(MAXLEN + 1):
            if self.rls._written_lengths1[length] is not self.hs[length]:
                return False
            if self.gs is not None and self.rls._written_lengths2[length] is not self.gs[length]:
                return False
        return len(self.rls._written_lengths1) == MAXLEN + 1 and len(self.rls._written_lengths2) == (MAXLEN + 1 if self.gs is not None else 0)


# ---------------------------------------------------------------------------------- the accounting check
def _account(spec, built, pre, records, result):
    paired = spec.paired
    n_ret, bp1_ret, bp2_ret = result
    lens = [len(r) for r in records]
    # input side: one read (pair), its bases
    if n_ret != 1 or bp1_ret != lens[0] or (bp2_ret != lens[1] if paired else bp2_ret is not None):
        return "process_reads returned %r for one read of length %r" % (result, lens)
    stats = Statistics().collect(pre.n + n_ret, bp1_ret, bp2_ret, [], built.steps)
    written = stats.read_length_statistics.written_reads()
    wbp = stats.read_length_statistics.written_bp()
    d_written = 0 if pre.untouched() else written - pre.written
    # a counter that still is the very object put there has not been changed (saves a solver query per counter)
    deltas = [(step.descriptive_identifier(), 0 if step.filtered() is k else step.filtered() - k) for step, k in zip(pre.filters, pre.k)]
    # (a) counted in exactly one place
    if d_written < 0 or any(d < 0 for _, d in deltas):
        return "a counter went down"
    total = d_written + sum(d for _, d in deltas)
    if total == 0:
        return ("silently lost: the read (pair) was neither counted as written nor in any filter category "
                "(writer calls: %d, last step called: %s)" % (len(built.outfiles.log), type(built.steps[built.calls[-1]]).__name__))
    if total != 1:
        return "the read (pair) was counted %d times: written +%d, filters %r" % (total, d_written, [x for x in deltas if x[1]])
    # (b) destination: exactly one output file, or discarded
    log = built.outfiles.log
    if len(log) > 1:
        return "written %d times" % len(log)
    for writer, recs in log:
        if len(recs) != len(records) or any(not (a is b or a == b) for a, b in zip(recs, records)):
            return "a writer received something else than the read (pair) that was processed"
    to_final = [recs for writer, recs in log if pc.writer_kind(spec, writer) == "final"]
    if d_written == 1:
        if len(to_final) != 1:
            return "counted as written but no final output file received it"
    else:
        if to_final:
            return "a final output file received the read but the written count did not move"
    # (c) written reads / base pairs are what the final output files received
    want_bp1 = pre.bp1 + sum(len(recs[0]) for recs in to_final)
    want_bp2 = pre.bp2 + (sum(len(recs[1]) for recs in to_final) if paired else 0)
    if wbp[0] != want_bp1 or wbp[1] != want_bp2:
        return "written base pairs %r differ from what the final output files received %r" % (wbp, (want_bp1, want_bp2))
    # (d) the reported figures: input = written + sum of all filter categories
    if stats.n != stats.written + sum(stats.filtered.values()):
        return "Statistics: n != written + sum(filtered)"
    for (name, d), k in zip(deltas, pre.k):
        v = stats.filtered.get(name)
        if not (v is k or v == k + d):
            return "Statistics.filtered[%r] is not the counter of its step" % name
    # (e) the category that counted this read is one the reports know (text report and JSON are built from FILTERS)
    for name, d in deltas:
        if d == 1 and name not in FILTERS:
            return ("the read (pair) was discarded as %r, a category that is missing from report.FILTERS: neither the "
                    "text report nor the JSON report shows it" % name)
    try:
        js = stats.as_json()
    except AssertionError:
        return "Statistics.as_json() fails its own assertion written + filtered == n"
    rc = js["read_counts"]
    shown = sum(v for v in rc["filtered"].values() if v is not None)
    if rc["input"] != stats.n or rc["output"] != written or rc["input"] != rc["output"] + shown:
        hidden = [name for name in stats.filtered if name not in rc["filtered"]]
        return "JSON report: input != output + the filter categories it shows; categories that have a counter but are not shown: %r" % (hidden,)
    bc = js["basepair_counts"]
    if bc["output_read1"] != want_bp1 or (paired and bc["output_read2"] != want_bp2):
        return "JSON report: output base pairs differ from what the final output files received"
    return OK


def check_single(t: int, c: int, e: int, mt: bool, a: int,
                 k0: int, k1: int, k2: int, k3: int, k4: int, k5: int, k6: int, k7: int, h0: int, h1: int, h2: int, h3: int) -> str:
    """
    pre: 0 <= t <= _hi("t") and 0 <= c <= _hi("c") and 0 <= e <= _hi("e") and 0 <= a <= 1
    pre: k0 >= 0 and k1 >= 0 and k2 >= 0 and k3 >= 0 and k4 >= 0 and k5 >= 0 and k6 >= 0 and k7 >= 0 and h0 >= 0 and h1 >= 0 and h2 >= 0 and h3 >= 0
    post: _ == "ok"
    """
    spec = _spec()
    built = pc.build(spec.argv())
    pre = Pre(built, [k0, k1, k2, k3, k4, k5, k6, k7], [h0, h1, h2, h3], None)
    names = spec.names(1)
    name = (pc.Cell(names, a) if spec.out == "demux" else names[0]) if names else None
    f = pc.Features(t, c, e, mt if names else False, name, pc.tables_for(spec))
    read = pc.LazyRec(f)
    result = built.run([read], pc.MatchSetter())
    return _account(spec, built, pre, (read,), result)


def check_paired(t1: int, t2: int, c1: int, c2: int, e1: int, e2: int, mt1: bool, mt2: bool, a1: int, a2: int,
                 k0: int, k1: int, k2: int, k3: int, k4: int, k5: int, k6: int, k7: int,
                 h0: int, h1: int, h2: int, h3: int, g0: int, g1: int, g2: int, g3: int) -> str:
    """
    pre: 0 <= t1 <= _hi("t") and 0 <= t2 <= _hi("t") and 0 <= c1 <= _hi("c") and 0 <= c2 <= _hi("c") and 0 <= e1 <= _hi("e") and 0 <= e2 <= _hi("e")
    pre: 0 <= a1 <= 1 and 0 <= a2 <= 1
    pre: k0 >= 0 and k1 >= 0 and k2 >= 0 and k3 >= 0 and k4 >= 0 and k5 >= 0 and k6 >= 0 and k7 >= 0 and h0 >= 0 and h1 >= 0 and h2 >= 0 and h3 >= 0 and g0 >= 0 and g1 >= 0 and g2 >= 0 and g3 >= 0
    post: _ == "ok"
    """
    spec = _spec()
    built = pc.build(spec.argv())
    pre = Pre(built, [k0, k1, k2, k3, k4, k5, k6, k7], [h0, h1, h2, h3], [g0, g1, g2, g3])
    n1, n2 = spec.names(1), spec.names(2)
    demux = spec.out in ("demux", "combinatorial")
    tables = pc.tables_for(spec)
    f1 = pc.Features(t1, c1, e1, mt1 if n1 else False, (pc.Cell(n1, a1) if demux else n1[0]) if n1 else None, tables)
    f2 = pc.Features(t2, c2, e2, mt2 if n2 else False, (pc.Cell(n2, a2) if spec.out == "combinatorial" else n2[0]) if n2 else None, tables)
    r1, r2 = pc.LazyRec(f1), pc.LazyRec(f2)
    result = built.run([(r1, r2)], pc.MatchSetter())
    return _account(spec, built, pre, (r1, r2), result)


# ---------------------------------------------------------------------------------- the three report formats
_NUM = r"([0-9][0-9,]*)"


def _int(s):
    return int(s.replace(",", ""))


def _batch(spec, k):
    """A deterministic batch of concrete reads (pairs) covering every row of every feature table and both values of
    the 'adapter found' flags; k in 0..2 rotates the way the features are combined."""
    T = pc.tables_for(spec)
    nt, nc, ne = len(T["t"]), len(T["c"]), len(T["e"])
    n1, n2 = spec.names(1), spec.names(2)
    items = []

    def feat(i, names, salt):
        j = i * 7 + salt + k
        return pc.Features(i % nt, (i // nt + j) % nc, (i + j // 2) % ne, bool(names) and (j % 3 != 0), names[j % len(names)] if names else None, T)
    count = nt * max(nc, ne) * 4
    for i in range(count):
        if spec.paired:
            items.append((pc.LazyRec(feat(i, n1, 0)), pc.LazyRec(feat(i * 3 + 1 + k, n2, 5))))
        else:
            items.append(pc.LazyRec(feat(i, n1, 0)))
    return items


def check_reports(k: int) -> str:
    """
    pre: 0 <= k <= 2
    post: _ == "ok"
    """
    if k == 0:            # explicit branches: the batch number must be a plain int before tracing is switched off
        kk = 0
    elif k == 1:
        kk = 1
    else:
        kk = 2
    return pc.native(_reports, _spec(), kk)


def _reports(spec, k):
    """Everything here is concrete: a batch of reads through the real pipeline and the three real report writers."""
    built = pc.Built(spec.argv())
    items = _batch(spec, k)
    n, bp1, bp2 = built.run(items, pc.MatchSetter())
    if n != len(items):
        return "process_reads counted %d of %d reads" % (n, len(items))
    stats = Statistics().collect(n, bp1, bp2, [], built.steps)
    finals = [recs for w, recs in built.outfiles.log if pc.writer_kind(spec, w) == "final"]
    got_reads = len(finals)
    got_bp1 = sum(len(r[0]) for r in finals)
    got_bp2 = sum(len(r[1]) for r in finals) if spec.paired else None
    # every read left a trace: written somewhere at most once
    seen = {}
    for w, recs in built.outfiles.log:
        seen[id(recs[0])] = seen.get(id(recs[0]), 0) + 1
    if any(v > 1 for v in seen.values()):
        return "a read was written more than once"
    # text report
    text = full_report(stats, 1.0, 0.5)
    m_in = re.search(r"Total (?:reads|read pairs) processed:\s+" + _NUM, text)
    m_out = re.search(r"(?:Reads|Pairs) written \(passing filters\):\s+" + _NUM, text)
    if not m_in or not m_out:
        return "text report: cannot find the processed / written lines"
    fate = 0
    if "== Read fate breakdown ==" in text:
        part = text.split("== Read fate breakdown ==", 1)[1].split("written (passing filters)", 1)[0]
        for line in part.splitlines()[:-1]:
            mm = re.match(r"(?:Reads|Pairs) .*?:\s+" + _NUM + r" \(", line)
            if mm:
                fate += _int(mm.group(1))
    if _int(m_in.group(1)) != n or _int(m_out.group(1)) != got_reads:
        return "text report: processed %s / written %s, but %d reads went in and %d reached the final output files" % (m_in.group(1), m_out.group(1), n, got_reads)
    if _int(m_in.group(1)) != _int(m_out.group(1)) + fate:
        return "text report: processed %s != written %s + read fate breakdown %d" % (m_in.group(1), m_out.group(1), fate)
    m_bp = re.search(r"Total written \(filtered\):\s+" + _NUM + " bp", text)
    if not m_bp or _int(m_bp.group(1)) != got_bp1 + (got_bp2 or 0):
        return "text report: total written bp differs from the content of the final output files"
    # minimal report: the columns it has must be right, and together with the categories it does not show they add up
    header, values = [x.split("\t") for x in minimal_report(stats, 1.0, 0.5).split("\n")[:2]]
    row = dict(zip(header, values))
    others = sum(v for name, v in stats.filtered.items() if name not in ("too_short", "too_long", "too_many_n"))
    if int(row["in_reads"]) != n or int(row["out_reads"]) != got_reads or int(row["out_bp"]) != got_bp1:
        return "minimal report: in_reads/out_reads/out_bp differ from what went in and what the final output files received"
    if spec.paired and int(row["out2_bp"]) != got_bp2:
        return "minimal report: out2_bp differs from what the final output files received"
    if int(row["in_reads"]) != int(row["out_reads"]) + int(row["too_short"]) + int(row["too_long"]) + int(row["too_many_n"]) + others:
        return "minimal report: in_reads != out_reads + too_short + too_long + too_many_n + categories not shown"
    # JSON report
    try:
        js = stats.as_json()
    except AssertionError:
        return "Statistics.as_json() fails its own assertion written + filtered == n (cutadapt --json crashes)"
    rc = js["read_counts"]
    shown = sum(v for v in rc["filtered"].values() if v is not None)
    if rc["input"] != n or rc["output"] != got_reads or rc["input"] != rc["output"] + shown:
        return "JSON report: input %r != output %r + filtered %r" % (rc["input"], rc["output"], rc["filtered"])
    bc = js["basepair_counts"]
    if bc["input_read1"] != bp1 or bc["output_read1"] != got_bp1 or (spec.paired and (bc["input_read2"] != bp2 or bc["output_read2"] != got_bp2)):
        return "JSON report: base pair counts differ from the reads that went in / the final output files"
    return OK


# ---------------------------------------------------------------------------------- modifier counters
# "the input, quality-trimmed, poly-A-trimmed and with-adapter counts equal the sums over the individual reads"
_KERNEL = {}


def _qtrim_stub(qualities, cutoff_front, cutoff_back, base):
    n = len(qualities)
    start = pc_clamp(_KERNEL["qs"], 0, n)
    stop = pc_clamp(_KERNEL["qe"], start, n)
    return (start, stop)                      # contract (C13): 0 <= start <= stop <= n


def _nextseq_stub(read, cutoff, base):
    return pc_clamp(_KERNEL["ns"], 0, len(read))   # contract (C13): 0 <= index <= n


def _polya_stub(sequence, revcomp=False):
    return pc_clamp(_KERNEL["pa"], 0, len(sequence))   # contract (C14): 0 <= index <= n


def pc_clamp(x, lo, hi):
    return lo if x < lo else (hi if x > hi else x)


_modifiers.quality_trim_index = _qtrim_stub
_modifiers.nextseq_trim_index = _nextseq_stub
_modifiers.poly_a_trim_index = _polya_stub

_TEXT1 = "ACG"
_TEXT2 = "TA"
ALL_MODS = ("nextseq", "quality", "adapter", "polya")


def _mate_modifiers(mate, mods, present, x, revcomp):
    """Real modifiers in the order of make_pipeline_from_args: --nextseq-trim, -q, adapters, --poly-a."""
    out = {}
    if "nextseq" in mods:
        out["nextseq"] = NextseqQualityTrimmer(20, 33)
    if "quality" in mods:
        out["quality"] = QualityTrimmer(10, 10, 33)
    if "adapter" in mods:
        stub = StubAdapter("s%d" % mate, [("after", x, x, 1, 0)] if present else [None])
        out["adapter"] = AdapterCutter([stub], times=1, action=_PARAM.get("action", "trim"), index=False)
    if "polya" in mods:
        out["polya"] = PolyATrimmer(revcomp=revcomp)
    return out


def _expected_mate(length, mods, ns, qs, qe, present, x, pa, revcomp):
    """What the kernels' answers do to a read of the given length: -> (quality-trimmed bp, poly-A bp, final length)."""
    cut_q = 0
    if "nextseq" in mods:
        stop = pc_clamp(ns, 0, length)
        cut_q += length - stop
        length = stop
    if "quality" in mods:
        start = pc_clamp(qs, 0, length)
        stop = pc_clamp(qe, start, length)
        cut_q += length - (stop - start)
        length = stop - start
    if "adapter" in mods and present and _PARAM.get("action", "trim") == "trim":
        length = pc_clamp(x, 0, length)        # a 3' adapter match starting at rstart leaves the part before it
    cut_pa = 0
    if "polya" in mods:
        idx = pc_clamp(pa, 0, length)
        cut_pa = idx if revcomp else length - idx
        length = length - cut_pa
    return cut_q, cut_pa, length


def check_modifier_counters(ns: int, qs: int, qe: int, present: bool, x: int, pa: int, c_ns: int, c_q: int, c_w: int, c_p0: int, c_p1: int) -> str:
    """
    pre: -1 <= ns <= 4 and -1 <= qs <= 4 and -1 <= qe <= 4 and -1 <= x <= 4 and -1 <= pa <= 4
    pre: c_ns >= 0 and c_q >= 0 and c_w >= 0 and c_p0 >= 0 and c_p1 >= 0
    post: _ == "ok"
    """
    _KERNEL.update(ns=ns, qs=qs, qe=qe, pa=pa)
    paired = _PARAM.get("paired", False)
    mods = _PARAM.get("mods", ALL_MODS)
    m1 = _mate_modifiers(1, mods, present, x, False)
    # arbitrary pre-state of R1's counters
    if "nextseq" in m1:
        m1["nextseq"].trimmed_bases = c_ns
    if "quality" in m1:
        m1["quality"].trimmed_bases = c_q
    if "adapter" in m1:
        m1["adapter"].with_adapters = c_w
    if "polya" in m1:
        m1["polya"].trimmed_bases[0] = c_p0
        m1["polya"].trimmed_bases[1] = c_p1
    log = pc.RecordingOutfiles()
    r1 = Rec("r", _TEXT1, "I" * len(_TEXT1))
    if paired:
        m2 = _mate_modifiers(2, mods, not present, x, True)
        r2 = Rec("r", _TEXT2, "I" * len(_TEXT2))
        pipeline = PairedEndPipeline([(m1[k], m2[k]) for k in ALL_MODS if k in m1], [PairedEndSink(log.open_record_writer("o1", "o2"))])
        n, bp1, bp2 = pipeline.process_reads(pc.OneChunk([(r1, r2)]))
        if (n, bp1, bp2) != (1, len(_TEXT1), len(_TEXT2)):
            return "process_reads returned %r" % ((n, bp1, bp2),)
    else:
        pipeline = SingleEndPipeline([m1[k] for k in ALL_MODS if k in m1], [SingleEndSink(log.open_record_writer("o1"))])
        n, bp1, bp2 = pipeline.process_reads(pc.OneChunk([r1]))
        if (n, bp1, bp2) != (1, len(_TEXT1), None):
            return "process_reads returned %r" % ((n, bp1, bp2),)
    stats = Statistics().collect(n, bp1, bp2, pipeline._modifiers, pipeline._steps)
    cut_q, cut_pa, length = _expected_mate(len(_TEXT1), mods, ns, qs, qe, present, x, pa, False)
    if "nextseq" in mods or "quality" in mods:
        base = (c_ns if "nextseq" in mods else 0) + (c_q if "quality" in mods else 0)
        if stats.quality_trimmed_bp[0] != base + cut_q:
            return "quality-trimmed bp of R1: reported %r, this read lost %r on top of %r" % (stats.quality_trimmed_bp[0], cut_q, base)
    elif stats.quality_trimmed_bp[0] is not None:
        return "quality-trimmed bp reported without a quality trimmer"
    if "adapter" in mods and stats.with_adapters[0] != c_w + (1 if present else 0):
        return "reads with adapters (R1): reported %r" % (stats.with_adapters[0],)
    if "polya" in mods:
        if stats.poly_a_trimmed_bp[0] != c_p1 + cut_pa:
            return "poly-A trimmed bp of R1: reported %r, this read lost %r on top of %r" % (stats.poly_a_trimmed_bp[0], cut_pa, c_p1)
        pal = stats.poly_a_trimmed_lengths[0]
        if sum(pal.values()) != c_p0 + c_p1 + 1:
            return "poly-A histogram of R1 does not hold one more read"
    if len(log.log) != 1:
        return "the read was written %d times" % len(log.log)
    written = log.log[0][1]
    if len(written[0]) != length or stats.written_bp[0] != length or stats.written != 1:
        return "written R1 has length %r (reported %r), expected %r" % (len(written[0]), stats.written_bp[0], length)
    if stats.n != 1 or stats.total_bp[0] != len(_TEXT1):
        return "input counts"
    if paired:
        # R2 went through its own modifier objects; their counters started at 0
        cut_q2, cut_pa2, l2 = _expected_mate(len(_TEXT2), mods, ns, qs, qe, not present, x, pa, True)
        if ("nextseq" in mods or "quality" in mods) and stats.quality_trimmed_bp[1] != cut_q2:
            return "quality-trimmed bp of R2: reported %r, expected %r" % (stats.quality_trimmed_bp[1], cut_q2)
        if "adapter" in mods and stats.with_adapters[1] != (0 if present else 1):
            return "reads with adapters (R2): reported %r" % (stats.with_adapters[1],)
        if "polya" in mods and stats.poly_a_trimmed_bp[1] != cut_pa2:
            return "poly-A trimmed bp of R2: reported %r, expected %r" % (stats.poly_a_trimmed_bp[1], cut_pa2)
        if len(written[1]) != l2 or stats.written_bp[1] != l2 or stats.total_bp[1] != len(_TEXT2):
            return "written R2 has length %r, expected %r" % (len(written[1]), l2)
    return OK


# ---------------------------------------------------------------------------------- reads with adapters
# "the ... with-adapter counts equal the sums over the individual reads": a read in which several rounds (--times) find
# an adapter is ONE read with adapters.  Four places count: AdapterCutter.__call__, ReverseComplementer.__call__,
# PairedReverseComplementer.__call__ (one counter per mate) and PairedAdapterCutter.__call__.
class _Probe:
    """Harness step placed before the sink: remembers the ModificationInfo objects (to read info.matches)."""

    def __init__(self):
        self.infos = []

    def __call__(self, *args):
        n = len(args) // 2
        self.infos.append(args[n:])
        return args[0] if n == 1 else args[:n]


def _rounds(flags, times):
    """Number of matches of one AdapterCutter pass: one adapter per round, stop at the first round that finds none."""
    n = 0
    for k in range(times):
        if not flags[k]:
            break
        n += 1
    return n


def _outcomes(flags, x, score=1):
    return [("after", x, x, score, 0) if f else None for f in flags]


def check_with_adapters(p0: bool, p1: bool, p2: bool, q0: bool, q1: bool, q2: bool, x: int, c_w: int, c_w2: int) -> str:
    """
    pre: -1 <= x <= 3
    pre: c_w >= 0 and c_w2 >= 0
    post: _ == "ok"
    """
    times = _PARAM.get("times", 2)
    action = _PARAM.get("action", "trim")
    paired = _PARAM.get("paired", False)
    flags1, flags2 = [p0, p1, p2][:times], [q0, q1, q2][:times]
    stub1 = StubAdapter("s1", _outcomes(flags1, x))
    cutter1 = AdapterCutter([stub1], times=times, action=action, index=False)
    cutter1.with_adapters = c_w                        # arbitrary pre-state
    probe = _Probe()
    log = pc.RecordingOutfiles()
    r1 = Rec("r", _TEXT1, "I" * len(_TEXT1))
    if paired:
        stub2 = StubAdapter("s2", _outcomes(flags2, x))
        cutter2 = AdapterCutter([stub2], times=times, action=action, index=False)
        cutter2.with_adapters = c_w2
        r2 = Rec("r", _TEXT2, "I" * len(_TEXT2))
        pipeline = PairedEndPipeline([(cutter1, cutter2)], [probe, PairedEndSink(log.open_record_writer("o1", "o2"))])
        n, bp1, bp2 = pipeline.process_reads(pc.OneChunk([(r1, r2)]))
    else:
        pipeline = SingleEndPipeline([cutter1], [probe, SingleEndSink(log.open_record_writer("o1"))])
        n, bp1, bp2 = pipeline.process_reads(pc.OneChunk([r1]))
    stats = Statistics().collect(n, bp1, bp2, pipeline._modifiers, pipeline._steps)
    n1 = _rounds(flags1, times)
    if len(probe.infos) != 1 or len(probe.infos[0][0].matches) != n1 or len(stub1.calls) != min(times, n1 + 1):
        return "R1: %d rounds should have found an adapter; info.matches has %d entries after %d searches" % (n1, len(probe.infos[0][0].matches), len(stub1.calls))
    if len(cutter1.adapter_statistics[stub1].added) != n1:
        return "R1: %d matches, %d recorded in the adapter statistics" % (n1, len(cutter1.adapter_statistics[stub1].added))
    if stats.with_adapters[0] != c_w + (1 if n1 > 0 else 0):
        return "reads with adapters (R1): reported %r after one read with %d matches on top of %r" % (stats.with_adapters[0], n1, c_w)
    if not paired:
        return OK if stats.with_adapters[1] is None else "single-end data reports reads with adapters for R2"
    n2 = _rounds(flags2, times)
    if len(probe.infos[0][1].matches) != n2 or len(cutter2.adapter_statistics[stub2].added) != n2:
        return "R2: %d rounds should have found an adapter; info.matches has %d entries" % (n2, len(probe.infos[0][1].matches))
    if stats.with_adapters[1] != c_w2 + (1 if n2 > 0 else 0):
        return "reads with adapters (R2): reported %r after one read with %d matches on top of %r" % (stats.with_adapters[1], n2, c_w2)
    return OK


def check_with_adapters_revcomp(f0: bool, f1: bool, r0: bool, r1: bool, sf: int, sr: int, c_w: int, c_rc: int) -> str:
    """
    pre: -2 <= sf <= 2 and -2 <= sr <= 2
    pre: c_w >= 0 and c_rc >= 0
    post: _ == "ok"
    """
    times = 2
    # the stub answers call after call: first the rounds on the read as given, then the rounds on its reverse complement
    nf = _rounds([f0, f1], times)
    calls_f = min(times, nf + 1)
    outcomes = _outcomes([f0, f1][:calls_f], 1, sf) + _outcomes([r0, r1], 1, sr)
    stub = StubAdapter("s", outcomes)
    cutter = AdapterCutter([stub], times=times, action="trim", index=False)
    cutter.with_adapters = c_w
    rc = ReverseComplementer(cutter)
    rc.reverse_complemented = c_rc
    probe = _Probe()
    log = pc.RecordingOutfiles()
    pipeline = SingleEndPipeline([rc], [probe, SingleEndSink(log.open_record_writer("o1"))])
    n, bp1, bp2 = pipeline.process_reads(pc.OneChunk([Rec("r", _TEXT1, "I" * len(_TEXT1))]))
    stats = Statistics().collect(n, bp1, bp2, pipeline._modifiers, pipeline._steps)
    nr = _rounds([r0, r1], times)
    use_rc = nr > 0 and nr * sr > nf * sf          # C16: the reverse complement only if an adapter was found in it and it scores strictly better
    kept = nr if use_rc else nf
    if len(probe.infos[0][0].matches) != kept:
        return "%d matches should have been kept, info.matches has %d" % (kept, len(probe.infos[0][0].matches))
    if stats.with_adapters[0] != c_w + (1 if kept > 0 else 0):
        return "reads with adapters: reported %r after one read with %d matches on top of %r" % (stats.with_adapters[0], kept, c_w)
    if stats.reverse_complemented != c_rc + (1 if use_rc else 0):
        return "reverse-complemented reads: reported %r on top of %r" % (stats.reverse_complemented, c_rc)
    return OK


def check_with_adapters_paired_revcomp(a0: bool, a1: bool, b0: bool, b1: bool, c0: bool, d0: bool, su: int, ss: int, c_w: int, c_w2: int) -> str:
    """
    pre: -1 <= su <= 1 and -1 <= ss <= 1
    pre: c_w >= 0 and c_w2 >= 0
    post: _ == "ok"
    """
    # cutter 1 (--times 2) searches R1, then - swapped - R2; cutter 2 (one round) searches R2, then - swapped - R1
    na = _rounds([a0, a1], 2)
    stub1 = StubAdapter("s1", _outcomes([a0, a1][:min(2, na + 1)], 1, su) + _outcomes([b0, b1], 1, ss))
    stub2 = StubAdapter("s2", _outcomes([c0], 1, su) + _outcomes([d0], 1, ss))
    cutter1 = AdapterCutter([stub1], times=2, action="trim", index=False)
    cutter2 = AdapterCutter([stub2], times=1, action="trim", index=False)
    cutter1.with_adapters = c_w
    cutter2.with_adapters = c_w2
    probe = _Probe()
    log = pc.RecordingOutfiles()
    pipeline = PairedEndPipeline([PairedReverseComplementer(cutter1, cutter2)], [probe, PairedEndSink(log.open_record_writer("o1", "o2"))])
    n, bp1, bp2 = pipeline.process_reads(pc.OneChunk([(Rec("r", _TEXT1, "III"), Rec("r", _TEXT2, "II"))]))
    stats = Statistics().collect(n, bp1, bp2, pipeline._modifiers, pipeline._steps)
    nb = _rounds([b0, b1], 2)
    nc, nd = (1 if c0 else 0), (1 if d0 else 0)
    use_rc = (nb + nd > 0) and (nb + nd) * ss > (na + nc) * su
    k1, k2 = (nb, nd) if use_rc else (na, nc)
    if len(probe.infos[0][0].matches) != k1 or len(probe.infos[0][1].matches) != k2:
        return "matches kept: expected %d / %d, info.matches has %d / %d" % (k1, k2, len(probe.infos[0][0].matches), len(probe.infos[0][1].matches))
    if stats.with_adapters[0] != c_w + (1 if k1 > 0 else 0):
        return "reads with adapters (R1): reported %r after one pair with %d R1 matches on top of %r" % (stats.with_adapters[0], k1, c_w)
    if stats.with_adapters[1] != c_w2 + (1 if k2 > 0 else 0):
        return "reads with adapters (R2): reported %r after one pair with %d R2 matches on top of %r" % (stats.with_adapters[1], k2, c_w2)
    return OK


def check_with_adapters_pair_adapters(pa1: bool, pa2: bool, pb1: bool, pb2: bool, sa: int, sb: int, c_w: int) -> str:
    """
    pre: -1 <= sa <= 1 and -1 <= sb <= 1
    pre: c_w >= 0
    post: _ == "ok"
    """
    # --pair-adapters with two adapter pairs: a pair counts when both of its adapters are found; the read pair counts once
    a1, a2 = StubAdapter("a1", _outcomes([pa1], 1, sa)), StubAdapter("a2", _outcomes([pa2], 1, 0))
    b1, b2 = StubAdapter("b1", _outcomes([pb1], 1, sb)), StubAdapter("b2", _outcomes([pb2], 1, 0))
    cutter = PairedAdapterCutter([a1, b1], [a2, b2], action=_PARAM.get("action", "trim"))
    cutter.with_adapters = c_w
    probe = _Probe()
    log = pc.RecordingOutfiles()
    pipeline = PairedEndPipeline([cutter], [probe, PairedEndSink(log.open_record_writer("o1", "o2"))])
    n, bp1, bp2 = pipeline.process_reads(pc.OneChunk([(Rec("r", _TEXT1, "III"), Rec("r", _TEXT2, "II"))]))
    stats = Statistics().collect(n, bp1, bp2, pipeline._modifiers, pipeline._steps)
    found = (pa1 and pa2) or (pb1 and pb2)
    want = c_w + (1 if found else 0)
    if len(probe.infos[0][0].matches) != (1 if found else 0) or len(probe.infos[0][1].matches) != (1 if found else 0):
        return "info.matches of a pair in which %s adapter pair was found has %d / %d entries" % ("an" if found else "no", len(probe.infos[0][0].matches), len(probe.infos[0][1].matches))
    if stats.with_adapters[0] != want or stats.with_adapters[1] != want:
        return "pairs with adapters: reported %r / %r, expected %r for both mates" % (stats.with_adapters[0], stats.with_adapters[1], want)
    return OK


# ---------------------------------------------------------------------------------- catalogue
def _catalogue():
    S = []

    def add(spec, **extra):
        S.append((spec, extra))
    full = dict(m="2", M="3", max_n=1.0, max_ee=1.0, casava=True)
    # single-end
    add(Spec())
    add(Spec(out="stdout", m="2", ts_out=True))
    add(Spec(m="2", M="3", tl_out=True))
    add(Spec(max_n=0.5))
    add(Spec(max_n=2.0, max_ee=1.0))
    add(Spec(casava=True, m="1"))
    for last in ("discard_trimmed", "discard_untrimmed", "untrimmed_output"):
        add(Spec(adapters="1", last=last))
        add(Spec(adapters="1", ts_out=True, tl_out=(last != "discard_trimmed"), last=last, **full))
    add(Spec(adapters="1", m="2", casava=True, last="untrimmed_output", aux=True))
    for last in (None, "discard_untrimmed", "untrimmed_output"):
        add(Spec(adapters="1", out="demux", last=last, m="2", ts_out=(last is None), max_n=1.0))
    # single-end with --max-average-error-rate (the category was missing from report.FILTERS; repaired in /repo by a fix: commit)
    add(Spec(max_aer=0.5))
    add(Spec(adapters="1", m="1", M="3", max_n=1.0, max_ee=1.0, max_aer=0.5, casava=True, last="discard_untrimmed"))
    # paired-end
    add(Spec(paired=True))
    add(Spec(paired=True, out="interleaved", m="2", ts_out=True, M="3"))
    for pf in (None, "both", "first"):
        add(Spec(paired=True, pair_filter=pf, m="2:3", ts_out=True, M="2:3", tl_out=(pf is None)))
        add(Spec(paired=True, pair_filter=pf, max_n=(0.5 if pf == "both" else 1.0)))
        add(Spec(paired=True, pair_filter=pf, max_ee=1.0, casava=True))
        add(Spec(paired=True, pair_filter=pf, adapters="12", last="discard_trimmed", m="2"))
        add(Spec(paired=True, pair_filter=pf, adapters="12", last="discard_untrimmed"))
        add(Spec(paired=True, pair_filter=pf, adapters="12", last="untrimmed_output", M="2"))
    add(Spec(paired=True, m="2:", ts_out=True, M=":2"))
    for ad in ("1", "2"):
        add(Spec(paired=True, adapters=ad, last="discard_untrimmed"))
        add(Spec(paired=True, adapters=ad, last="untrimmed_output", M="3", tl_out=True))
    for last in ("discard_trimmed", "discard_untrimmed", "untrimmed_output"):
        add(Spec(paired=True, adapters="12", m="2:3", ts_out=True, M="3", max_n=1.0, max_ee=1.0, casava=True, last=last))
    add(Spec(paired=True, adapters="12", out="demux", m="2"))
    add(Spec(paired=True, adapters="12", out="demux", last="untrimmed_output", casava=True))
    add(Spec(paired=True, adapters="12", out="demux", last="discard_untrimmed", M="3", tl_out=True))
    add(Spec(paired=True, adapters="12", out="combinatorial", m="2", max_n=1.0))
    add(Spec(paired=True, adapters="12", out="combinatorial"))
    add(Spec(paired=True, adapters="1", m="2", last="discard_untrimmed", aux=True))
    # paired-end with --max-average-error-rate
    add(Spec(paired=True, max_aer=0.5, m="1"))
    # combinatorial demultiplexing with --discard-untrimmed (pairs were dropped uncounted; repaired in /repo by a fix: commit)
    add(Spec(paired=True, adapters="12", out="combinatorial", last="discard_untrimmed"))
    add(Spec(paired=True, adapters="12", out="combinatorial", last="discard_untrimmed", m="2", ts_out=True))
    return S


_CAT = _catalogue()
OPTION_SETS = [s for s, _ in _CAT]
_BY_LABEL = {s.label(): s for s in OPTION_SETS}

CONDITIONS = []
for _i, (_s, _extra) in enumerate(_CAT):
    _p = {"set": _i}
    _p.update(_extra)
    CONDITIONS.append({"name": "step/set%02d/%s" % (_i, _s.label()), "fn": "check_paired" if _s.paired else "check_single", "param": _p, "timeout": 900})
for _i, (_s, _extra) in enumerate(_CAT):
    CONDITIONS.append({"name": "reports/set%02d/%s" % (_i, _s.label()), "fn": "check_reports", "param": {"set": _i}, "timeout": 600})
for _paired in (False, True):
    for _mods in (("nextseq", "quality"), ("adapter", "polya"), ("quality", "adapter")):
        CONDITIONS.append({"name": "modifier_counters/%s/%s" % ("paired" if _paired else "single", "+".join(_mods)), "fn": "check_modifier_counters",
                           "param": {"paired": _paired, "mods": _mods, "action": "trim"}, "timeout": 900})
CONDITIONS.append({"name": "modifier_counters/single/adapter+polya/action=none", "fn": "check_modifier_counters",
                   "param": {"paired": False, "mods": ("adapter", "polya"), "action": None}, "timeout": 900})
for _paired in (False, True):
    for _times, _action in ((2, "trim"), (3, "trim"), (2, "mask"), (2, None)):
        CONDITIONS.append({"name": "with_adapters/%s/times=%d/action=%s" % ("paired" if _paired else "single", _times, _action), "fn": "check_with_adapters",
                           "param": {"paired": _paired, "times": _times, "action": _action}, "timeout": 600})
CONDITIONS.append({"name": "with_adapters/revcomp/times=2", "fn": "check_with_adapters_revcomp", "timeout": 600})
CONDITIONS.append({"name": "with_adapters/paired_revcomp/times=2+1", "fn": "check_with_adapters_paired_revcomp", "timeout": 900})
for _action in ("trim", None):
    CONDITIONS.append({"name": "with_adapters/pair_adapters/action=%s" % _action, "fn": "check_with_adapters_pair_adapters", "param": {"action": _action}, "timeout": 600})


def describe():
    return {
        "functions": ["cli.py:make_pipeline_from_args", "steps.py:SingleEndFilter/PairedEndFilter/SingleEndSink/PairedEndSink/Demultiplexer/PairedDemultiplexer/"
                      "CombinatorialDemultiplexer.__call__/filtered/get_statistics/descriptive_identifier", "statistics.py:ReadLengthStatistics",
                      "pipeline.py:SingleEndPipeline.process_reads, PairedEndPipeline.process_reads", "report.py:Statistics.collect/_collect_step/_collect_modifier/as_json, "
                      "FILTERS, full_report/format_filter_report, minimal_report", "modifiers.py:QualityTrimmer/NextseqQualityTrimmer/PolyATrimmer/AdapterCutter.__call__ (counters), "
                      "PairedEndModifierWrapper, ReverseComplementer.__call__, PairedReverseComplementer.__call__, PairedAdapterCutter.__call__ (with_adapters)"],
        "bounds": {"option_sets": len(OPTION_SETS), "read": "text from a fixed table (length 0..3, N count 0..length), header from a table of 8 names, expected errors from {0, 1, 1.5, 2.5}, "
                   "adapter found / not found per mate, which adapter name (demultiplexing)", "pre-state": "every filter counter and every written-length histogram cell an arbitrary int in 0..10^6",
                   "reports": "three concrete batches per option set covering every row of every feature table, through full_report, minimal_report and as_json",
                   "reads with adapters": "real AdapterCutter with --times 2 and 3 over stub adapters with a symbolic found/not found flag per round (0..3 matches on one read), single-end and "
                   "through PairedEndModifierWrapper; ReverseComplementer (times 2, symbolic scores -2..2), PairedReverseComplementer (times 2 + 1, scores -1..1), PairedAdapterCutter with two "
                   "adapter pairs; symbolic pre-state of every with_adapters / reverse_complemented counter",
                   "modifier counters": "3-base R1 / 2-base R2, kernel answers symbolic (-1..4, clamped by the stubs into their contracts), two kinds of modifiers per condition, counters with arbitrary pre-state"},
        "outside_bounds": ["reads longer than 3", "more than one chunk / more than one core (C06)", "--rename, --revcomp (C16) and the per-adapter statistics (C20)",
                           "which filter is the right one for a read (C11), which demultiplexed file is the right one (C15)"],
        "stubs": ["RecordingOutfiles for files.OutputFiles (signatures compared at import)", "LazyRec/Rec for dnaio.SequenceRecord", "predicates.expected_errors returns the value attached to the read "
                  "(contract: non-negative real, 0 for an empty read)", "MatchSetter: the only modifier of the step conditions (installs info.matches)", "OneChunk for InputFiles",
                  "modifier conditions: quality_trim_index / nextseq_trim_index / poly_a_trim_index stand-ins returning arbitrary values inside their contracts (C13, C14), StubAdapter (C01 contract)"],
        "assumptions": ["CrossHair's model of int/str/list/dict operations", "only 'Confirmed over all paths' counts as discharged",
                        "the pre-state reaches the counters only through the attributes _filtered and ReadLengthStatistics._written_lengths1/2",
                        "final output files = -o/-p, standard output and all demultiplexed files (including the one for reads without adapter); --too-short-output, --too-long-output and, "
                        "without demultiplexing, --untrimmed-output are redirect files of a filter category",
                        "the minimal report shows only three categories by design (documented column list); it is checked for the columns it has"],
        "rule": "one CrossHair condition per option set for the inductive step (symbolic read features and symbolic counter pre-state), one per option set for the three report formats "
                "(concrete batches), plus the modifier counters. non-trivial = conditions with more than one explored path whose reachability twin is refuted",
    }


def validate(seed):
    """Stand-ins against the real program on concrete reads (see pipeline_common.validate_against_cli)."""
    return pc.validate_against_cli(OPTION_SETS, seed)


FAMILIES = {
    # characterising predicates of the two known defect families (DESIGN section 8), on the option set of a counterexample
    "max_aer_not_in_FILTERS": lambda spec: spec.max_aer is not None,
    "combinatorial_demultiplexing_discard_untrimmed": lambda spec: spec.out == "combinatorial" and spec.last == "discard_untrimmed",
}


def known_match(entry, cex):
    """Does the counterexample belong to the family of the listed finding?  entry["family"] names a key of FAMILIES."""
    fam = FAMILIES.get(entry.get("family"))
    p = cex.get("param") or {}
    if fam is None or cex.get("condition") not in ("check_single", "check_paired", "check_reports"):
        return False
    spec = _BY_LABEL.get(p["label"]) if "label" in p else OPTION_SETS[p.get("set", 0)]
    return spec is not None and fam(spec)


def jobs(tier, seed):
    return e2_jobs(CONDITIONS, tier)


def run_job(job):
    return e2_run_job(__name__, job)


def replay(cex):
    return e2_replay(cex)
