"""C11 - filters use the documented criteria, in the documented order, one destination per read.

E2 (CrossHair on the real classes).  For every option set of the catalogue below the REAL pipeline is built by
cutadapt.cli.make_pipeline_from_args from natively parsed arguments, against recording output files.  One read
(one pair) whose filter-relevant features are symbolic - text (length, N count), header, adapter found, expected
errors - is pushed through the REAL process_reads loop, with SYMBOLIC thresholds injected into the real predicate
objects (so length == -m, N fraction == cut-off, expected errors == --max-ee are inside).  The reference is written
from the property statement: the first applicable filter in the order too short, too long, too many N, max-ee,
max-aer, CASAVA, discard-trimmed/discard-untrimmed/untrimmed-output consumes the read; it goes to that filter's
redirect file(s) if given, else nowhere; otherwise to the main output; no later step is called.
"""
from harness.e2_common import e2_jobs, e2_run_job, e2_replay
from harness import pipeline_common as pc
from harness.pipeline_common import Spec

from cutadapt.predicates import (TooShort, TooLong, TooManyN, TooManyExpectedErrors, TooHighAverageErrorRate,
                                 CasavaFiltered, IsTrimmed, IsUntrimmed)
from cutadapt.steps import SingleEndFilter, PairedEndFilter

PROPERTY = "C11"
ENGINE = "crosshair"

_PARAM = {}


def set_param(p):
    _PARAM.clear()
    _PARAM.update(p or {})


# ---------------------------------------------------------------------------------- documented criteria (reference)
def crit_too_short(length, m):
    return length < m                      # "shorter than -m"


def crit_too_long(length, M):
    return length > M                      # "longer than -M"


def crit_too_many_n(length, n_count, max_n):
    if max_n < 1:                          # "a value below 1 being a fraction of the read length"
        return length > 0 and n_count / length > max_n
    return n_count > max_n                 # "more N's than --max-n"


def crit_max_ee(ee, max_ee):
    return ee > max_ee                     # "expected errors above --max-ee"


def crit_max_aer(length, ee, max_aer):
    if length == 0:                        # no bases: no per-base rate, nothing to exceed
        return False
    return ee / length > max_aer           # "expected errors per base above --max-aer"


# ---------------------------------------------------------------------------------- injecting symbolic thresholds
def _predicates_of(step):
    if isinstance(step, SingleEndFilter):
        return [(1, step._predicate)]
    if isinstance(step, PairedEndFilter):
        return [(1, step.predicate1), (2, step.predicate2)]
    return []


def inject(built, spec, m1, m2, M1, M2):
    """Overwrite -m/-M inside the real predicate objects that make_pipeline_from_args created by symbolic ints."""
    same_m = spec.m is not None and ":" not in spec.m      # '-m LEN': one value for both mates
    same_M = spec.M is not None and ":" not in spec.M
    for step in built.steps:
        for mate, p in _predicates_of(step):
            if p is None:
                continue
            if type(p) is TooShort:
                p.minimum_length = m1 if (mate == 1 or same_m) else m2
            elif type(p) is TooLong:
                p.maximum_length = M1 if (mate == 1 or same_M) else M2


# ---------------------------------------------------------------------------------- reference: what should happen
def expected_sequence(spec):
    """Documented order of the enabled steps; entries (kind, redirect stem or None)."""
    seq = []
    if spec.aux:
        seq += [("aux", None)] * 3
    if spec.m is not None:
        seq.append(("too_short", "too-short" if spec.ts_out else None))
    if spec.M is not None:
        seq.append(("too_long", "too-long" if spec.tl_out else None))
    if spec.max_n is not None:
        seq.append(("max_n", None))
    if spec.max_ee is not None:
        seq.append(("max_ee", None))
    if spec.max_aer is not None:
        seq.append(("max_aer", None))
    if spec.casava:
        seq.append(("casava", None))
    if spec.out in ("files", "stdout", "interleaved") and spec.last is not None:
        seq.append((spec.last, "untrimmed" if spec.last == "untrimmed_output" else None))
    seq.append(("sink", None))
    return seq


def applies(spec, kind, f1, f2, thr):
    """Does the filter `kind` apply to the read (pair)?"""
    m1, m2, M1, M2 = thr

    def one(f, m, M):
        if kind == "too_short":
            return crit_too_short(f.length, m)
        if kind == "too_long":
            return crit_too_long(f.length, M)
        if kind == "max_n":
            return crit_too_many_n(f.length, f.n_count, spec.max_n)
        if kind == "max_ee":
            return crit_max_ee(f.ee, spec.max_ee)
        if kind == "max_aer":
            return crit_max_aer(f.length, f.ee, spec.max_aer)
        if kind == "casava":
            return f.is_y
        if kind == "discard_trimmed":
            return f.matched
        if kind in ("discard_untrimmed", "untrimmed_output"):
            return not f.matched
        raise AssertionError(kind)

    if not spec.paired:
        return one(f1, m1, M1)
    on1, on2 = True, True
    mode = spec.mode()
    if kind == "too_short":
        on1, on2 = spec.lengths("m")
        if ":" not in spec.m:
            m2 = m1                 # '-m LEN': the same minimum for both reads
    elif kind == "too_long":
        on1, on2 = spec.lengths("M")
        if ":" not in spec.M:
            M2 = M1
    elif kind in ("discard_untrimmed", "untrimmed_output"):
        mode = spec.untrimmed_mode()
    # evaluated in the order R1, R2 and only as far as needed (the criteria have no side effects)
    if not on2:
        return one(f1, m1, M1)
    if not on1:
        return one(f2, m2, M2)
    if mode == "any":
        return one(f1, m1, M1) or one(f2, m2, M2)
    if mode == "both":
        return one(f1, m1, M1) and one(f2, m2, M2)
    return one(f1, m1, M1)


def sink_destination(spec, f1, f2):
    """Paths of the final output the read (pair) belongs to, or None when the sink drops it."""
    if spec.out == "stdout":
        return ("-",)
    if spec.out in ("files", "interleaved"):
        return spec.paths("out")
    if spec.out == "demux":                 # file of the adapter found in R1; C15 looks at this in depth
        if f1.matched:
            return spec.paths(f1.adapter_name)
        if spec.last == "discard_untrimmed":
            return None
        if spec.last == "untrimmed_output":
            return spec.paths("untrimmed")
        return spec.paths("unknown")
    if spec.out == "combinatorial":
        if spec.last == "discard_untrimmed" and not (f1.matched and f2.matched):
            return None
        return spec.paths("%s-%s" % (f1.adapter_name if f1.matched else "unknown", f2.adapter_name if f2.matched else "unknown"))
    raise AssertionError(spec.out)


OK = "ok"


def _verdict(spec, built, records, f1, f2, thr):
    """Compare what the real pipeline did with the reference; -> "ok" or what is wrong."""
    seq = expected_sequence(spec)
    if len(seq) != len(built.steps):
        return "the pipeline has %d steps, the option set asks for %d" % (len(built.steps), len(seq))
    pos = None
    for i, (kind, stem) in enumerate(seq):
        if kind in ("aux", "sink"):
            continue
        if applies(spec, kind, f1, f2, thr):
            pos = i
            break
    if pos is None:
        pos = len(seq) - 1
        dest = sink_destination(spec, f1, f2)
    else:
        stem = seq[pos][1]
        dest = spec.paths(stem) if stem is not None else None
    what = seq[pos][0]
    # no later filter or output sees the read: exactly the steps 0..pos were called, in order
    if built.calls != list(range(pos + 1)):
        return "expected the read to be consumed by step %d (%s) after steps 0..%d were called in order; steps called: %r" % (pos, what, pos, built.calls)
    # exactly the consuming filter counted it
    for i, step in enumerate(built.steps):
        if hasattr(step, "_filtered") and i != len(seq) - 1:
            if step._filtered != (1 if i == pos else 0):
                return "filter step %d has counted %r reads, the read should have been consumed by step %d (%s)" % (i, step._filtered, pos, what)
    # one destination
    log = built.outfiles.log
    if dest is None:
        return OK if len(log) == 0 else "the read should have been discarded by %s but was written to %r" % (what, [w.paths for w, _ in log])
    if len(log) != 1:
        return "expected exactly one write to %r (%s), got %r" % (dest, what, [w.paths for w, _ in log])
    writer, written = log[0]
    if writer.paths != dest or writer.interleaved != (spec.out == "interleaved"):
        return "written to %r instead of %r (%s)" % (writer.paths, dest, what)
    if len(written) != len(records) or any(not (x is y or x == y) for x, y in zip(written, records)):
        return "the writer did not receive the processed read (pair)"
    return OK


# ---------------------------------------------------------------------------------- conditions
def _spec():
    return OPTION_SETS[_PARAM.get("set", 0)]


def _hi(k):
    """Largest row number of feature table k ('t' text, 'c' header, 'e' expected errors) for the current option set."""
    return len(pc.tables_for(_spec())[k]) - 1


def check_single(t: int, c: int, e: int, mt: bool, a: int, m: int, M: int) -> str:
    """
    pre: 0 <= t <= _hi("t") and 0 <= c <= _hi("c") and 0 <= e <= _hi("e") and 0 <= a <= 1
    pre: -1 <= m <= 4 and -1 <= M <= 4
    post: _ == "ok"
    """
    spec = _spec()
    tables = pc.tables_for(spec)
    built = pc.build(spec.argv())
    if _PARAM.get("symbolic_lengths", True):
        inject(built, spec, m, m, M, M)
    else:
        m, M = (spec.length_values("m")[0] if spec.m else None), (spec.length_values("M")[0] if spec.M else None)
    names = spec.names(1)
    name = (pc.Cell(names, a) if spec.out == "demux" else names[0]) if names else None
    f = pc.Features(t, c, e, mt if names else False, name, tables)
    read = pc.LazyRec(f)
    n, bp1, bp2 = built.run([read], pc.MatchSetter1(f))
    if n != 1 or bp1 != f.length or bp2 is not None:
        return "process_reads returned %r" % ((n, bp1, bp2),)
    return _verdict(spec, built, (read,), f, None, (m, m, M, M))


def check_paired(t1: int, t2: int, c1: int, c2: int, e1: int, e2: int, mt1: bool, mt2: bool, m1: int, m2: int, M1: int, M2: int) -> str:
    """
    pre: 0 <= t1 <= _hi("t") and 0 <= t2 <= _hi("t") and 0 <= c1 <= _hi("c") and 0 <= c2 <= _hi("c") and 0 <= e1 <= _hi("e") and 0 <= e2 <= _hi("e")
    pre: -1 <= m1 <= 4 and -1 <= m2 <= 4 and -1 <= M1 <= 4 and -1 <= M2 <= 4
    post: _ == "ok"
    """
    spec = _spec()
    tables = pc.tables_for(spec)
    built = pc.build(spec.argv())
    if _PARAM.get("symbolic_lengths", True):
        inject(built, spec, m1, m2, M1, M2)
    else:
        m1, m2 = spec.length_values("m") if spec.m else (None, None)
        M1, M2 = spec.length_values("M") if spec.M else (None, None)
    n1, n2 = spec.names(1), spec.names(2)
    f1 = pc.Features(t1, c1, e1, mt1 if n1 else False, n1[0] if n1 else None, tables)
    f2 = pc.Features(t2, c2, e2, mt2 if n2 else False, n2[-1] if n2 else None, tables)
    r1, r2 = pc.LazyRec(f1), pc.LazyRec(f2)
    n, bp1, bp2 = built.run([(r1, r2)], pc.MatchSetter2(f1, f2))
    if n != 1 or bp1 != f1.length or bp2 != f2.length:
        return "process_reads returned %r" % ((n, bp1, bp2),)
    return _verdict(spec, built, (r1, r2), f1, f2, (m1, m2, M1, M2))


# -- each predicate on its own (documented criterion, boundary values inside) ------------------------------------
N_CUTOFFS = {"fraction": [0.0, 0.25, 1 / 3, 0.5, 2 / 3, 0.75], "count": [1.0, 1.5, 2.0, 3.0]}
EE_CUTOFFS = [0.0, 0.5, 1.0, 1.5, 2.0, 2.5, 3.0]
AER_CUTOFFS = [0.25, 1 / 3, 0.5, 0.75, 5 / 6, 0.9]


def check_pred_length(t: int, m: int) -> bool:
    """
    pre: 0 <= t <= 9 and -1 <= m <= 4
    post: _
    """
    f = pc.Features(t, 0, 0, False, None)
    read = pc.LazyRec(f)
    length = f.length
    return TooShort(m).test(read, None) == (length < m) and TooLong(m).test(read, None) == (length > m)


def check_pred_n(s: str, x: int) -> bool:
    """
    pre: len(s) <= 3 and all(ch in "ANn" for ch in s)
    pre: 0 <= x < len(N_CUTOFFS[_PARAM.get("cutoffs", "fraction")])
    post: _
    """
    nmax = N_CUTOFFS[_PARAM.get("cutoffs", "fraction")][x]
    k = 0
    for ch in s:
        if ch == "N" or ch == "n":
            k += 1
    read = pc.Rec("r", s, None)
    return TooManyN(nmax).test(read, None) == crit_too_many_n(len(s), k, nmax)


def check_pred_ee(t: int, e: int, x: int, y: int) -> bool:
    """
    pre: 0 <= t <= 9 and 0 <= e <= 3 and 0 <= x <= 6 and 0 <= y <= 5
    post: _
    """
    f = pc.Features(t, 0, e, False, None)
    read = pc.LazyRec(f)
    return (TooManyExpectedErrors(EE_CUTOFFS[x]).test(read, None) == crit_max_ee(f.ee, EE_CUTOFFS[x])
            and TooHighAverageErrorRate(AER_CUTOFFS[y]).test(read, None) == crit_max_aer(f.length, f.ee, AER_CUTOFFS[y]))


def check_pred_flags(c: int, mt: bool) -> bool:
    """
    pre: 0 <= c < len(pc.NAME_ROWS)
    post: _
    """
    f = pc.Features(3, c, 0, mt, "a1")
    read = pc.LazyRec(f)

    class _Info:
        matches = f.matches
    return (CasavaFiltered().test(read, _Info) == f.is_y and IsTrimmed().test(read, _Info) == mt
            and IsUntrimmed().test(read, _Info) == (not mt))


# ---------------------------------------------------------------------------------- catalogue
def _catalogue():
    """[(Spec, extra condition parameters)]"""
    S = []

    def add(spec, **extra):
        S.append((spec, extra))
    # single-end
    add(Spec())
    add(Spec(out="stdout", m="2"))
    for ts in (False, True):
        add(Spec(m="2", ts_out=ts))
        add(Spec(M="3", tl_out=ts))
        add(Spec(m="2", ts_out=ts, M="3", tl_out=not ts))
    for v in (0.0, 0.5, 1.0, 2.0):
        add(Spec(max_n=v))
    add(Spec(max_ee=1.0))
    add(Spec(max_aer=0.5))
    add(Spec(max_ee=1.0, max_aer=0.5, m="1"))
    add(Spec(casava=True))
    for last in ("discard_trimmed", "discard_untrimmed", "untrimmed_output"):
        add(Spec(adapters="1", last=last))
        add(Spec(adapters="1", m="2", ts_out=True, M="3", tl_out=True, max_n=1.0, max_ee=1.0, max_aer=0.5, casava=True, last=last))
        add(Spec(adapters="1", m="2", M="3", max_n=0.5, max_ee=1.0, max_aer=0.5, casava=True, last=last), symbolic_lengths=False)
    add(Spec(adapters="1", m="2", casava=True, last="untrimmed_output", aux=True))
    for last in (None, "discard_untrimmed", "untrimmed_output"):
        add(Spec(adapters="1", out="demux", last=last, m="2", ts_out=True, max_n=1.0))
    # paired-end
    add(Spec(paired=True))
    add(Spec(paired=True, out="interleaved", m="2", ts_out=True, M="3"))
    for pf in (None, "both", "first"):
        for form in ("2", "2:3"):
            add(Spec(paired=True, pair_filter=pf, m=form, ts_out=True, M=form, tl_out=(pf is None)))
        add(Spec(paired=True, pair_filter=pf, max_n=(0.5 if pf == "both" else 1.0)))
        add(Spec(paired=True, pair_filter=pf, max_ee=1.0))
        add(Spec(paired=True, pair_filter=pf, max_aer=0.5))
        add(Spec(paired=True, pair_filter=pf, casava=True, max_n=2.0))
        add(Spec(paired=True, pair_filter=pf, adapters="12", last="discard_trimmed"))
        add(Spec(paired=True, pair_filter=pf, adapters="12", last="discard_untrimmed", casava=True))
        add(Spec(paired=True, pair_filter=pf, adapters="12", last="untrimmed_output", m="2"))
    for form in ("2:", ":2"):
        add(Spec(paired=True, m=form, ts_out=True, M=form))
        add(Spec(paired=True, pair_filter="both", m=form, M=form, tl_out=True))
    for ad in ("1", "2"):
        for pf in (None, "any", "first"):
            add(Spec(paired=True, pair_filter=pf, adapters=ad, last="discard_untrimmed"))
        add(Spec(paired=True, adapters=ad, last="untrimmed_output", M="3", tl_out=True))
        add(Spec(paired=True, adapters=ad, last="discard_trimmed"))
    for last in ("discard_trimmed", "discard_untrimmed", "untrimmed_output"):
        add(Spec(paired=True, adapters="12", m="2:3", ts_out=True, M="3", max_n=1.0, max_ee=1.0, max_aer=0.5, casava=True, last=last), symbolic_lengths=False)
        # with --pair-filter=both far more pairs pass each filter: two halves keep the conditions small
        add(Spec(paired=True, pair_filter="both", adapters="12", m="2:3", ts_out=True, M="3", max_n=1.0, last=last), symbolic_lengths=False)
        add(Spec(paired=True, pair_filter="both", adapters="12", max_ee=1.0, max_aer=0.5, casava=True, last=last))
    add(Spec(paired=True, adapters="12", out="demux", m="2"))
    add(Spec(paired=True, adapters="12", out="demux", last="untrimmed_output", casava=True))
    add(Spec(paired=True, adapters="12", out="demux", last="discard_untrimmed", M="3", tl_out=True))
    add(Spec(paired=True, adapters="12", out="combinatorial", m="2", max_n=1.0))
    add(Spec(paired=True, adapters="12", out="combinatorial", last="discard_untrimmed", m="2", ts_out=True))
    add(Spec(paired=True, adapters="1", m="2", last="discard_untrimmed", aux=True))
    return S


_CAT = _catalogue()
OPTION_SETS = [s for s, _ in _CAT]

CONDITIONS = [
    {"name": "pred/length", "fn": "check_pred_length", "timeout": 120},
    {"name": "pred/too_many_n/fraction", "fn": "check_pred_n", "param": {"cutoffs": "fraction"}, "timeout": 600},
    {"name": "pred/too_many_n/count", "fn": "check_pred_n", "param": {"cutoffs": "count"}, "timeout": 600},
    {"name": "pred/expected_errors", "fn": "check_pred_ee", "timeout": 300},
    {"name": "pred/casava_trimmed_untrimmed", "fn": "check_pred_flags", "timeout": 120},
]
for _i, (_s, _extra) in enumerate(_CAT):
    _p = {"set": _i}
    _p.update(_extra)
    CONDITIONS.append({"name": "set%02d/%s%s" % (_i, _s.label(), "" if _extra.get("symbolic_lengths", True) else " [fixed -m/-M]"),
                       "fn": "check_paired" if _s.paired else "check_single", "param": _p, "timeout": 900})


def describe():
    return {
        "functions": ["cli.py:make_pipeline_from_args (filter/sink construction, parse_lengths, determine_demultiplex_mode)",
                      "predicates.py:TooShort/TooLong/TooManyN/TooManyExpectedErrors/TooHighAverageErrorRate/CasavaFiltered/IsTrimmed/IsUntrimmed.test",
                      "steps.py:SingleEndFilter/PairedEndFilter/SingleEndSink/PairedEndSink/Demultiplexer/PairedDemultiplexer/CombinatorialDemultiplexer/"
                      "RestFileWriter/InfoFileWriter/WildcardFileWriter/PairedSingleEndStep.__call__",
                      "pipeline.py:SingleEndPipeline.process_reads, PairedEndPipeline.process_reads"],
        "bounds": {"option_sets": len(OPTION_SETS),
                   "read": "symbolic row numbers into fixed tables: text (length 0..3, every N count 0..length, N and n), header (none, CASAVA pass, CASAVA fail, ':Y:' in the id only, "
                           "':Y:' at the end of the comment, fail / pass followed by a further field ' rc', pass followed by a later field that contains ':Y:'), expected errors (0, 1, 1.5, 2.5); paired-end sets use a selection of rows (pipeline_common.tables_for)",
                   "thresholds": "-m/-M: symbolic ints -1..4 per mate injected into the real TooShort/TooLong objects (fixed 2 / 3 in the sets marked [fixed -m/-M]); --max-n 0, 0.5, 1, 2; "
                                 "--max-ee 1; --max-aer 0.5 as parsed by cutadapt (the tables contain values below, at and above each of them); the predicate conditions go through "
                                 "--max-n 0, 1/4, 1/3, 1/2, 2/3, 3/4, 1, 1.5, 2, 3, --max-ee 0..3 in steps of 0.5, --max-aer 1/4, 1/3, 1/2, 3/4, 5/6, 0.9",
                   "adapter": "symbolic found/not found per mate, symbolic choice of the adapter name (single-end demultiplexing)",
                   "too_many_n predicate": "symbolic read text of length <= 3 over {A,N,n}"},
        "outside_bounds": ["reads longer than 3", "thresholds of --max-n/--max-ee/--max-aer other than the listed values: CrossHair 0.0.110 does not finish with symbolic floats "
                           "(it explores an IEEE model besides the real one), so floats are concrete and all float arithmetic is the native one",
                           "--pair-filter=first together with a length given for R2 only (C05)", "headers other than the eight in the table",
                           "which demultiplexed file is the right one beyond 'the adapter found in R1 / in both mates' (C15)"],
        "stubs": ["RecordingOutfiles for files.OutputFiles (signatures compared at import)", "LazyRec for dnaio.SequenceRecord (e2_common.Rec contract)",
                  "predicates.expected_errors returns the table value attached to the read (contract: non-negative real, 0 for an empty read; proved for the kernel by C14)",
                  "MatchSetter1/2: the only modifier; installs a list with one dummy match as info.matches iff the symbolic flag is set", "OneChunk for InputFiles (one read / one pair)",
                  "Spy around each step to log the calls"],
        "assumptions": ["CrossHair's model of int/bool/str/list operations", "only 'Confirmed over all paths' counts as discharged",
                        "modifiers other than the recording of matches do not matter to the filters (they see the read after modification: C10)",
                        "pair decisions: any = at least one read, both = both reads, first = R1 only; a length given for one mate only looks at that mate; "
                        "--discard-untrimmed/--untrimmed-output use 'both' when only one mate has adapters (guide, 'Filtering paired-end reads')"],
        "rule": "one CrossHair condition per option set (real pipeline built natively from parsed arguments) plus one per predicate family; symbolic: read features and -m/-M. "
                "non-trivial = conditions with more than one explored path whose reachability twin is refuted",
    }


def validate(seed):
    """Stand-ins against the real program on concrete reads (see pipeline_common.validate_against_cli)."""
    return pc.validate_against_cli(OPTION_SETS, seed)


def jobs(tier, seed):
    # plus the floating-point side of the fractional --max-n criterion (engine symx): harness/predicates_fp.py
    from harness import predicates_fp as FP
    return e2_jobs(CONDITIONS, tier) + FP.fp_jobs(tier, seed)


def run_job(job):
    if job.get("fn") == "max_n_fp":
        from harness import predicates_fp as FP
        return FP.run_fp_job(job)
    return e2_run_job(__name__, job)


def replay(cex):
    if isinstance(cex, dict) and cex.get("kind") == "max_n_fp":
        from harness import predicates_fp as FP
        return FP.replay_fp(cex)
    return e2_replay(cex)
