"""C20 (object level) - per-adapter statistics describe exactly the matches that were applied.

E2 (CrossHair on the real classes): EndStatistics, Front/Back/Linked/AnywhereAdapterStatistics.add_match,
AdapterCutter.__call__, ReverseComplementer.__call__, PairedReverseComplementer.__call__,
PairedAdapterCutter.__call__ (registration after the orientation / pair decision), PairedEndModifierWrapper and
Statistics._collect_modifier.  The adapters are the real FrontAdapter / BackAdapter / AnywhereAdapter / LinkedAdapter
classes (real create_statistics, real statistics objects); only match_to of the single adapters is replaced by a
programme that answers an arbitrary match satisfying the C01 contract (the aligner is compiled code).

Reference (from the statement): a plain tally {(end, removed length, errors): count} / {(end, adjacent base): count}
/ matches-on-reverse-complement count, started from a symbolic pre-state and advanced by exactly the matches that
were applied to the read (info.matches, cross-checked against the number of bases the read lost); removed length =
number of bases that match took away (5': up to the end of the match; 3': from the start of the match to the end of
the text it was found in); adjacent base = the base before a 3' match ('' if there is none or it is not A/C/G/T).

The floating-point part of C20 (ErrorRanges) lives in harness.c20_error_ranges (engine symx); see the hook at the
end of this file.
"""
import importlib

from harness.e2_common import Rec, clamp, revcomp, e2_jobs, e2_run_job, e2_replay

from cutadapt.adapters import (FrontAdapter, BackAdapter, AnywhereAdapter, LinkedAdapter, LinkedMatch, RemoveBeforeMatch, RemoveAfterMatch,
                               FrontAdapterStatistics, BackAdapterStatistics, AnywhereAdapterStatistics, LinkedAdapterStatistics)
from cutadapt.modifiers import (AdapterCutter, ReverseComplementer, PairedReverseComplementer, PairedAdapterCutter, PairedEndModifierWrapper)
from cutadapt.report import Statistics
from cutadapt.info import ModificationInfo

PROPERTY = "C20"
ENGINE = "crosshair"

_PARAM = {}

FWD_ALPHABET = "ACac"
R1_TEXT = "CAAC"      # reverse complement GTTG = R2 of the pairs: disjoint alphabets, adjacent bases C, A / G, T
R2_TEXT = "GTTG"
ADJ_TEXT = "NACGT"    # direct add_match conditions: every adjacent-base case (none, other, A, C, G, T)
BIG = 99


def set_param(p):
    _PARAM.clear()
    _PARAM.update(p or {})


def _conc(x, lo, hi):
    """Identity on lo..hi that hands back a concrete int (one explicit two-way fork per value)."""
    for v in range(lo, hi):
        if x == v:
            return v
    return hi


# ---------------------------------------------------------------------------------- adapters with programmed match_to
class _Programmed:
    """match_to answers from a programme {'f': [outcome, ...], 'r': [...]} (one list per orientation / mate; a text is
    recognised by its alphabet, an empty text belongs to the orientation seen last).  outcome = None |
    (kind, x, y, score, errors); coordinates are clamped into the text (C01 contract).  kind 'auto' follows the rule of
    'anywhere' adapters: a match that starts at position 0 is a 5' match, every other one a 3' match."""

    def program(self, prog, shared=None):
        self.prog = {"f": list(prog.get("f", [])), "r": list(prog.get("r", []))}
        self.count = {"f": 0, "r": 0}
        self.calls = []
        self.shared = {"cur": "f"} if shared is None else shared
        return self

    def match_to(self, sequence):
        if len(sequence) > 0:
            self.shared["cur"] = "f" if sequence[0] in FWD_ALPHABET else "r"
        o = self.shared["cur"]
        k = self.count[o]
        self.count[o] = k + 1
        self.calls.append((o, sequence))
        outs = self.prog[o]
        if k >= len(outs) or outs[k] is None:
            return None
        kind, x, y, score, errors = outs[k]
        n = len(sequence)
        rstart = clamp(x, 0, n)
        rstop = clamp(y, rstart, n)
        if kind == "auto":
            kind = "before" if rstart == 0 else "after"
        cls = RemoveBeforeMatch if kind == "before" else RemoveAfterMatch
        return cls(0, len(self.sequence), rstart, rstop, score, errors, adapter=self, sequence=sequence)


class FrontStub(_Programmed, FrontAdapter):
    pass


class BackStub(_Programmed, BackAdapter):
    pass


class AnywhereStub(_Programmed, AnywhereAdapter):
    pass


# real adapter objects, built natively at import time (their constructors create compiled aligners); every check
# re-programmes the ones it uses and asks them for fresh statistics objects
_F = [FrontStub("ACGT", name="front%d" % i).program({}) for i in range(3)]
_B = [BackStub("TTGCA", name="back%d" % i).program({}) for i in range(3)]
_A = [AnywhereStub("GATC", name="any%d" % i).program({}) for i in range(2)]
_LF = FrontStub("ACG", name="lf").program({})
_LB = BackStub("TGCA", name="lb").program({})


def _after(c, score, errors):
    return ("after", c, BIG, score, errors)


def _before(c, score, errors):
    return ("before", 0, c, score, errors)


# ---------------------------------------------------------------------------------- tallies
def _snapshot(stats):
    """What the report is made from: per end {(length, errors): count} without empty cells, adjacent bases, rc counter."""
    ends = []
    for end in stats.end_statistics():
        if end is None:
            ends.append(None)
            continue
        cells = {}
        for length, by_errors in end.errors.items():
            for errors, count in by_errors.items():
                if count != 0:
                    cells[(length, errors)] = count
        ends.append((cells, dict(end.adjacent_bases)))
    return ends, stats.reverse_complemented


def _empty_model(stats):
    ends = []
    for end in stats.end_statistics():
        ends.append(None if end is None else ({}, {"A": 0, "C": 0, "G": 0, "T": 0, "": 0}))
    return [ends, 0]


def _seed(stats, model, end_index, length, errors, count, bases=None, rc=0):
    """Put a pre-state into the real object and into the model."""
    end = stats.end_statistics()[end_index]
    end.errors[length][errors] += count
    cells, adj = model[0][end_index]
    cells[(length, errors)] = cells.get((length, errors), 0) + count
    if bases is not None:
        for b, c in zip(("A", "C", "G", "T", ""), bases):
            end.adjacent_bases[b] += c
            adj[b] = adj[b] + c
    stats.reverse_complemented += rc
    model[1] = model[1] + rc


def _tally_single(model, m, is_rc, end_index=None):
    """Advance the model by one applied single match (reference from the statement)."""
    if isinstance(m, RemoveBeforeMatch):
        idx = 0 if end_index is None else end_index
        removed = m.rstop                                  # everything up to the end of the match
        adjacent = None
    else:
        idx = 1 if end_index is None else end_index
        removed = len(m.sequence) - m.rstart               # from the start of the match to the end
        adjacent = m.sequence[m.rstart - 1] if m.rstart > 0 else ""
    if model[0][idx] is None:
        return False
    cells, adj = model[0][idx]
    cells[(removed, m.errors)] = cells.get((removed, m.errors), 0) + 1
    if adjacent is not None:
        key = adjacent if adjacent in ("A", "C", "G", "T") else ""
        adj[key] = adj[key] + 1
    return True


def _tally(model, m, is_rc):
    if isinstance(m, LinkedMatch):
        for part in (m.front_match, m.back_match):
            if part is not None and not _tally_single(model, part, is_rc):
                return False
    elif not _tally_single(model, m, is_rc):
        return False
    if is_rc:
        model[1] = model[1] + 1
    return True


def _same(stats, model):
    ends, rc = _snapshot(stats)
    return ends == model[0] and rc == model[1]


def _removed_total(matches):
    total = 0
    for m in matches:
        for part in ((m.front_match, m.back_match) if isinstance(m, LinkedMatch) else (m,)):
            if part is None:
                continue
            total += part.rstop if isinstance(part, RemoveBeforeMatch) else len(part.sequence) - part.rstart
    return total


# ---------------------------------------------------------------------------------- 1. add_match on the four statistics classes
def _l1_ok(l1):
    """quick tier: the length of the second pre-state cell is pinned to 1; thorough tier: symbolic like the first one"""
    return True if _PARAM.get("l1_symbolic") else l1 == 1


def check_add_match(rs: int, re: int, me: int, is5: bool, l0: int, e0: int, k0: int, l1: int, k1: int, k2: int,
                    a0: int, a1: int, a2: int, a3: int, a4: int, r0: int) -> bool:
    """
    pre: 0 <= rs <= re <= 5 and 0 <= me <= 1
    pre: 0 <= l0 <= 5 and 0 <= e0 <= 1 and 1 <= k0 <= 9 and 0 <= l1 <= 5 and 1 <= k1 <= 9 and 1 <= k2 <= 9
    pre: 0 <= a0 <= 9 and 0 <= a1 <= 9 and 0 <= a2 <= 9 and 0 <= a3 <= 9 and 0 <= a4 <= 9 and 0 <= r0 <= 9
    pre: _l1_ok(l1)
    post: _
    """
    kind = _PARAM.get("kind", "back")       # 'front' | 'back' | 'anywhere'
    seq = ADJ_TEXT
    n = len(seq)
    rs = _conc(rs, 0, n)
    re = _conc(re, 0, n)
    me = _conc(me, 0, 1)
    l0 = _conc(l0, 0, n)
    e0 = _conc(e0, 0, 1)
    l1 = _conc(l1, 0, n)
    adapter = {"front": _F[0], "back": _B[0], "anywhere": _A[0]}[kind]
    stats = adapter.create_statistics()
    model = _empty_model(stats)
    bases = (a0, a1, a2, a3, a4)
    if kind == "front":
        is5 = True                              # a 5' adapter only produces 5' matches (the symbolic flag is not used)
        if not isinstance(stats, FrontAdapterStatistics):
            return False
        _seed(stats, model, 0, l0, e0, k0, bases, r0)
        _seed(stats, model, 0, l1, 0, k1)
        _seed(stats, model, 0, 2, 1, k2)
    elif kind == "back":
        is5 = False
        if not isinstance(stats, BackAdapterStatistics):
            return False
        _seed(stats, model, 1, l0, e0, k0, bases, r0)
        _seed(stats, model, 1, l1, 0, k1)
        _seed(stats, model, 1, 2, 1, k2)
    else:
        is5 = True if is5 else False
        if not isinstance(stats, AnywhereAdapterStatistics):
            return False
        _seed(stats, model, 0, l0, e0, k0, None, r0)
        _seed(stats, model, 1, l1, 0, k1, bases)
        _seed(stats, model, 1 if is5 else 0, 2, 1, k2)
    cls = RemoveBeforeMatch if is5 else RemoveAfterMatch
    m = cls(0, len(adapter.sequence), rs, re, 3, me, adapter=adapter, sequence=seq)
    stats.add_match(m)
    if not _tally(model, m, False):
        return False
    return _same(stats, model)


def _pinned(x, value, group):
    """Groups of inputs that are symbolic only in some conditions (param 'symbolic'); elsewhere they are pinned."""
    return True if group in _PARAM.get("symbolic", ()) else x == value


def check_add_match_linked(fs: int, fe: int, fme: int, bs: int, be: int, bme: int, l0: int, e0: int, k0: int, l1: int, e1: int, k1: int,
                           a0: int, a1: int, a2: int, a3: int, a4: int) -> bool:
    """
    pre: 0 <= fs <= fe <= 5 and 0 <= fme <= 1 and 0 <= bs <= be <= 5 and 0 <= bme <= 1
    pre: 0 <= l0 <= 5 and 0 <= e0 <= 1 and 1 <= k0 <= 9 and 0 <= l1 <= 5 and 0 <= e1 <= 1 and 1 <= k1 <= 9
    pre: 0 <= a0 <= 9 and 0 <= a1 <= 9 and 0 <= a2 <= 9 and 0 <= a3 <= 9 and 0 <= a4 <= 9
    pre: _pinned(fs, 0, "coords") and _pinned(be, 5, "coords") and _pinned(l0, 2, "cell0") and _pinned(e0, 0, "cell0") and _pinned(l1, 1, "cell1") and _pinned(e1, 1, "cell1")
    post: _
    """
    fp = _PARAM.get("front", True)
    bp = _PARAM.get("back", True)
    seq = ADJ_TEXT
    n = len(seq)
    linked = LinkedAdapter(_LF, _LB, front_required=fp, back_required=bp, name="linked")
    stats = linked.create_statistics()
    if not isinstance(stats, LinkedAdapterStatistics):
        return False
    model = _empty_model(stats)
    _seed(stats, model, 0, _conc(l0, 0, n), _conc(e0, 0, 1), k0)
    _seed(stats, model, 1, _conc(l1, 0, n), _conc(e1, 0, 1), k1, (a0, a1, a2, a3, a4))
    front = back = None
    rest = seq
    if fp:
        fs = _conc(fs, 0, n)
        fe = _conc(fe, 0, n)
        front = RemoveBeforeMatch(0, 3, fs, fe, 2, _conc(fme, 0, 1), adapter=_LF, sequence=seq)
        rest = seq[fe:]
    if bp:
        # the 3' part is found in what the 5' part left
        bs = clamp(_conc(bs, 0, n), 0, len(rest))
        be = clamp(_conc(be, 0, n), bs, len(rest))
        back = RemoveAfterMatch(0, 4, bs, be, 2, _conc(bme, 0, 1), adapter=_LB, sequence=rest)
    m = LinkedMatch(front, back, linked)
    stats.add_match(m)
    if not _tally(model, m, False):
        return False
    return _same(stats, model)


# ---------------------------------------------------------------------------------- 2. AdapterCutter.__call__ and the collection into the report
def check_cutter(c0: int, c1: int, c2: int, me0: int, me1: int, me2: int, l0: int, e0: int, k0: int, w0: int) -> bool:
    """
    pre: 0 <= c0 <= 4 and 0 <= c1 <= 4 and 0 <= c2 <= 4 and 0 <= me0 <= 1 and 0 <= me1 <= 1 and 0 <= me2 <= 1
    pre: 0 <= l0 <= 4 and 0 <= e0 <= 1 and 1 <= k0 <= 9 and 0 <= w0 <= 9
    pre: _pinned(l0, 1, "cell") and _pinned(e0, 0, "cell")
    pre: _pinned(me1, 1, "errors") and _pinned(me2, 0, "errors")
    post: _
    """
    shape = _PARAM.get("shape", "front_back")
    times = _PARAM.get("times", 2)
    seq = R1_TEXT
    n = len(seq)
    c = [c0, c1, c2]
    me = [me0, me1, me2]
    used = _PARAM.get("used", (True, True, True))
    for i in range(3):
        if used[i]:
            c[i] = _conc(c[i], 0, n)
            me[i] = _conc(me[i], 0, 1)
    l0 = _conc(l0, 0, n)
    e0 = _conc(e0, 0, 1)
    if shape == "front_back":
        # round 1: the 5' adapter wins (score 2 against 1), round 2: only the 3' adapter answers
        a, b = _F[0], _B[0]
        a.program({"f": [_before(c[0], 2, me[0]), None]})
        b.program({"f": [_after(c[1], 1, me[1]), _after(c[2], 1, me[2])]})
        adapters = [a, b]
        seeded = (1, 1)      # (adapter index, end index) that receives the pre-state
    elif shape == "anywhere_linked":
        # round 1: the 'anywhere' adapter wins, as a 5' or as a 3' match depending on where it starts; round 2: the linked adapter
        shared = {"cur": "f"}
        a = _A[0].program({"f": [("auto", c[0], BIG if c[0] > 0 else 1, 5, me[0]), None]})
        _LF.program({"f": [None, _before(c[1], 1, me[1])]}, shared)
        _LB.program({"f": [_after(c[2], 1, me[2])]}, shared)
        b = LinkedAdapter(_LF, _LB, front_required=True, back_required=True, name="linked")
        adapters = [a, b]
        seeded = (0, 1 if c[0] > 0 else 0)
    else:
        return False
    cutter = AdapterCutter(adapters, times=times, action=_PARAM.get("action", "trim"), index=False)
    cutter.with_adapters = w0
    stats = [cutter.adapter_statistics[x] for x in adapters]
    models = [_empty_model(s) for s in stats]
    _seed(stats[seeded[0]], models[seeded[0]], seeded[1], l0, e0, k0)
    read = Rec("r", seq, "abcd")
    info = ModificationInfo(read)
    out = cutter(read, info)
    applied = list(info.matches)
    for m in applied:
        i = adapters.index(m.adapter)
        if not _tally(models[i], m, False):
            return False
    if _PARAM.get("action", "trim") == "trim" and len(seq) - len(out.sequence) != _removed_total(applied):
        return False           # the matches counted as applied are the ones that shortened the read
    if len(applied) != _PARAM.get("expect_matches", len(applied)):
        return False
    if cutter.with_adapters != w0 + (1 if applied else 0):
        return False
    if not all(_same(s, m) for s, m in zip(stats, models)):
        return False
    # what the report collects
    st = Statistics()
    st._collect_modifier(cutter)
    return (st.with_adapters[0] == cutter.with_adapters and st.with_adapters[1] is None and st.adapter_stats[1] == []
            and len(st.adapter_stats[0]) == 2 and st.adapter_stats[0][0] is stats[0] and st.adapter_stats[0][1] is stats[1]
            and st.reverse_complemented is None)


# ---------------------------------------------------------------------------------- 3. --revcomp: registration after the orientation decision
def check_revcomp(c0: int, c1: int, s0: int, s1: int, me0: int, me1: int, l0: int, e0: int, k0: int, w0: int, r0: int, n0: int) -> bool:
    """
    pre: 0 <= c0 <= 4 and 0 <= c1 <= 4 and 0 <= s0 <= 3 and 0 <= s1 <= 3 and 0 <= me0 <= 1 and 0 <= me1 <= 1
    pre: 0 <= l0 <= 4 and 0 <= e0 <= 1 and 1 <= k0 <= 9 and 0 <= w0 <= 9 and 0 <= r0 <= 9 and 0 <= n0 <= 9
    pre: _pinned(l0, 1, "cell") and _pinned(e0, 0, "cell")
    post: _
    """
    present = _PARAM.get("present", (True, True))      # forward match present, reverse-complement match present
    kind = _PARAM.get("kind", "back")
    seq = R1_TEXT
    n = len(seq)
    l0 = _conc(l0, 0, n)
    e0 = _conc(e0, 0, 1)
    outs = []
    for i, (cc, ss, ee) in enumerate(((c0, s0, me0), (c1, s1, me1))):
        if not present[i]:
            outs.append(None)
            continue
        cc = _conc(cc, 0, n)
        ee = _conc(ee, 0, 1)
        if kind == "back":
            outs.append(_after(cc, ss, ee))
        elif kind == "front":
            outs.append(_before(cc, ss, ee))
        else:
            outs.append(("auto", cc, BIG if cc > 0 else 1, ss, ee))
    adapter = {"back": _B[0], "front": _F[0], "anywhere": _A[0]}[kind]
    adapter.program({"f": [outs[0]], "r": [outs[1]]})
    cutter = AdapterCutter([adapter], times=1, action="trim", index=False)
    cutter.with_adapters = w0
    rcm = ReverseComplementer(cutter)
    rcm.reverse_complemented = n0
    stats = cutter.adapter_statistics[adapter]
    model = _empty_model(stats)
    seeded_end = 0 if kind == "front" else 1
    _seed(stats, model, seeded_end, l0, e0, k0, None, r0)
    read = Rec("r", seq, "abcd")
    info = ModificationInfo(read)
    out = rcm(read, info)
    applied = list(info.matches)
    is_rc = True if info.is_rc else False
    want_text = revcomp(seq) if is_rc else seq
    for m in applied:
        if m.sequence != want_text:
            return False       # the applied matches are matches on the orientation that was chosen
        if not _tally(model, m, is_rc):
            return False
    if len(seq) - len(out.sequence) != _removed_total(applied):
        return False
    if cutter.with_adapters != w0 + (1 if applied else 0) or rcm.reverse_complemented != n0 + (1 if is_rc else 0):
        return False
    if not _same(stats, model):
        return False
    st = Statistics()
    st._collect_modifier(rcm)
    return (st.with_adapters[0] == cutter.with_adapters and st.adapter_stats[0] == [stats] and st.adapter_stats[1] == []
            and st.with_adapters[1] is None and st.reverse_complemented == rcm.reverse_complemented)


def check_revcomp_rounds(c0: int, c1: int, s0: int, s1: int, me0: int, me1: int, r0: int, r1: int, n0: int, second: int) -> bool:
    """
    pre: 0 <= c0 <= 4 and 0 <= c1 <= 4 and 1 <= s0 <= 3 and 1 <= s1 <= 3 and 0 <= me0 <= 1 and 0 <= me1 <= 1
    pre: 0 <= r0 <= 9 and 0 <= r1 <= 9 and 0 <= n0 <= 9 and 0 <= second <= 1
    post: _
    """
    # --revcomp --times 2: two matches are applied on the reverse complement, in round 1 by adapter A, in round 2 by adapter
    # A again (second == 0) or by adapter B (second == 1).  Every applied match is one match of ITS adapter on the reverse
    # complement: each adapter's tallies (incl. its reverse-complement counter) move by exactly its own applied matches.
    seq = R1_TEXT
    n = len(seq)
    second = _conc(second, 0, 1)
    o0 = _after(_conc(c0, 0, n), s0, _conc(me0, 0, 1))
    o1 = _after(_conc(c1, 0, n), s1, _conc(me1, 0, 1))
    a, b = _B[0], _B[1]
    shared = {"cur": "f"}
    if second == 0:
        a.program({"f": [None], "r": [o0, o1]}, shared)
        b.program({"f": [None], "r": [None, None]}, shared)
    else:
        a.program({"f": [None], "r": [o0, None]}, shared)
        b.program({"f": [None], "r": [None, o1]}, shared)
    cutter = AdapterCutter([a, b], times=2, action="trim", index=False)
    rcm = ReverseComplementer(cutter)
    rcm.reverse_complemented = n0
    stats = [cutter.adapter_statistics[a], cutter.adapter_statistics[b]]
    models = [_empty_model(stats[0]), _empty_model(stats[1])]
    _seed(stats[0], models[0], 1, 1, 0, 1, None, r0)
    _seed(stats[1], models[1], 1, 1, 0, 1, None, r1)
    read = Rec("r", seq, "abcd")
    info = ModificationInfo(read)
    out = rcm(read, info)
    applied = list(info.matches)
    if len(applied) != 2 or not info.is_rc:
        return False                                   # two matches with positive scores against none: the reverse complement is used
    for m in applied:
        if m.sequence[:0] != "" or not (m.adapter is a or m.adapter is b):
            return False
        if not _tally(models[0 if m.adapter is a else 1], m, True):
            return False
    if rcm.reverse_complemented != n0 + 1:
        return False                                   # the read counts once
    return _same(stats[0], models[0]) and _same(stats[1], models[1])


def check_paired_revcomp(c0: int, c1: int, c2: int, c3: int, s0: int, s1: int, s2: int, s3: int, me: int, l0: int, e0: int, k0: int, w0: int, w1: int, r0: int) -> bool:
    """
    pre: 0 <= c0 <= 4 and 0 <= c1 <= 4 and 0 <= c2 <= 4 and 0 <= c3 <= 4 and 0 <= me <= 1
    pre: 0 <= s0 <= 3 and 0 <= s1 <= 3 and 0 <= s2 <= 3 and 0 <= s3 <= 3
    pre: 0 <= l0 <= 4 and 0 <= e0 <= 1 and 1 <= k0 <= 9 and 0 <= w0 <= 9 and 0 <= w1 <= 9 and 0 <= r0 <= 9
    pre: _pinned(l0, 1, "cell") and _pinned(e0, 0, "cell")
    pre: _pinned(c1, 1, "r2_cuts") and _pinned(c3, 2, "r2_cuts")
    post: _
    """
    present = _PARAM.get("present", (True, True, True, True))   # cutter1 on R1, cutter2 on R2, cutter1 on R2, cutter2 on R1
    n = len(R1_TEXT)
    l0 = _conc(l0, 0, n)
    e0 = _conc(e0, 0, 1)
    me = _conc(me, 0, 1)
    cs = [c0, c1, c2, c3]
    ss = [s0, s1, s2, s3]
    o = []
    for i in range(4):
        if present[i]:
            cc = _conc(cs[i], 0, n)
            o.append(_after(cc, ss[i], me) if i in (0, 2) else _before(cc, ss[i], 1 - me))
        else:
            o.append(None)
    a1 = _B[1].program({"f": [o[0]], "r": [o[2]]})     # R1 adapter (3'): sees R1 as given and R2 when swapped
    a2 = _F[1].program({"r": [o[1]], "f": [o[3]]})     # R2 adapter (5')
    cut1 = AdapterCutter([a1], times=1, action="trim", index=False)
    cut2 = AdapterCutter([a2], times=1, action="trim", index=False)
    cut1.with_adapters = w0
    cut2.with_adapters = w1
    prc = PairedReverseComplementer(cut1, cut2)
    st1, st2 = cut1.adapter_statistics[a1], cut2.adapter_statistics[a2]
    m1, m2 = _empty_model(st1), _empty_model(st2)
    _seed(st1, m1, 1, l0, e0, k0, None, r0)
    _seed(st2, m2, 0, l0, 1 - e0, k0)
    r1, r2 = Rec("p/1", R1_TEXT, "abcd"), Rec("p/2", R2_TEXT, "efgh")
    info1, info2 = ModificationInfo(r1), ModificationInfo(r2)
    o1, o2 = prc(r1, r2, info1, info2)
    is_rc = True if info1.is_rc else False
    if (True if info2.is_rc else False) != is_rc:
        return False
    # R1 of the output is what cutter 1 trimmed: R1 as given, or R2 if the pair was swapped (R2 accordingly)
    text1, text2 = (R2_TEXT, R1_TEXT) if is_rc else (R1_TEXT, R2_TEXT)
    for m in info1.matches:
        if m.sequence != text1 or m.adapter is not a1 or not _tally(m1, m, is_rc):
            return False
    for m in info2.matches:
        if m.sequence != text2 or m.adapter is not a2 or not _tally(m2, m, is_rc):
            return False
    if len(text1) - len(o1.sequence) != _removed_total(info1.matches) or len(text2) - len(o2.sequence) != _removed_total(info2.matches):
        return False
    if cut1.with_adapters != w0 + (1 if info1.matches else 0) or cut2.with_adapters != w1 + (1 if info2.matches else 0):
        return False
    if not _same(st1, m1) or not _same(st2, m2):
        return False       # R1 and R2 separately; nothing from the arrangement that was not chosen
    st = Statistics()
    st._collect_modifier(prc)
    return (st.with_adapters[0] == cut1.with_adapters and st.with_adapters[1] == cut2.with_adapters and st.adapter_stats[0] == [st1]
            and st.adapter_stats[1] == [st2] and st.reverse_complemented == prc.reverse_complemented == (1 if is_rc else 0))


# ---------------------------------------------------------------------------------- 4. --pair-adapters and plain paired-end trimming
def check_pair_adapters(c0: int, c1: int, c2: int, c3: int, s0: int, s1: int, me0: int, me1: int, l0: int, e0: int, k0: int, w0: int) -> bool:
    """
    pre: 0 <= c0 <= 4 and 0 <= c1 <= 4 and 0 <= c2 <= 4 and 0 <= c3 <= 4 and 0 <= me0 <= 1 and 0 <= me1 <= 1
    pre: 0 <= s0 <= 3 and 0 <= s1 <= 3
    pre: 0 <= l0 <= 4 and 0 <= e0 <= 1 and 1 <= k0 <= 9 and 0 <= w0 <= 9
    pre: _pinned(l0, 1, "cell") and _pinned(e0, 0, "cell")
    pre: _pinned(c1, 1, "r2_cuts") and _pinned(c3, 2, "r2_cuts")
    post: _
    """
    present = _PARAM.get("present", (True, True, True, True))   # pair 0 on R1, pair 0 on R2, pair 1 on R1, pair 1 on R2
    n = len(R1_TEXT)
    l0 = _conc(l0, 0, n)
    e0 = _conc(e0, 0, 1)
    cs = [c0, c1, c2, c3]
    # total score of pair 0 is s0 + 1, of pair 1 is s1 + 1; errors me0 + 0 resp. me1 + 0 (tie-break of the pair choice)
    score = [s0, 1, s1, 1]
    errs = [me0, 0, me1, 0]
    o = []
    for i in range(4):
        if present[i]:
            cc = _conc(cs[i], 0, n)
            ee = _conc(errs[i], 0, 1) if i in (0, 2) else 0
            o.append(_after(cc, score[i], ee) if i in (0, 2) else _before(cc, score[i], ee))
        else:
            o.append(None)
    a = [_B[0].program({"f": [o[0]]}), _B[1].program({"f": [o[2]]})]          # R1 adapters (3')
    b = [_F[0].program({"r": [o[1]]}), _F[1].program({"r": [o[3]]})]          # R2 adapters (5')
    pac = PairedAdapterCutter(a, b, action=_PARAM.get("action", "trim"))
    pac.with_adapters = w0
    sts1 = [pac.adapter_statistics[0][x] for x in a]
    sts2 = [pac.adapter_statistics[1][x] for x in b]
    ms1 = [_empty_model(s) for s in sts1]
    ms2 = [_empty_model(s) for s in sts2]
    for s, m in zip(sts1, ms1):
        _seed(s, m, 1, l0, e0, k0)
    for s, m in zip(sts2, ms2):
        _seed(s, m, 0, l0, e0, k0)
    r1, r2 = Rec("p/1", R1_TEXT, "abcd"), Rec("p/2", R2_TEXT, "efgh")
    info1, info2 = ModificationInfo(r1), ModificationInfo(r2)
    o1, o2 = pac(r1, r2, info1, info2)
    if len(info1.matches) != len(info2.matches) or len(info1.matches) > 1:
        return False
    for m in info1.matches:
        if not _tally(ms1[a.index(m.adapter)], m, False):
            return False
    for m in info2.matches:
        if not _tally(ms2[b.index(m.adapter)], m, False):
            return False
    if info1.matches and a.index(info1.matches[0].adapter) != b.index(info2.matches[0].adapter):
        return False       # the two applied matches belong to the same pair of adapters
    if _PARAM.get("action", "trim") == "trim":
        if len(R1_TEXT) - len(o1.sequence) != _removed_total(info1.matches) or len(R2_TEXT) - len(o2.sequence) != _removed_total(info2.matches):
            return False
    if pac.with_adapters != w0 + (1 if info1.matches else 0):
        return False
    if not all(_same(s, m) for s, m in zip(sts1 + sts2, ms1 + ms2)):
        return False
    st = Statistics()
    st._collect_modifier(pac)
    return (st.with_adapters[0] == pac.with_adapters and st.with_adapters[1] == pac.with_adapters
            and st.adapter_stats[0] == sts1 and st.adapter_stats[1] == sts2)


def check_paired_plain(c0: int, c1: int, me0: int, me1: int, l0: int, e0: int, k0: int, w0: int, w1: int) -> bool:
    """
    pre: 0 <= c0 <= 4 and 0 <= c1 <= 4 and 0 <= me0 <= 1 and 0 <= me1 <= 1
    pre: 0 <= l0 <= 4 and 0 <= e0 <= 1 and 1 <= k0 <= 9 and 0 <= w0 <= 9 and 0 <= w1 <= 9
    pre: _pinned(l0, 1, "cell") and _pinned(e0, 0, "cell")
    post: _
    """
    present = _PARAM.get("present", (True, True))
    which = _PARAM.get("cutters", "both")
    n = len(R1_TEXT)
    l0 = _conc(l0, 0, n)
    e0 = _conc(e0, 0, 1)
    o0 = _after(_conc(c0, 0, n), 1, _conc(me0, 0, 1)) if present[0] and which != "only2" else None
    o1 = None
    if present[1] and which != "only1":
        cc1 = _conc(c1, 0, n)
        o1 = ("auto", cc1, BIG if cc1 > 0 else 1, 1, _conc(me1, 0, 1))
    a1 = _B[0].program({"f": [o0]})
    a2 = _A[0].program({"r": [o1]})
    cut1 = AdapterCutter([a1], times=1, action="trim", index=False) if which != "only2" else None
    cut2 = AdapterCutter([a2], times=1, action="trim", index=False) if which != "only1" else None
    wrapper = PairedEndModifierWrapper(cut1, cut2)
    r1, r2 = Rec("p/1", R1_TEXT, "abcd"), Rec("p/2", R2_TEXT, "efgh")
    info1, info2 = ModificationInfo(r1), ModificationInfo(r2)
    pairs = []
    for cut, adapter, w, seeded_end in ((cut1, a1, w0, 1), (cut2, a2, w1, 1)):
        if cut is None:
            pairs.append(None)
            continue
        cut.with_adapters = w
        s = cut.adapter_statistics[adapter]
        m = _empty_model(s)
        _seed(s, m, seeded_end, l0, e0, k0)
        pairs.append((s, m))
    o1_, o2_ = wrapper(r1, r2, info1, info2)
    for info, pm, text, out in ((info1, pairs[0], R1_TEXT, o1_), (info2, pairs[1], R2_TEXT, o2_)):
        if pm is None:
            if info.matches or out.sequence != text:
                return False
            continue
        for m in info.matches:
            if m.sequence != text or not _tally(pm[1], m, False):
                return False
        if len(text) - len(out.sequence) != _removed_total(info.matches) or not _same(pm[0], pm[1]):
            return False
    st = Statistics()
    st._collect_modifier(wrapper)
    ok = True
    for i, (cut, pm, w, info) in enumerate(((cut1, pairs[0], w0, info1), (cut2, pairs[1], w1, info2))):
        if cut is None:
            ok = ok and st.with_adapters[i] is None and st.adapter_stats[i] == []
        else:
            ok = ok and st.with_adapters[i] == w + (1 if info.matches else 0) and st.adapter_stats[i] == [pm[0]]
    return ok and st.reverse_complemented is None


# ---------------------------------------------------------------------------------- conditions
import itertools as _it

CONDITIONS = []
for _kind in ("front", "back", "anywhere"):
    CONDITIONS.append({"name": "add_match/%s" % _kind, "fn": "check_add_match", "param": {"kind": _kind}, "timeout": 900})
    CONDITIONS.append({"name": "add_match/%s/second_cell_symbolic" % _kind, "fn": "check_add_match", "param": {"kind": _kind, "l1_symbolic": True}, "timeout": 3000, "thorough_only": True})
for _fp, _bp in ((True, True), (True, False), (False, True)):
    # both parts: the coordinates that do not enter the tallies (start of the 5' part, end of the 3' part) and the cells of the pre-state are pinned,
    # the counts stay symbolic; one part: all coordinates and the cell of that end symbolic
    _sym = () if _fp and _bp else (("coords", "cell0") if _fp else ("coords", "cell1"))
    CONDITIONS.append({"name": "add_match/linked/front=%s/back=%s" % (_fp, _bp), "fn": "check_add_match_linked", "param": {"front": _fp, "back": _bp, "symbolic": _sym}, "timeout": 900})
CONDITIONS.append({"name": "add_match/linked/front=True/back=True/cell0_symbolic", "fn": "check_add_match_linked", "param": {"front": True, "back": True, "symbolic": ("cell0",)}, "timeout": 3000, "thorough_only": True})
CONDITIONS.append({"name": "add_match/linked/front=True/back=True/coords_symbolic", "fn": "check_add_match_linked", "param": {"front": True, "back": True, "symbolic": ("coords",)}, "timeout": 3000, "thorough_only": True})
CONDITIONS.append({"name": "cutter/front_back/times=2", "fn": "check_cutter", "param": {"shape": "front_back", "times": 2, "expect_matches": 2}, "timeout": 600})
CONDITIONS.append({"name": "cutter/front_back/times=1", "fn": "check_cutter", "param": {"shape": "front_back", "times": 1, "expect_matches": 1, "used": (True, True, False)}, "timeout": 600})
CONDITIONS.append({"name": "cutter/front_back/times=2/mask", "fn": "check_cutter", "param": {"shape": "front_back", "times": 2, "expect_matches": 2, "action": "mask"}, "timeout": 600})
CONDITIONS.append({"name": "cutter/anywhere_linked/times=2", "fn": "check_cutter", "param": {"shape": "anywhere_linked", "times": 2, "expect_matches": 2}, "timeout": 600})
CONDITIONS.append({"name": "cutter/front_back/times=2/cell_and_errors_symbolic", "fn": "check_cutter", "param": {"shape": "front_back", "times": 2, "expect_matches": 2, "symbolic": ("cell", "errors")}, "timeout": 3000, "thorough_only": True})
CONDITIONS.append({"name": "revcomp/back/present=11/cell_symbolic", "fn": "check_revcomp", "param": {"kind": "back", "present": (True, True), "symbolic": ("cell",)}, "timeout": 3000, "thorough_only": True})
CONDITIONS.append({"name": "paired_revcomp/present=1111/r2_cuts_symbolic", "fn": "check_paired_revcomp", "param": {"present": (True, True, True, True), "symbolic": ("r2_cuts",)}, "timeout": 3000, "thorough_only": True})
CONDITIONS.append({"name": "pair_adapters/present=1111/r2_cuts_symbolic", "fn": "check_pair_adapters", "param": {"present": (True, True, True, True), "symbolic": ("r2_cuts",)}, "timeout": 3000, "thorough_only": True})
for _kind in ("back", "front", "anywhere"):
    for _pres in ((True, True), (False, True), (True, False), (False, False)):
        if _kind != "back" and _pres in ((False, False),):
            continue
        CONDITIONS.append({"name": "revcomp/%s/present=%s" % (_kind, "".join("1" if x else "0" for x in _pres)), "fn": "check_revcomp", "param": {"kind": _kind, "present": _pres}, "timeout": 600})
CONDITIONS.append({"name": "revcomp/two_rounds/two_adapters", "fn": "check_revcomp_rounds", "param": {}, "timeout": 900})
for _pres in _it.product((False, True), repeat=4):
    CONDITIONS.append({"name": "paired_revcomp/present=%s" % "".join("1" if x else "0" for x in _pres), "fn": "check_paired_revcomp", "param": {"present": _pres}, "timeout": 900,
                       "thorough_only": sum(_pres) in (1, 3) and _pres not in ((True, True, True, False), (False, False, True, False), (True, False, False, False))})
for _pres in _it.product((False, True), repeat=4):
    CONDITIONS.append({"name": "pair_adapters/present=%s" % "".join("1" if x else "0" for x in _pres), "fn": "check_pair_adapters", "param": {"present": _pres}, "timeout": 900,
                       "thorough_only": _pres not in ((True, True, True, True), (True, True, False, False), (False, False, True, True), (True, False, True, True), (True, True, False, True), (True, False, False, True), (False, False, False, False))})
CONDITIONS.append({"name": "pair_adapters/present=1111/mask", "fn": "check_pair_adapters", "param": {"present": (True, True, True, True), "action": "mask"}, "timeout": 900})
for _which in ("both", "only1", "only2"):
    for _pres in ((True, True), (True, False), (False, True)):
        if _which != "both" and _pres != (True, True):
            continue
        CONDITIONS.append({"name": "paired_plain/%s/present=%s" % (_which, "".join("1" if x else "0" for x in _pres)), "fn": "check_paired_plain", "param": {"cutters": _which, "present": _pres}, "timeout": 600})


def describe():
    return {
        "functions": ["adapters.py:EndStatistics.__init__", "adapters.py:FrontAdapterStatistics.add_match", "adapters.py:BackAdapterStatistics.add_match", "adapters.py:AnywhereAdapterStatistics.add_match",
                      "adapters.py:LinkedAdapterStatistics.add_match", "adapters.py:RemoveBeforeMatch/RemoveAfterMatch.removed_sequence_length/adjacent_base", "adapters.py:LinkedAdapter.match_to/create_statistics",
                      "modifiers.py:AdapterCutter.__call__", "modifiers.py:ReverseComplementer.__call__", "modifiers.py:PairedReverseComplementer.__call__", "modifiers.py:PairedAdapterCutter.__call__/_find_best_match_pair",
                      "modifiers.py:PairedEndModifierWrapper.__call__", "report.py:Statistics._collect_modifier", "report.py:ErrorRanges (floating point; harness.c20_error_ranges, engine symx, added separately)"],
        "bounds": {"read": "add_match: fixed text NACGT (adjacent base none/other/A/C/G/T); cutters: CAAC (reverse complement / R2: GTTG)", "match coordinates": "every 0 <= start <= stop <= len (add_match) resp. every cut position 0..4, symbolic",
                   "errors": "0..1 symbolic", "scores": "0..3 symbolic where an orientation or pair is chosen (negative forward scores are C16's known defect)", "rounds": "--times 1 and 2 (under --revcomp: two rounds on the reverse complement by the same adapter or by two different adapters)",
                   "pre-state": "add_match: 3 cells (length, errors, count) per object - one fully symbolic, two at fixed places (thorough: a second one with symbolic length), all counts symbolic; modifiers: one cell at a fixed place with symbolic count (thorough: symbolic place); symbolic adjacent-base counts, reverse-complement counter, with_adapters counters",
                   "pinned in the quick tier": "pair conditions: cut positions of the R2 matches (1 and 2); two-round cutter: error counts of the second and third match",
                   "adapters": "5', 3', anywhere (5' iff the match starts at 0), linked (both parts / one part); two adapters per cutter; two pairs with --pair-adapters"},
        "outside_bounds": ["more than one read per run (the tallies are additive: the pre-state is symbolic)", "several cores (Statistics.__iadd__ merging)", "the text of the report"],
        "stubs": ["FrontStub/BackStub/AnywhereStub: the real adapter classes with match_to replaced by a programme that returns an arbitrary match satisfying the C01 contract (separately for the forward text and its reverse complement / R1 and R2)",
                  "Rec: dnaio.SequenceRecord contract"],
        "assumptions": ["CrossHair's model of str/int/list/dict operations", "only 'Confirmed over all paths' counts as discharged", "applied matches = info.matches, cross-checked against the number of bases the read lost (action trim)"],
        "rule": "one CrossHair condition per (statistics class | modifier, presence of matches per orientation/mate/pair); symbolic: coordinates, error counts, scores, pre-state. non-trivial = conditions with more than one explored path whose reachability twin is refuted",
    }


# ---------------------------------------------------------------------------------- hook: floating-point part (ErrorRanges), engine symx
def _error_ranges_module():
    """HOOK: the ErrorRanges obligations (symx / z3 Float64) are provided by harness.c20_error_ranges when it exists."""
    try:
        return importlib.import_module("harness.c20_error_ranges")
    except ModuleNotFoundError as e:
        if e.name == "harness.c20_error_ranges":
            return None
        raise


def jobs(tier, seed):
    out = e2_jobs(CONDITIONS, tier)
    er = _error_ranges_module()
    if er is not None and hasattr(er, "extra_jobs"):
        for j in er.extra_jobs(tier, seed):
            j = dict(j)
            j.setdefault("engine", "symx")
            out.append(j)
    return out


def run_job(job):
    if job.get("engine") == "symx":
        return _error_ranges_module().run_job(job)
    return e2_run_job(__name__, job)


def replay(cex):
    if isinstance(cex, dict) and cex.get("engine") == "symx":
        return _error_ranges_module().replay(cex)
    return e2_replay(cex)


def known_match(entry, cex):
    er = _error_ranges_module()
    if isinstance(cex, dict) and cex.get("engine") == "symx" and er is not None and hasattr(er, "known_match"):
        return er.known_match(entry, cex)
    return False
