"""C03 - output reads are aligned slices of the input; qualities stay in step.

E2 (CrossHair on the real classes).  Every read-modifying class of cutadapt.modifiers is driven on a record
stand-in (Rec: the dnaio.SequenceRecord contract) and must hand back a contiguous slice read[s:e] of THAT record
with the qualities cut by the same slice.  The interval is the one composed from the step's own inputs (cut length,
--length, kernel return value, match coordinates).  mask / lowercase keep the length and write N / lower case
exactly outside the interval that `trim` would keep (lowercase upper-cases inside), `none` leaves the read as it
was, retain / crop keep the documented interval around the match, zero-cap changes only quality characters below the
base, --revcomp returns a slice of the reverse complement (paired: of the mate's record) when that orientation was
chosen.

Symbolic inputs are ints and bools only (read length, cut lengths, kernel return values, match coordinates, scores,
presence flags); the read text is fixed (mixed case, distinct quality characters so that a slice identifies its
offsets).  Exceptions: NEndTrimmer (regexes) and ZeroCapper (translate) are about characters, they get a symbolic str
of length <= 4 over a small alphabet.  Matches are real RemoveBeforeMatch / RemoveAfterMatch / LinkedMatch objects
produced by StubAdapter / the real LinkedAdapter.match_to; the Cython kernels are replaced by contract stubs.
"""
import itertools as _it

from harness.e2_common import Rec, StubAdapter, StubStats, clamp, revcomp, e2_jobs, e2_run_job, e2_replay

import cutadapt.modifiers as _mods
from cutadapt.adapters import LinkedAdapter, LinkedMatch, RemoveBeforeMatch, RemoveAfterMatch
from cutadapt.info import ModificationInfo
from cutadapt.modifiers import (AdapterCutter, PairedAdapterCutter, UnconditionalCutter, Shortener, NEndTrimmer,
                                QualityTrimmer, NextseqQualityTrimmer, PolyATrimmer, ZeroCapper, ReverseComplementer,
                                PairedReverseComplementer)

PROPERTY = "C03"
ENGINE = "crosshair"

_PARAM = {}

SEQ = "AcgTn"      # default read text: mixed case, every character distinct when case is ignored
QUALS = "!+5?IS"   # distinct quality characters: a slice of the qualities identifies its offsets
SEQ6 = "AcgTnG"    # thorough tier
SEQ2 = "tGNac"     # the mate (paired checks): different text and length
QUALS2 = "#0:FX"


def set_param(p):
    _PARAM.clear()
    _PARAM.update(p or {})


def _n():
    """Length of the (first) read of the current condition; used in preconditions."""
    return len(_PARAM.get("seq", SEQ))


def _n2():
    return len(_PARAM.get("seq2", SEQ2))


def _alpha():
    return _PARAM.get("alphabet", " !5")


def _text(n=None):
    seq = _PARAM.get("seq", SEQ)
    quals = None if _PARAM.get("fasta") else _PARAM.get("quals", QUALS)[:len(seq)]
    if n is not None:
        seq = seq[:n]
        quals = None if quals is None else quals[:n]
    return seq, quals


def _text2():
    seq = _PARAM.get("seq2", SEQ2)
    quals = None if _PARAM.get("fasta") else _PARAM.get("quals2", QUALS2)[:len(seq)]
    return seq, quals


def _fix(v, lo, hi):
    """The same int, concrete: one path per value of the (precondition-bounded) range.  Used where keeping the
    coordinates symbolic makes CrossHair fork inside every string comparison instead (measured: 3800 paths / 210 s
    against a few hundred short ones)."""
    for c in range(lo, hi + 1):
        if v == c:
            return c
    return v


# ------------------------------------------------------------------------------------------ kernel contract stubs
# DESIGN section 5: quality_trim_index -> 0 <= start <= stop <= n or (0, 0); nextseq_trim_index, poly_a_trim_index
# -> 0 <= index <= n.  The value is a symbolic argument of the check (its precondition is the contract); the stub also
# records what it was called with, so that the check can see that the kernel was asked about THIS record.
_K = {"value": None, "calls": []}


def _stub_quality_trim_index(qualities, cutoff_front, cutoff_back, base=33):
    _K["calls"].append(("quality_trim_index", qualities))
    return _K["value"]


def _stub_nextseq_trim_index(sequence, cutoff, base=33):
    _K["calls"].append(("nextseq_trim_index", sequence))
    return _K["value"]


def _stub_poly_a_trim_index(s, revcomp=False):
    _K["calls"].append(("poly_a_trim_index", s, bool(revcomp)))
    return _K["value"]


_mods.quality_trim_index = _stub_quality_trim_index
_mods.nextseq_trim_index = _stub_nextseq_trim_index
_mods.poly_a_trim_index = _stub_poly_a_trim_index


def _kernel(value):
    _K["value"] = value
    _K["calls"] = []


class _Linked(LinkedAdapter):
    """The real LinkedAdapter (match_to builds the real LinkedMatch); only the statistics object is a stub because
    EndStatistics wants SingleAdapter attributes that a StubAdapter does not have (statistics are C20's subject)."""

    def create_statistics(self):
        return StubStats()


# ------------------------------------------------------------------------------------------ reference (from the statement)
def _same_slice(out, seq, quals, s, e):
    """out is record[s:e] for 0 <= s, e <= len: the sequence and the qualities are the same slice, equal lengths."""
    if out.sequence != seq[s:e]:
        return False
    if quals is None:
        return out.qualities is None
    return out.qualities == quals[s:e] and len(out.qualities) == len(out.sequence)


def _some_slice(out, seq, quals):
    n = len(seq)
    for s in range(n + 1):
        for e in range(s, n + 1):
            if _same_slice(out, seq, quals, s, e):
                return True
    return False


def _unchanged(out, seq, quals):
    return out.sequence == seq and out.qualities == quals


def _untouched_or_upper(out, seq, quals, action):
    """No adapter found: the read stays as it was.  With action lowercase the single-end cutter upper-cases the whole
    read (all of it is 'the kept part'), the paired cutter leaves it alone; the statement allows both."""
    if action == "lowercase" and out.sequence == seq.upper() and out.qualities == quals:
        return True
    return _unchanged(out, seq, quals)


def _single_intervals(kind, rstart, rstop, n):
    """(what trim keeps, what retain keeps, what crop keeps) for one match at [rstart, rstop) of a read of length n.
    5' adapter ('before'): adapter and everything before it are removed; 3' ('after'): adapter and everything after.
    retain: the same, but the adapter itself stays.  crop: only the adapter stays."""
    if kind == "before":
        return (rstop, n), (rstart, n), (rstart, rstop)
    return (0, rstart), (0, rstop), (rstart, rstop)


def _action_ok(out, action, seq, quals, trim_iv, retain_iv, crop_iv):
    n = len(seq)
    lo, hi = trim_iv
    if action == "trim":
        return _same_slice(out, seq, quals, lo, hi)
    if action == "retain":
        return _same_slice(out, seq, quals, retain_iv[0], retain_iv[1])
    if action == "crop":
        return _same_slice(out, seq, quals, crop_iv[0], crop_iv[1])
    if action is None:
        return _unchanged(out, seq, quals)
    if action not in ("mask", "lowercase"):
        return False
    if len(out.sequence) != n or out.qualities != quals:
        return False
    for i in range(n):
        inside = lo <= i < hi
        if action == "mask":
            want = seq[i] if inside else "N"
        else:
            want = seq[i].upper() if inside else seq[i].lower()
        if out.sequence[i] != want:
            return False
    return True


# ------------------------------------------------------------------------------------------ plain trimmers
def check_unconditional_cutter(n: int, cut: int) -> bool:
    """
    pre: 0 <= n <= 5 and -7 <= cut <= 7 and cut != 0
    post: _
    """
    seq, quals = _text(n)
    read = Rec("r", seq, quals)
    out = UnconditionalCutter(cut)(read, ModificationInfo(read))     # -u 0 is never turned into a modifier (cli.py)
    if cut > 0:
        s, e = min(cut, n), n            # the first `cut` bases are removed
    else:
        s, e = 0, max(n + cut, 0)        # the last `-cut` bases are removed
    return _same_slice(out, seq, quals, s, e) and _unchanged(read, seq, quals)


def check_shortener(n: int, length: int) -> bool:
    """
    pre: 0 <= n <= 5 and -7 <= length <= 7
    post: _
    """
    seq, quals = _text(n)
    read = Rec("r", seq, quals)
    out = Shortener(length)(read, ModificationInfo(read))
    if length >= 0:
        s, e = 0, min(length, n)         # keep the first `length` bases
    else:
        s, e = max(n + length, 0), n     # keep the last `-length` bases
    return _same_slice(out, seq, quals, s, e) and _unchanged(read, seq, quals)


def check_nend_trimmer(s: str) -> bool:
    """
    pre: len(s) <= 4 and s.isascii() and all(c in "ANn" for c in s)
    post: _
    """
    quals = None if _PARAM.get("fasta") else QUALS[:len(s)]
    read = Rec("r", s, quals)
    out = NEndTrimmer()(read, ModificationInfo(read))
    # which N ends are removed is C14's subject; here: whatever is removed, the result is an aligned slice of the read
    return _some_slice(out, s, quals) and _unchanged(read, s, quals)


def check_quality_trimmer(n: int, start: int, stop: int) -> bool:
    """
    pre: 0 <= n <= 5 and 0 <= start <= stop <= n
    post: _
    """
    seq, quals = _text(n)
    read = Rec("r", seq, quals)
    _kernel((start, stop))
    out = QualityTrimmer(_PARAM.get("cutoff_front", 0), _PARAM.get("cutoff_back", 10))(read, ModificationInfo(read))
    if len(_K["calls"]) != 1 or _K["calls"][0][1] != quals:      # the kernel was asked about this read's qualities
        return False
    return _same_slice(out, seq, quals, start, stop)


def check_nextseq_trimmer(n: int, index: int) -> bool:
    """
    pre: 0 <= n <= 5 and 0 <= index <= n
    post: _
    """
    seq, quals = _text(n)
    read = Rec("r", seq, quals)
    _kernel(index)
    out = NextseqQualityTrimmer(10)(read, ModificationInfo(read))
    if len(_K["calls"]) != 1 or _K["calls"][0][1] is not read:
        return False
    return _same_slice(out, seq, quals, 0, index)


def check_poly_a_trimmer(n: int, index: int) -> bool:
    """
    pre: 0 <= n <= 5 and 0 <= index <= n
    post: _
    """
    rc = bool(_PARAM.get("revcomp", False))
    seq, quals = _text(n)
    read = Rec("r", seq, quals)
    _kernel(index)
    out = PolyATrimmer(revcomp=rc)(read, ModificationInfo(read))
    if _K["calls"] != [("poly_a_trim_index", seq, rc)]:
        return False
    if rc:
        return _same_slice(out, seq, quals, index, n)     # poly-T head removed
    return _same_slice(out, seq, quals, 0, index)         # poly-A tail removed


def check_zero_cap(q: str) -> bool:
    """
    pre: len(q) <= 4 and q.isascii() and all(c in _alpha() for c in q)
    post: _
    """
    base = _PARAM.get("base", 33)
    seq = SEQ[:len(q)]
    read = Rec("r", seq, q)
    out = ZeroCapper(quality_base=base)(read, ModificationInfo(read))
    if out.sequence != seq or len(out.qualities) != len(q):
        return False
    for i in range(len(q)):
        want = q[i] if ord(q[i]) >= base else chr(base)      # only characters below the base change (to the base)
        if out.qualities[i] != want:
            return False
    return True


# ------------------------------------------------------------------------------------------ adapter actions, one match
def check_action_single(n: int, p: bool, x: int, y: int) -> bool:
    """
    pre: 0 <= n <= 5 and 0 <= x <= y <= n
    post: _
    """
    kind = _PARAM.get("kind", "after")
    action = _PARAM.get("action", "trim")
    seq, quals = _text(n)
    stub = StubAdapter("a", [(kind, x, y, 1, 0)] if p else [None])
    cutter = AdapterCutter([stub], times=1, action=action, index=False)
    read = Rec("r", seq, quals)
    info = ModificationInfo(read)
    out = cutter(read, info)
    if not p:
        return len(info.matches) == 0 and _untouched_or_upper(out, seq, quals, action)
    if len(info.matches) != 1:
        return False
    m = info.matches[0]
    if not isinstance(m, RemoveBeforeMatch if kind == "before" else RemoveAfterMatch) or (m.rstart, m.rstop) != (x, y):
        return False
    t, r, c = _single_intervals(kind, x, y, n)
    # the interval methods of the match agree with the documented intervals
    if m.remainder_interval() != t or m.retained_adapter_interval() != r:
        return False
    return _action_ok(out, action, seq, quals, t, r, c)


# ------------------------------------------------------------------------------------------ adapter actions, linked match
def check_action_linked(fx: int, fy: int, bx: int, by: int) -> bool:
    """
    pre: 0 <= fx <= fy <= _n() and 0 <= bx <= by <= _n() - fy
    post: _
    """
    # the 3' match lies in what the 5' match left (length n - fy); fx, fy are unused for shape back_only and fy == 0
    # then gives the whole range
    shape = _PARAM.get("shape", "both")          # both | front_only | back_only
    action = _PARAM.get("action", "trim")
    seq, quals = _text()
    n = len(seq)
    has_front = shape != "back_only"
    has_back = shape != "front_only"
    if has_front:
        fx, fy = _fix(fx, 0, n), _fix(fy, 0, n)
    if has_back:
        bx, by = _fix(bx, 0, n), _fix(by, 0, n)
    front = StubAdapter("f", [("before", fx, fy, 1, 0)] if has_front else [None])
    back = StubAdapter("b", [("after", bx, by, 1, 0)] if has_back else [None])   # clamped into what the 5' part left
    la = _Linked(front, back, front_required=has_front, back_required=has_back, name="L")
    cutter = AdapterCutter([la], times=1, action=action, index=False)
    read = Rec("r", seq, quals)
    info = ModificationInfo(read)
    out = cutter(read, info)
    if len(info.matches) != 1 or not isinstance(info.matches[0], LinkedMatch):
        return False
    m = info.matches[0]
    if (m.front_match is not None) != has_front or (m.back_match is not None) != has_back:
        return False
    # reference: the 5' part removes [0, f_stop); the 3' match lives in the rest, i.e. at offset f_stop
    f_start, f_stop = (fx, fy) if has_front else (0, 0)
    rest = n - f_stop
    if has_back:
        b_start = clamp(bx, 0, rest)
        b_stop = clamp(by, b_start, rest)
        if (m.back_match.rstart, m.back_match.rstop) != (b_start, b_stop):
            return False
        t = (f_stop, f_stop + b_start)           # only what lies between the two adapters is kept
        r = (f_start, f_stop + b_stop)           # retain: both adapter sequences are kept
    else:
        t = (f_stop, n)
        r = (f_start, n)
    if m.remainder_interval() != t or m.retained_adapter_interval() != r:
        return False
    return _action_ok(out, action, seq, quals, t, r, None)


# ------------------------------------------------------------------------------------------ two rounds (--times 2)
def check_rounds2(p0: bool, x0: int, y0: int, p1: bool, x1: int, y1: int) -> bool:
    """
    pre: 0 <= x0 <= y0 <= _n() and 0 <= x1 <= y1 <= _n()
    post: _
    """
    kinds = _PARAM.get("kinds", ("before", "after"))
    action = _PARAM.get("action", "trim")
    seq, quals = _text()
    n = len(seq)
    stub = StubAdapter("a", [(kinds[0], x0, y0, 1, 0) if p0 else None, (kinds[1], x1, y1, 1, 0) if p1 else None])
    try:
        cutter = AdapterCutter([stub], times=2, action=action, index=False)
    except ValueError:
        # 'retain' and 'crop' are refused together with --times > 1 (nothing is written, so nothing wrong is written);
        # if a tree accepts the combination, what it writes has to be the documented interval of the last match
        return action in ("retain", "crop")
    read = Rec("r", seq, quals)
    info = ModificationInfo(read)
    out = cutter(read, info)
    if not p0:
        return len(info.matches) == 0 and _untouched_or_upper(out, seq, quals, action)
    # a slice of a slice is a slice with the composed offsets
    t, r, c = _single_intervals(kinds[0], x0, y0, n)
    lo, hi = t
    rounds = 1
    if p1:
        m = hi - lo
        s1 = clamp(x1, 0, m)
        e1 = clamp(y1, s1, m)
        t2, r2, c2 = _single_intervals(kinds[1], s1, e1, m)
        t, r, c = (lo + t2[0], lo + t2[1]), (lo + r2[0], lo + r2[1]), (lo + c2[0], lo + c2[1])
        rounds = 2
    if len(info.matches) != rounds:
        return False
    return _action_ok(out, action, seq, quals, t, r, c)


# ------------------------------------------------------------------------------------------ --revcomp, single-end
def check_revcomp(fp: bool, fx: int, fy: int, fs: int, rp: bool, rx: int, ry: int, rs: int) -> bool:
    """
    pre: 0 <= fx <= fy <= _n() and 0 <= rx <= ry <= _n()
    pre: -3 <= fs <= 3 and -3 <= rs <= 3
    pre: fs >= 0 or not fp or rp
    post: _
    """
    # third precondition: a forward match with negative score and no match on the reverse complement makes
    # ReverseComplementer fail its own `assert reverse_matches` before anything is returned - C16's known defect
    fkind, rkind = _PARAM.get("kinds", ("after", "after"))
    action = _PARAM.get("action", "trim")
    seq, quals = _text()
    n = len(seq)
    if fp:
        fx, fy = _fix(fx, 0, n), _fix(fy, 0, n)
    if rp:
        rx, ry = _fix(rx, 0, n), _fix(ry, 0, n)
    stub = StubAdapter("a", [(fkind, fx, fy, fs, 0) if fp else None, (rkind, rx, ry, rs, 0) if rp else None])
    cutter = AdapterCutter([stub], times=1, action=action, index=False)
    read = Rec("r", seq, quals)
    info = ModificationInfo(read)
    out = ReverseComplementer(cutter)(read, info)
    if info.is_rc:          # that orientation was chosen: a slice of the reverse complement, qualities reversed
        base_seq, base_quals = revcomp(seq), (None if quals is None else quals[::-1])
        present, kind, a, b = rp, rkind, rx, ry
    else:
        base_seq, base_quals = seq, quals
        present, kind, a, b = fp, fkind, fx, fy
    if len(stub.calls) != 2 or stub.calls[1].upper() != revcomp(seq).upper():
        return False
    if not present:
        return len(info.matches) == 0 and _untouched_or_upper(out, base_seq, base_quals, action)
    if len(info.matches) != 1 or (info.matches[0].rstart, info.matches[0].rstop) != (a, b):
        return False
    t, r, c = _single_intervals(kind, a, b, n)
    return _action_ok(out, action, base_seq, base_quals, t, r, c)


# ------------------------------------------------------------------------------------------ --revcomp, paired-end
def check_paired_revcomp(ax: int, ay: int, a_s: int, bx: int, by: int, b_s: int, c_s: int, d_s: int) -> bool:
    """
    pre: 0 <= ax <= ay <= (_n() if _PARAM.get("sym", "unswapped") == "unswapped" else _n2())
    pre: 0 <= bx <= by <= (_n2() if _PARAM.get("sym", "unswapped") == "unswapped" else _n())
    pre: -2 <= a_s <= 2 and -2 <= b_s <= 2 and -2 <= c_s <= 2 and -2 <= d_s <= 2
    post: _
    """
    # Four searches happen: cutter1 on R1 (U1), cutter2 on R2 (U2), cutter1 on R2 (S1), cutter2 on R1 (S2).
    # The two of the orientation named by param 'sym' get symbolic coordinates (a: cutter1's, b: cutter2's), the other
    # two a fixed match (1, 2); all four scores are symbolic, so the choice of the orientation is symbolic.
    sym = _PARAM.get("sym", "unswapped")
    k1, k2 = _PARAM.get("kinds", ("before", "after"))
    action = _PARAM.get("action", "trim")
    u1p, u2p, s1p, s2p = _PARAM.get("present", (True, True, True, True))
    use1, use2 = _PARAM.get("cutters", (True, True))
    seq1, quals1 = _text()
    seq2, quals2 = _text2()
    if use1 and (u1p if sym == "unswapped" else s1p):      # coordinates that are never used stay symbolic (one path)
        ax, ay = _fix(ax, 0, 5), _fix(ay, 0, 5)
    if use2 and (u2p if sym == "unswapped" else s2p):
        bx, by = _fix(bx, 0, 5), _fix(by, 0, 5)
    if sym == "unswapped":
        u1, u2, s1, s2 = (ax, ay, a_s), (bx, by, b_s), (1, 2, c_s), (1, 2, d_s)
    else:
        u1, u2, s1, s2 = (1, 2, c_s), (1, 2, d_s), (ax, ay, a_s), (bx, by, b_s)
    a1 = StubAdapter("a1", [(k1,) + u1 + (0,) if u1p else None, (k1,) + s1 + (0,) if s1p else None])
    a2 = StubAdapter("a2", [(k2,) + u2 + (0,) if u2p else None, (k2,) + s2 + (0,) if s2p else None])
    c1 = AdapterCutter([a1], times=1, action=action, index=False) if use1 else None
    c2 = AdapterCutter([a2], times=1, action=action, index=False) if use2 else None
    r1 = Rec("r", seq1, quals1)
    r2 = Rec("r", seq2, quals2)
    info1 = ModificationInfo(r1)
    info2 = ModificationInfo(r2)
    out1, out2 = PairedReverseComplementer(c1, c2)(r1, r2, info1, info2)
    if bool(info1.is_rc) != bool(info2.is_rc):
        return False
    if info1.is_rc:         # the pair was swapped: each output is a slice of the MATE's record
        jobs_ = ((out1, seq2, quals2, k1, s1, s1p and use1), (out2, seq1, quals1, k2, s2, s2p and use2))
    else:
        jobs_ = ((out1, seq1, quals1, k1, u1, u1p and use1), (out2, seq2, quals2, k2, u2, u2p and use2))
    for out, seq, quals, kind, (x, y, _score), present in jobs_:
        if not present:
            if not _untouched_or_upper(out, seq, quals, action):
                return False
            continue
        t, r, c = _single_intervals(kind, x, y, len(seq))
        if not _action_ok(out, action, seq, quals, t, r, c):
            return False
    return True


# ------------------------------------------------------------------------------------------ --pair-adapters
def check_paired_cutter(p1: bool, x1: int, y1: int, p2: bool, x2: int, y2: int) -> bool:
    """
    pre: 0 <= x1 <= y1 <= _n() and 0 <= x2 <= y2 <= _n2()
    post: _
    """
    k1, k2 = _PARAM.get("kinds", ("before", "after"))
    action = _PARAM.get("action", "trim")
    seq1, quals1 = _text()
    seq2, quals2 = _text2()
    if p1 and p2:
        x1, y1, x2, y2 = _fix(x1, 0, len(seq1)), _fix(y1, 0, len(seq1)), _fix(x2, 0, len(seq2)), _fix(y2, 0, len(seq2))
    a1 = StubAdapter("a1", [(k1, x1, y1, 1, 0)] if p1 else [None])
    a2 = StubAdapter("a2", [(k2, x2, y2, 1, 0)] if p2 else [None])
    pac = PairedAdapterCutter([a1], [a2], action=action)
    r1 = Rec("r", seq1, quals1)
    r2 = Rec("r", seq2, quals2)
    info1 = ModificationInfo(r1)
    info2 = ModificationInfo(r2)
    out1, out2 = pac(r1, r2, info1, info2)
    if not (p1 and p2):     # a pair is only trimmed when both adapters of the pair are found
        return (len(info1.matches) == 0 and len(info2.matches) == 0
                and _untouched_or_upper(out1, seq1, quals1, action) and _untouched_or_upper(out2, seq2, quals2, action))
    if len(info1.matches) != 1 or len(info2.matches) != 1:
        return False
    t1, r1_, c1 = _single_intervals(k1, x1, y1, len(seq1))
    t2, r2_, c2 = _single_intervals(k2, x2, y2, len(seq2))
    return _action_ok(out1, action, seq1, quals1, t1, r1_, c1) and _action_ok(out2, action, seq2, quals2, t2, r2_, c2)


# ------------------------------------------------------------------------------------------ conditions
_ACTIONS = ("trim", "mask", "lowercase", "retain", "crop", None)
_KINDS = ("before", "after")


def _k(kinds):
    return "".join(k[0] for k in kinds) or "-"


CONDITIONS = [
    {"name": "cut", "fn": "check_unconditional_cutter", "param": {}, "timeout": 120},
    {"name": "cut/fasta", "fn": "check_unconditional_cutter", "param": {"fasta": True}, "timeout": 120},
    {"name": "length", "fn": "check_shortener", "param": {}, "timeout": 120},
    {"name": "length/fasta", "fn": "check_shortener", "param": {"fasta": True}, "timeout": 120},
    {"name": "trim_n", "fn": "check_nend_trimmer", "param": {}, "timeout": 240},
    {"name": "trim_n/fasta", "fn": "check_nend_trimmer", "param": {"fasta": True}, "timeout": 240},
    {"name": "quality_trim", "fn": "check_quality_trimmer", "param": {}, "timeout": 120},
    {"name": "nextseq_trim", "fn": "check_nextseq_trimmer", "param": {}, "timeout": 120},
    {"name": "poly_a", "fn": "check_poly_a_trimmer", "param": {"revcomp": False}, "timeout": 120},
    {"name": "poly_a/revcomp", "fn": "check_poly_a_trimmer", "param": {"revcomp": True}, "timeout": 120},
    {"name": "zero_cap/base=33", "fn": "check_zero_cap", "param": {"base": 33, "alphabet": "\x1f !5"}, "timeout": 240},
    {"name": "zero_cap/base=64", "fn": "check_zero_cap", "param": {"base": 64, "alphabet": "!?@h"}, "timeout": 240},
]
for _action in _ACTIONS:
    for _kind in _KINDS:
        CONDITIONS.append({"name": "action/single/%s/%s" % (_action, _kind), "fn": "check_action_single",
                           "param": {"action": _action, "kind": _kind}, "timeout": 180})
    CONDITIONS.append({"name": "action/single/%s/after/fasta" % (_action,), "fn": "check_action_single",
                       "param": {"action": _action, "kind": "after", "fasta": True}, "timeout": 180, "thorough_only": _action not in ("trim", "mask")})
for _action in ("trim", "mask", "lowercase", "retain", None):      # crop + linked: documented not to work (guide.rst)
    for _shape in ("both", "front_only", "back_only"):
        CONDITIONS.append({"name": "action/linked/%s/%s" % (_action, _shape), "fn": "check_action_linked",
                           "param": {"action": _action, "shape": _shape, "seq": SEQ}, "timeout": 180})
    CONDITIONS.append({"name": "action/linked/%s/both/len6" % (_action,), "fn": "check_action_linked",
                       "param": {"action": _action, "shape": "both", "seq": SEQ6}, "timeout": 400, "thorough_only": True})
for _action in ("trim", "mask", "lowercase", None):
    for _kinds in _it.product(_KINDS, repeat=2):
        CONDITIONS.append({"name": "times2/%s/%s" % (_action, _k(_kinds)), "fn": "check_rounds2",
                           "param": {"action": _action, "kinds": _kinds, "seq": "AcgT"}, "timeout": 180})
for _action in ("retain", "crop"):
    for _kinds in _it.product(_KINDS, repeat=2):
        CONDITIONS.append({"name": "times2/%s/%s/refused_or_correct" % (_action, _k(_kinds)), "fn": "check_rounds2",
                           "param": {"action": _action, "kinds": _kinds, "seq": "AcgT"}, "timeout": 180})
for _action in _ACTIONS:
    for _kinds in _it.product(_KINDS, repeat=2):
        _quick = _action == "trim" or _kinds == ("before", "after")
        if _quick:
            CONDITIONS.append({"name": "revcomp/%s/%s" % (_action, _k(_kinds)), "fn": "check_revcomp",
                               "param": {"action": _action, "kinds": _kinds, "seq": "AcgT"}, "timeout": 300})
        CONDITIONS.append({"name": "revcomp/%s/%s/len5" % (_action, _k(_kinds)), "fn": "check_revcomp",
                           "param": {"action": _action, "kinds": _kinds, "seq": SEQ}, "timeout": 600, "thorough_only": True})
_PAIR = {"seq": "AcG", "seq2": "tGNa"}          # quick: R1 of length 3, R2 of length 4
_PAIR_T = {"seq": "AcgT", "seq2": SEQ2}         # thorough: 4 and 5
for _sym in ("unswapped", "swapped"):
    for _action in _ACTIONS:
        for _kinds in _it.product(_KINDS, repeat=2):
            _quick = _kinds[0] != _kinds[1] and (_action == "trim" or _kinds == ("before", "after"))
            if _quick:
                CONDITIONS.append({"name": "paired_revcomp/%s/%s/%s" % (_action, _k(_kinds), _sym), "fn": "check_paired_revcomp",
                                   "param": dict(_PAIR, action=_action, kinds=_kinds, sym=_sym), "timeout": 300})
            CONDITIONS.append({"name": "paired_revcomp/%s/%s/%s/len45" % (_action, _k(_kinds), _sym), "fn": "check_paired_revcomp",
                               "param": dict(_PAIR_T, action=_action, kinds=_kinds, sym=_sym), "timeout": 600, "thorough_only": True})
    # some searches find nothing / only one read has an adapter cutter (-a without -A and the reverse)
    for _present in ((True, False, False, True), (False, True, True, False), (False, False, True, True), (True, True, False, False)):
        CONDITIONS.append({"name": "paired_revcomp/trim/ab/%s/present=%s" % (_sym, "".join("1" if x else "0" for x in _present)), "fn": "check_paired_revcomp",
                           "param": dict(_PAIR, action="trim", kinds=("after", "before"), sym=_sym, present=_present), "timeout": 300})
    for _cutters in ((True, False), (False, True)):
        CONDITIONS.append({"name": "paired_revcomp/trim/ab/%s/cutters=%s" % (_sym, "".join("1" if x else "0" for x in _cutters)), "fn": "check_paired_revcomp",
                           "param": dict(_PAIR, action="trim", kinds=("after", "before"), sym=_sym, cutters=_cutters), "timeout": 300})
for _action in _ACTIONS:
    for _kinds in (("before", "after"), ("after", "before"), ("before", "before"), ("after", "after")):
        if _kinds[0] != _kinds[1]:
            CONDITIONS.append({"name": "pair_adapters/%s/%s" % (_action, _k(_kinds)), "fn": "check_paired_cutter",
                               "param": dict(_PAIR, action=_action, kinds=_kinds), "timeout": 300})
        CONDITIONS.append({"name": "pair_adapters/%s/%s/len45" % (_action, _k(_kinds)), "fn": "check_paired_cutter",
                           "param": dict(_PAIR_T, action=_action, kinds=_kinds), "timeout": 600, "thorough_only": True})


_BOUNDS = {
    "read": "fixed text with distinct quality characters (FASTA variants without qualities for -u, -l, --trim-n and single-match actions); "
            "plain trimmers and single-match actions: every read length 0..5 (symbolic); linked adapters: length %s; --times 2: length 4; "
            "--revcomp: length %s; --pair-adapters and paired --revcomp: R1 length %s",
    "cut lengths / --length": "-7..7 (reaching beyond both ends)",
    "kernel return values": "every value allowed by the contract for the read length",
    "match coordinates": "every 0 <= rstart <= rstop <= len (second round / 3' part of a linked adapter: every interval of what the first match left); "
                         "absent matches as symbolic flags (single, --times 2, --revcomp, --pair-adapters) or fixed shapes (linked, paired --revcomp)",
    "scores": "-3..3 (--revcomp), -2..2 for each of the four searches (paired --revcomp): only their order matters",
    "actions": "trim, mask, lowercase, retain, crop, none with --times 1; trim, mask, lowercase, none with --times 2; retain and crop with --times 2 must be refused or give the documented interval of the last match",
    "characters": "NEndTrimmer: all strings over {A,N,n} up to length 4; ZeroCapper: all quality strings up to length 4 over 4 characters around the base (33 and 64)",
    "concretisation": "_fix() turns the bounded match coordinates into concrete ints (one CrossHair path per value) in the linked, --revcomp and paired conditions; scores, flags and the other conditions' ints stay symbolic",
}


def describe():
    return {
        "functions": ["modifiers.py:UnconditionalCutter/Shortener/NEndTrimmer/QualityTrimmer/NextseqQualityTrimmer/PolyATrimmer/ZeroCapper.__call__",
                      "modifiers.py:AdapterCutter.__call__/match_and_trim/_match_and_trim_once_action_trim/masked_read/lowercased_read/cropped_read/trim_but_retain_adapter",
                      "modifiers.py:PairedAdapterCutter.__call__/_find_best_match_pair", "modifiers.py:ReverseComplementer.__call__, PairedReverseComplementer.__call__",
                      "adapters.py:RemoveBeforeMatch/RemoveAfterMatch.trimmed/remainder_interval/retained_adapter_interval/trim_slice",
                      "adapters.py:LinkedAdapter.match_to, LinkedMatch.trimmed/remainder_interval/retained_adapter_interval, remainder"],
        "bounds": {tier: dict(_BOUNDS, read=_BOUNDS["read"] % lens) for tier, lens in
                   (("quick", ("5", "4", "3 and R2 4")), ("thorough", ("5 and 6", "4 and 5", "3 / 4 and R2 4 / 5")))},
        "outside_bounds": ["longer reads", "--times 3 and more (C09 checks the round rule for 3)", "--action=crop with linked adapters: documented as not working (doc/guide.rst, 'Linked adapters do not work in combination with --info-file, --action=mask and --action=crop'); cropped_read() raises AttributeError on a LinkedMatch, nothing is written",
                           "more than one adapter (pair) per cutter: the choice among candidates is C09's", "the loop chaining several modifiers (C10); composition of two slices is checked for two adapter rounds only",
                           "ReverseComplementer with a negative-score forward match and no reverse match (AssertionError before anything is returned: C16 known defect), excluded by precondition"],
        "stubs": ["Rec: dnaio.SequenceRecord contract (validated against the real class in validate())", "StubAdapter: match_to returns a real RemoveBeforeMatch/RemoveAfterMatch with the programmed coordinates (C01 contract: inside the sequence searched)",
                  "_Linked: real LinkedAdapter, create_statistics replaced (StubStats)", "quality_trim_index -> arbitrary (start, stop) with 0 <= start <= stop <= n; nextseq_trim_index, poly_a_trim_index -> arbitrary index with 0 <= index <= n (contracts proved under C13/C14)"],
        "assumptions": ["CrossHair's model of str/int/list/re operations", "only 'Confirmed over all paths' counts as discharged", "no adapter found + action lowercase: both 'unchanged' and 'whole read upper-cased' are accepted (the statement fixes neither)"],
        "rule": "one CrossHair condition per (modifier, action, match kinds / shape); symbolic: read length, cut lengths, kernel results, match coordinates, presence flags, scores. non-trivial = conditions with more than one explored path whose reachability twin is refuted",
    }


def validate(seed):
    """The Rec stand-in against the real dnaio.SequenceRecord on concrete records: slicing (all bounds incl. negative,
    beyond the ends and None), len, reverse_complement, FASTA records."""
    from dnaio import SequenceRecord
    vectors = 0
    mismatches = []
    bounds = [None] + list(range(-7, 8))
    for seq, quals in ((SEQ, QUALS[:len(SEQ)]), (SEQ2, QUALS2), (SEQ6, QUALS), ("", ""), ("N", "!"), (SEQ, None)):
        real = SequenceRecord("r", seq, quals)
        mine = Rec("r", seq, quals)
        for a in bounds:
            for b in bounds:
                x, y = real[a:b], mine[a:b]
                vectors += 1
                if (x.name, x.sequence, x.qualities, len(x)) != (y.name, y.sequence, y.qualities, len(y)):
                    mismatches.append("Rec%r[%r:%r] = %r, dnaio gives %r" % ((seq, quals), a, b, (y.sequence, y.qualities), (x.sequence, x.qualities)))
        x, y = real.reverse_complement(), mine.reverse_complement()
        vectors += 1
        if (x.name, x.sequence, x.qualities) != (y.name, y.sequence, y.qualities):
            mismatches.append("reverse_complement of %r: %r, dnaio gives %r" % ((seq, quals), (y.sequence, y.qualities), (x.sequence, x.qualities)))
    return {"vectors": vectors, "mismatches": mismatches}


def known_match(entry, cex):
    """A counterexample belongs to a listed known finding when it is the same condition with the same parameters'
    action (the family: PairedAdapterCutter with that action, whatever the coordinates)."""
    w = entry.get("witness") or {}
    if w.get("condition") != cex.get("condition"):
        return False
    return (w.get("param") or {}).get("action", "?") == (cex.get("param") or {}).get("action", "??")


def jobs(tier, seed):
    return e2_jobs(CONDITIONS, tier)


def run_job(job):
    return e2_run_job(__name__, job)


def replay(cex):
    return e2_replay(cex)
