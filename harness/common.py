"""Helpers shared by the symx (E1) harnesses."""
import os
import random
import sys
import time

import z3

VERIF = os.path.dirname(os.path.dirname(os.path.abspath(__file__)))
if VERIF not in sys.path:
    sys.path.insert(0, VERIF)

from symx import build, values as V  # noqa: E402
from symx.ctx import Ctx, Stats, explore, Infeasible  # noqa: E402
from symx.interp import Interp, InterpException  # noqa: E402
from symx.program import Program  # noqa: E402
from symx.values import SInt, SStr, Unsupported, Inconclusive  # noqa: E402

MERGE_MODULES = {"cutadapt._align", "cutadapt._kmer_finder", "cutadapt.qualtrim", "cutadapt.expected_errors_h"}

_state = {}


def program():
    """One Program (parsed sources of the current tree) per process."""
    if "prog" not in _state:
        d = build.activate()
        _state["prog"] = Program(d)
    return _state["prog"]


def new_interp(ctx, merge_modules=MERGE_MODULES):
    # kernels keep global state in module dicts (tables): a fresh Program per interpreter is cheap
    # enough only for the pyx modules; reuse the parsed trees but re-initialise globals.
    prog = program()
    for m in prog.pyx.values():
        m.globals = {}
        m.initialised = False
        m.types = type(m.types)()
    return Interp(prog, ctx, merge_modules=merge_modules)


def sym_str(ctx, name, n, alphabet=None, lo=0, hi=127, kind="str"):
    """Symbolic string of concrete length n.  alphabet: iterable of characters (finite domain) or
    None for the code-point interval [lo, hi]."""
    chars = []
    dom = None
    if alphabet is not None:
        dom = frozenset(ord(c) if isinstance(c, str) else int(c) for c in alphabet)
        lo, hi = min(dom), max(dom)
    for i in range(n):
        e = V.ivar("%s_%d" % (name, i))
        c = SInt(e, lo, hi, dom=dom)
        if dom is not None and len(dom) < (hi - lo + 1):
            ctx.assume(V.in_ranges(e, dom))
        else:
            ctx.assume(z3.And(e >= lo, e <= hi))
        chars.append(c)
    return SStr(chars) if kind == "str" else V.SBytes(chars)


def sym_int(ctx, name, lo, hi):
    e = V.ivar(name)
    ctx.assume(z3.And(e >= lo, e <= hi))
    return SInt(e, lo, hi)


def model_int(model, x):
    if isinstance(x, SInt):
        v = model.eval(x.e, model_completion=True)
        return V.ival_of(v)
    if isinstance(x, V.SBool):
        return bool(z3.is_true(model.eval(x.e, model_completion=True)))
    if isinstance(x, V.SBV):
        return model.eval(x.e, model_completion=True).as_long()
    return x


def model_str(model, s):
    if isinstance(s, (str, bytes)):
        return s
    return "".join(chr(model_int(model, c)) for c in s.chars)


def zint(x):
    return V.zi(x)


class Job:
    """Accumulates the outcome of one job (one shape of query)."""

    def __init__(self, job):
        self.job = job
        self.name = job["name"]
        self.stats = Stats()
        self.obligations = 0
        self.discharged = 0
        self.violated = 0
        self.inconclusive = []
        self.cex = None
        self.nontrivial = 0
        self.vacuity = None
        self.sample = None
        self.detail = ""
        self.extra = {}
        self.t0 = time.time()
        self.vacuity_check = True
        self._consistent = {}

    def claim(self, ctx, claim, what, make_cex, timeout_ms=None, assuming=()):
        """One property obligation on the current path.  make_cex(model) -> dict."""
        self.obligations += 1
        _t = time.time()
        r = ctx.check_claim(claim, timeout_ms, assuming)
        self.extra.setdefault("claim_s", {})
        self.extra["claim_s"][what[:40]] = round(self.extra["claim_s"].get(what[:40], 0) + time.time() - _t, 2)
        if r == "unsat":
            if not self.consistent(ctx, assuming):
                self.inconclusive.append(what + ": vacuous - the assumptions of this path are unsatisfiable (harness error)")
                return None
            self.discharged += 1
            return True
        if r == "sat":
            self.violated += 1
            if self.cex is None:
                m = ctx.model()
                self.cex = make_cex(m)
                self.cex["what"] = what
                self.detail = what
            return False
        self.inconclusive.append(what + ": solver returned unknown")
        return None

    def consistent(self, ctx, assuming=()):
        """Guard against vacuity: the path condition plus everything assumed so far must be satisfiable.
        Checked once per (path, number of assumptions)."""
        if not self.vacuity_check:
            return True
        key = (id(ctx), len(ctx.base), len(ctx.pc), len(assuming))
        if key in self._consistent:
            return self._consistent[key]
        r = ctx.fresh_sat(list(assuming), 30000)
        ok = r != "unsat"
        self._consistent[key] = ok
        if r == "sat":
            self.vacuity = True if self.vacuity is None else self.vacuity
        return ok

    def claims_and_safety(self, ctx, claims, make_cex, timeout_ms=None):
        """One query for several claims plus all pending safety obligations; split only if it fails."""
        obs = list(ctx.obligations)
        parts = [V.zb(c) if not isinstance(c, z3.BoolRef) else c for c, _ in claims]
        for o in obs:
            parts.append(z3.Implies(z3.And(*o.guard.atoms) if o.guard.atoms else z3.BoolVal(True), o.cond))
        n = len(claims) + len(obs)
        if not parts:
            return True
        _t = time.time()
        r = ctx.fresh_sat([z3.Not(z3.And(*parts))], timeout_ms)
        self.extra["batch_s"] = round(self.extra.get("batch_s", 0) + time.time() - _t, 2)
        if r == "unsat":
            self.obligations += n
            if not self.consistent(ctx):
                self.inconclusive.append("vacuous - the assumptions of this path are unsatisfiable (harness error)")
                return None
            self.discharged += n
            ctx.obligations = []
            return True
        ok = self.safety(ctx, make_cex, timeout_ms=timeout_ms)
        for c, what in claims:
            if self.claim(ctx, c, what, make_cex, timeout_ms) is not True:
                ok = False
        return ok

    def safety(self, ctx, make_cex, kinds=None, timeout_ms=None):
        """Discharge the safety obligations the interpreter collected on this path
        (array bounds, overflow, type errors)."""
        obs = [o for o in ctx.obligations if kinds is None or o.kind in kinds]
        ctx.obligations = [o for o in ctx.obligations if o not in obs]
        # batch: one query for all, then individually only if that one is sat
        if not obs:
            return True
        self.obligations += len(obs)
        _t = time.time()
        bad = z3.Or(*[z3.And(*(list(o.guard.atoms) + [z3.Not(o.cond)])) for o in obs])
        r = ctx.fresh_sat([bad], timeout_ms)
        self.extra["safety_s"] = round(self.extra.get("safety_s", 0) + time.time() - _t, 2)
        if r == "unsat":
            self.discharged += len(obs)
            return True
        ok = True
        for o in obs:
            r = ctx.violated(o, timeout_ms)
            if r == "unsat":
                self.discharged += 1
            elif r == "sat":
                self.violated += 1
                ok = False
                if self.cex is None:
                    self.cex = make_cex(ctx.model())
                    self.cex["what"] = o.kind + ": " + o.what
                    self.detail = o.what
            else:
                self.inconclusive.append(o.what + ": unknown")
        return ok

    def witness(self, ctx, cond, timeout_ms=20000):
        """Reachability twin: cond must be satisfiable on this path (else the harness is vacuous)."""
        _t = time.time()
        r = ctx.fresh_sat([cond] if cond is not None else [], timeout_ms)
        self.extra["witness_s"] = round(self.extra.get("witness_s", 0) + time.time() - _t, 2)
        if r == "sat":
            self.vacuity = True if self.vacuity is None else self.vacuity
            return True
        if self.vacuity is None:
            self.vacuity = False
        return False

    def result(self):
        if self.stats.__dict__.get("cross", {}).get("disagree"):
            verdict = "error"
            self.detail = "solver disagreement: " + "; ".join(self.stats.__dict__["cross"]["disagree"][:3])
        elif self.cex is not None:
            verdict = "violation"
        elif self.inconclusive:
            verdict = "inconclusive"
        else:
            verdict = "holds"
        st = self.stats
        return {
            "name": self.name, "verdict": verdict, "obligations": self.obligations, "discharged": self.discharged,
            "violated": self.violated, "queries": st.queries, "solver_s": round(st.solver_s, 3), "max_query_s": round(st.max_query_s, 3),
            "paths": st.paths, "nontrivial": self.nontrivial, "vacuity": self.vacuity, "sample": self.sample,
            "cex": self.cex, "detail": "; ".join(self.inconclusive[:3]) if self.inconclusive else self.detail,
            "functions": dict(program().encoded), "extra": self.extra,
            "cross_check": {"checked": st.__dict__.get("cross", {}).get("checked", 0), "agree": st.__dict__.get("cross", {}).get("agree", 0),
                            "inconclusive": st.__dict__.get("cross", {}).get("inconclusive", 0), "disagree": st.__dict__.get("cross", {}).get("disagree", [])},
        }


def run_paths(jobobj, body, max_paths=500, timeout_ms=60000):
    """Explore all decision trails of body(ctx); exceptions of the interpreter become verdicts."""
    try:
        explore(body, max_paths=max_paths, seed=jobobj.job.get("seed", 0), timeout_ms=timeout_ms, stats=jobobj.stats)
    except Inconclusive as e:
        jobobj.inconclusive.append("inconclusive: %s" % e)
    return jobobj.result()


def rng(seed, *salt):
    return random.Random("%s|%s" % (seed, "|".join(map(str, salt))))
