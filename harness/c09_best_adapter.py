"""C09 - best-adapter choice, repeated rounds and linked adapters follow the rules.

E2 (CrossHair on the real classes): MultipleAdapters.match_to, AdapterCutter.match_and_trim (and its times==1
specialisation), LinkedAdapter.match_to, LinkedMatch.  Adapters are StubAdapter objects that return an arbitrary
optional match satisfying the C01 contract (coordinates inside the sequence they were given; symbolic score and
error count).  Every function below is one CrossHair condition; its arguments are the symbolic inputs.
"""
from typing import List, Optional, Tuple

from harness.e2_common import Rec, StubAdapter, clamp, e2_jobs, e2_run_job, e2_replay

from cutadapt.adapters import MultipleAdapters, LinkedAdapter, LinkedMatch, remainder
from cutadapt.modifiers import AdapterCutter

PROPERTY = "C09"
ENGINE = "crosshair"

_PARAM = {}


def set_param(p):
    _PARAM.clear()
    _PARAM.update(p or {})


# ---------------------------------------------------------------------------- best-of
def _expected_best(cands):
    """Reference, from the statement: highest score, then fewer errors, then the adapter given first."""
    best = None
    for i, (present, score, errors) in enumerate(cands):
        if not present:
            continue
        if best is None or (score, -errors) > (cands[best][1], -cands[best][2]):
            best = i
    return best


def check_best_of(p0: bool, s0: int, e0: int, p1: bool, s1: int, e1: int, p2: bool, s2: int, e2: int) -> bool:
    """
    pre: 0 <= e0 <= 3 and 0 <= e1 <= 3 and 0 <= e2 <= 3
    pre: -6 <= s0 <= 6 and -6 <= s1 <= 6 and -6 <= s2 <= 6
    post: _
    """
    n = 3
    cands = [(p0, s0, e0), (p1, s1, e1), (p2, s2, e2)]
    stubs = [StubAdapter("a%d" % i, [("after", 0, n, s, e)] if p else [None]) for i, (p, s, e) in enumerate(cands)]
    seq = "A" * n
    got = MultipleAdapters(stubs).match_to(seq)
    want = _expected_best(cands)
    if want is None:
        return got is None and all(len(st.calls) == 1 for st in stubs)
    return got is not None and got.adapter is stubs[want] and all(st.calls == [seq] for st in stubs)


# ---------------------------------------------------------------------------- order is kept when no index is built
from cutadapt.adapters import SuffixAdapter, PrefixAdapter


class _StubSuffix(SuffixAdapter):
    """A real anchored 3' adapter (so that AdapterCutter's regrouping logic sees an index-eligible adapter) whose
    match_to is programmed like StubAdapter's."""

    def __init__(self, name, outcome):
        SuffixAdapter.__init__(self, "ACGT", max_errors=0, indels=False, name=name)
        self._outcome = outcome
        self.calls = []

    def match_to(self, sequence):
        self.calls.append(sequence)
        if self._outcome is None:
            return None
        from cutadapt.adapters import RemoveAfterMatch
        kind, x, y, score, errors = self._outcome
        n = len(sequence)
        rstart = clamp(x, 0, n)
        return RemoveAfterMatch(0, 4, rstart, n, score, errors, adapter=self, sequence=sequence)


class _StubPrefix(PrefixAdapter):
    def __init__(self, name, outcome):
        PrefixAdapter.__init__(self, "ACGT", max_errors=0, indels=False, name=name)
        self._outcome = outcome
        self.calls = []

    def match_to(self, sequence):
        self.calls.append(sequence)
        if self._outcome is None:
            return None
        from cutadapt.adapters import RemoveBeforeMatch
        kind, x, y, score, errors = self._outcome
        n = len(sequence)
        rstop = clamp(y, 0, n)
        return RemoveBeforeMatch(0, 4, 0, rstop, score, errors, adapter=self, sequence=sequence)


def check_order_default_index(p0: bool, s0: int, e0: int, p1: bool, s1: int, e1: int, p2: bool, s2: int, e2: int) -> bool:
    """
    pre: 0 <= e0 <= 2 and 0 <= e1 <= 2 and 0 <= e2 <= 2
    pre: -3 <= s0 <= 3 and -3 <= s1 <= 3 and -3 <= s2 <= 3
    post: _
    """
    # AdapterCutter with its default index=True, but at most ONE adapter of each index-eligible kind: no index is
    # built, so the best-of rule must apply to the adapters in the order given (param 'kinds' says which are anchored)
    kinds = _PARAM.get("kinds", ("suffix", "plain", "prefix"))
    cands = [(p0, s0, e0), (p1, s1, e1), (p2, s2, e2)]
    stubs = []
    for i, (k, (p, s, e)) in enumerate(zip(kinds, cands)):
        out = ("after" if k != "prefix" else "before", 1, 2, s, e) if p else None
        if k == "suffix":
            stubs.append(_StubSuffix("a%d" % i, out))
        elif k == "prefix":
            stubs.append(_StubPrefix("a%d" % i, out))
        else:
            stubs.append(StubAdapter("a%d" % i, [out]))
    cutter = AdapterCutter(stubs, times=1, action="trim")          # index=True is the default
    read = Rec("r", "ACG", "abc")
    out, matches = cutter.match_and_trim(read)
    want = _expected_best(cands)
    if want is None:
        return matches == []
    return len(matches) == 1 and matches[0].adapter is stubs[want]


# ---------------------------------------------------------------------------- rounds
def _ref_rounds(seq, outcomes, times):
    """Reference: one adapter per round, each round searches what the previous one left, stop at the first miss."""
    cur_lo, cur_hi = 0, len(seq)   # the current read is seq[cur_lo:cur_hi]
    searched = []
    ivs = []
    for k in range(times):
        searched.append(seq[cur_lo:cur_hi])
        o = outcomes[k] if k < len(outcomes) else None
        if o is None:
            break
        kind, x, y, _, _ = o
        n = cur_hi - cur_lo
        rstart = clamp(x, 0, n)
        rstop = clamp(y, rstart, n)
        if kind == "before":
            cur_lo = cur_lo + rstop
        else:
            cur_hi = cur_lo + rstart
        ivs.append((cur_lo, cur_hi))
    return searched, (cur_lo, cur_hi), len(ivs)


def check_rounds(x0: int, y0: int, x1: int, y1: int, x2: int, y2: int) -> bool:
    """
    pre: -1 <= x0 <= 4 and -1 <= y0 <= 4 and -1 <= x1 <= 4 and -1 <= y1 <= 4 and -1 <= x2 <= 4 and -1 <= y2 <= 4
    post: _
    """
    times = _PARAM.get("times", 2)
    action = _PARAM.get("action", "trim")
    kinds = _PARAM.get("kinds", ("after", "before"))     # kinds of the matches that the stub reports, in order
    seq = _PARAM.get("seq", "AcN")                         # the text is irrelevant to the rules; coordinates are symbolic
    outcomes = [(k, x, y, 1, 0) for k, (x, y) in zip(kinds, ((x0, y0), (x1, y1), (x2, y2)))]
    stub = StubAdapter("a", outcomes)
    cutter = AdapterCutter([stub], times=times, action=action, index=False)
    quals = "".join(chr(33 + (i % 40)) for i in range(len(seq)))
    read = Rec("r", seq, quals)
    out, matches = cutter.match_and_trim(read)
    base = seq.upper() if action == "lowercase" else seq
    searched, (lo, hi), nm = _ref_rounds(base, outcomes, times)
    if len(matches) != nm or stub.calls != searched:
        return False
    if nm == 0:
        return out.sequence == base and out.qualities == quals
    if action == "trim":
        return out.sequence == base[lo:hi] and out.qualities == quals[lo:hi]
    if action == "mask":
        return out.sequence == "N" * lo + base[lo:hi] + "N" * (len(base) - hi) and out.qualities == quals
    if action == "lowercase":
        return out.sequence == base[:lo].lower() + base[lo:hi].upper() + base[hi:].lower() and out.qualities == quals
    if action is None:
        return out.sequence == base and out.qualities == quals
    return False


# ---------------------------------------------------------------------------- linked adapters
def check_linked(fp: bool, fx: int, fy: int, fs: int, fe: int, bp: bool, bx: int, by: int, bs: int, be: int) -> bool:
    """
    pre: -1 <= fx <= 6 and -1 <= fy <= 6 and -1 <= bx <= 6 and -1 <= by <= 6
    pre: -6 <= fs <= 6 and -6 <= bs <= 6 and 0 <= fe <= 3 and 0 <= be <= 3
    post: _
    """
    front_required = _PARAM.get("front_required", True)
    back_required = _PARAM.get("back_required", True)
    seq = _PARAM.get("seq", "ACGTA")   # the text is irrelevant to the rules; all coordinates are symbolic
    front = StubAdapter("f", [("before", fx, fy, fs, fe)] if fp else [None])
    back = StubAdapter("b", [("after", bx, by, bs, be)] if bp else [None])
    la = LinkedAdapter(front, back, front_required, back_required, name="L")
    m = la.match_to(seq)
    # reference, from the statement
    n = len(seq)
    f_stop = clamp(fy, clamp(fx, 0, n), n) if fp else 0
    rest = seq[f_stop:] if fp else seq
    if front_required and not fp:
        return m is None and back.calls == []          # untouched, 3' part not even searched
    if back.calls != [rest]:                             # 3' part searched only in what remains after the 5' part
        return False
    if not bp and (back_required or not fp):
        return m is None
    if m is None or not isinstance(m, LinkedMatch):
        return False
    if (m.front_match is not None) != fp or (m.back_match is not None) != bp:
        return False
    # score / errors are the sums over the parts found; the trimmed read is the remainder of both parts
    want_score = (fs if fp else 0) + (bs if bp else 0)
    want_errors = (fe if fp else 0) + (be if bp else 0)
    if m.score != want_score or m.errors != want_errors:
        return False
    b_start = clamp(bx, 0, len(rest)) if bp else len(rest)
    read = Rec("r", seq, None)
    out = m.trimmed(read)
    if out.sequence != rest[:b_start]:
        return False
    lo, hi = m.remainder_interval()
    return seq[lo:hi] == rest[:b_start]


CONDITIONS = [{"name": "best_of_3", "fn": "check_best_of", "timeout": 120}]
for _kinds in (("suffix", "plain", "prefix"), ("plain", "suffix", "plain"), ("prefix", "plain", "plain"), ("suffix", "prefix", "plain")):
    CONDITIONS.append({"name": "order_default_index/%s" % "-".join(_kinds), "fn": "check_order_default_index", "param": {"kinds": _kinds}, "timeout": 240})
import itertools as _it
for _times in (1, 2, 3):
    for _action in ("trim", "mask", "lowercase", None):
        for _nf in range(0, _times + 1):
            for _kinds in _it.product(("before", "after"), repeat=_nf):
                CONDITIONS.append({"name": "rounds/times=%d/action=%s/kinds=%s" % (_times, _action, "".join(k[0] for k in _kinds) or "-"), "fn": "check_rounds",
                                   "param": {"times": _times, "action": _action, "kinds": _kinds, "seq": "AcN" if _nf < 3 else "Ac"},
                                   "timeout": 300 if _nf < 3 else 1500, "thorough_only": _times == 3})
for _fr in (True, False):
    for _br in (True, False):
        CONDITIONS.append({"name": "linked/front_required=%s/back_required=%s" % (_fr, _br), "fn": "check_linked", "param": {"front_required": _fr, "back_required": _br}, "timeout": 180})


def describe():
    return {
        "functions": ["adapters.py:MultipleAdapters.match_to", "modifiers.py:AdapterCutter.__init__/match_and_trim/_match_and_trim_once_action_trim/masked_read/lowercased_read",
                      "adapters.py:LinkedAdapter.match_to", "adapters.py:LinkedMatch.score/errors/trimmed/remainder_interval", "adapters.py:remainder, RemoveBeforeMatch/RemoveAfterMatch.trimmed/remainder_interval"],
        "bounds": {"candidates": 3, "read": "fixed text (rounds: AcN, linked: ACGTA); all match coordinates symbolic (-1..4 resp. -1..6), i.e. every interval of the read incl. empty and out-of-range ones that the stub clamps", "rounds": "--times 1..3, up to 3 programmed matches", "scores": "-6..6", "errors": "0..3", "actions": "trim, mask, lowercase, none"},
        "outside_bounds": ["longer reads, more than 4 adapters, more than 3 rounds", "retain/crop with --times > 1 (rejected by the constructor)", "indexed adapters (C08)"],
        "stubs": ["StubAdapter: match_to returns an arbitrary optional match whose coordinates lie inside the sequence it was given (C01 contract); score and errors symbolic", "Rec: dnaio.SequenceRecord contract"],
        "assumptions": ["CrossHair's model of str/int/list operations", "only 'Confirmed over all paths' counts as discharged"],
        "rule": "one CrossHair condition per (scenario, parameters); symbolic: presence flags, scores, error counts, coordinates, read text. non-trivial = conditions with more than one explored path whose reachability twin is refuted",
    }


def jobs(tier, seed):
    return e2_jobs(CONDITIONS, tier)


def run_job(job):
    return e2_run_job(__name__, job)


def replay(cex):
    return e2_replay(cex)
