"""C02 - admissible adapter occurrences are found; exact copies never survive.

E1 (symx), same encodings as C01 (prefilter forced to "present"; C07 composes it back in).
Per job and path:
  * match_to raises            -> violation (the property promises a result)
  * match_to returns None      -> claim: no admissible occurrence exists that the statement says must be found
        (a) error-free occurrence admitted by placement rule and minimum overlap   [all classes]
        (b) occurrence within tolerance   [indels off: all classes; indels on: 3' regular / non-internal /
            anchored, anchored 5', rightmost 5']
  * match_to returns a match   -> claim (c): regular 3' cut at or before the leftmost error-free full copy,
        regular 5' at or before the end of the leftmost copy, rightmost 5' at or after the end of the
        rightmost copy, error-free anchored adapter removed exactly.
"""
import z3

from harness.common import (Job, run_paths, model_int, model_str, zint, V)
from harness import align_common as AC
from harness import c01_match_genuine as C01

PROPERTY = "C02"
ENGINE = "symx"

WITH_INDELS_TOLERANT = {"back", "nonint_back", "suffix", "prefix", "rightmost_front"}


def describe():
    d = C01.describe()
    d["rule"] = ("job = (class, m, n, rate representative, switches); paths = outcomes of match_to (None / match / exception); on a None path the solver "
                 "decides that no admissible occurrence (error-free: all classes; within tolerance: the classes named in the statement) exists among all interval "
                 "quadruples the placement rule admits; on a match path it decides the leftmost/rightmost/exact-removal clauses. non-trivial = jobs where both a "
                 "None outcome and a match outcome are reachable")
    d["outside_bounds"] = d["outside_bounds"] + ["in the main jobs the k-mer prefilter is stubbed to 'present'; the 'with-prefilter' jobs run match_to with the real prefilter (adapter over ACGT, no wildcards, shapes (3,2),(4,3) in quick, up to (5,4) in thorough); C07 decides the prefilter in general"]
    d["stubs"] = ["SingleAdapter._make_kmer_finder -> MockKmerFinder in the main jobs only"]
    return d


# jobs in which the k-mer prefilter is NOT stubbed (match_to exactly as users run it): reads shorter than, equal to
# and longer than the adapter; no wildcards; minimum overlap enumerated (the k-mer tables need it concrete)
COMPOSED_SHAPES_QUICK = [(3, 2), (4, 3)]
COMPOSED_SHAPES_THOROUGH = [(3, 2), (4, 3), (3, 4), (4, 5), (5, 4)]


def jobs(tier, seed):
    out = C01.jobs(tier, seed)
    for (m, n) in (COMPOSED_SHAPES_QUICK if tier == "quick" else COMPOSED_SHAPES_THOROUGH):
        rates = C01.pick_rates(m, (0.0, 0.34) if tier == "quick" else None)
        for kind in AC.BASIC_KINDS:
            for rate in rates:
                for indels in (True, False):
                    for mo in sorted({1, m}):
                        if kind in ("prefix", "suffix") and mo != m:
                            continue
                        cfg = dict(rate=rate, adapter_wildcards=False, read_wildcards=False, indels=indels, min_overlap=mo)
                        out.append({"name": "with-prefilter/%s/m=%d/n=%d/%s,o=%d" % (kind, m, n, AC.cfg_name(cfg), mo), "kind": kind, "m": m, "n": n, "cfg": cfg, "prefilter": True})
    return out


def occurrence_terms(ref, kind, m, n, mo, rate, indels):
    """-> (list of z3 Bool 'error-free admissible occurrence at iv', list '... within tolerance at iv')"""
    exact, tolerant = [], []
    for (a0, a1, r0, r1) in ref.admissible_intervals(kind):
        if a1 - a0 < 1:
            continue
        d = ref.dist(a0, a1, r0, r1)
        if d is None:
            continue
        ov = (a1 - a0) >= z3.If(zint(mo) < m, zint(mo), V.ival(m)) if not isinstance(mo, int) else z3.BoolVal((a1 - a0) >= min(mo, m))
        exact.append(z3.And(ov, d == 0))
        tolerant.append(z3.And(ov, ref.tolerance_ok(a0, a1, d, rate)))
    return exact, tolerant


def path(J, ctx, kind, m, n, cfg, prefilter=False):
    if prefilter:
        it, adapter, read, c, mo = C01.setup_path(ctx, kind, m, n, cfg, adapter_alphabet="ACGT", read_alphabet="ACGTNacgt!")
    else:
        it, adapter, read, c, mo = C01.setup_path(ctx, kind, m, n, cfg)
    mk = C01.make_cex(kind, cfg, adapter, read, mo, c.get("min_overlap_given"))
    if prefilter:
        _mk = mk
        def mk(model):  # noqa
            d = _mk(model)
            d["prefilter"] = True
            return d
    try:
        ad = AC.build_adapter(it, kind, adapter, c, mock_prefilter=not prefilter)
    except ValueError:
        return
    ref = AC.Ref(adapter.chars, read.chars, cfg["adapter_wildcards"], cfg["read_wildcards"], cfg["indels"])
    try:
        mt = it.call_value(it.getattr(ad, "match_to"), [read], {})
    except (AssertionError, IndexError, ValueError) as e:
        J.obligations += 1
        J.violated += 1
        if J.cex is None and ctx.is_sat([]) == "sat":
            J.cex = mk(ctx.model())
            J.cex["what"] = "match_to raises %r" % (e,)
            J.detail = J.cex["what"]
        return
    if prefilter and ctx.fresh_sat([], 60000) == "unsat":
        # with the real k-mer tables the explorer forks on equalities of symbolic k-mers without asking the solver every
        # time; a combination of such decisions that no adapter satisfies is not a path of the program: nothing to claim
        J.extra["infeasible_paths"] = J.extra.get("infeasible_paths", 0) + 1
        ctx.obligations = []
        return
    J.safety(ctx, mk)
    if mt is None:
        J.extra["paths_none"] = J.extra.get("paths_none", 0) + 1
        exact, tolerant = occurrence_terms(ref, kind, m, n, mo, cfg["rate"], cfg["indels"])
        for d in getattr(ref, "defs", []):
            ctx.assume(d)
        J.claim(ctx, z3.Not(z3.Or(*exact)) if exact else True, "an error-free admissible occurrence exists but no match is reported", mk)
        if (not cfg["indels"]) or kind in WITH_INDELS_TOLERANT:
            J.claim(ctx, z3.Not(z3.Or(*tolerant)) if tolerant else True, "an admissible occurrence within the error tolerance exists but no match is reported", mk)
        return
    J.extra["paths_match"] = J.extra.get("paths_match", 0) + 1
    a0, a1, r0, r1, score, errors = [zint(x) for x in AC.match_tuple(mt)]
    # error-free full copies of the adapter in the read (a zero-cost alignment has no indels: equal lengths)
    copies = {}
    for p in range(0, n - m + 1):
        d = ref.dist(0, m, p, p + m)
        copies[p] = (d == 0)
    for d in getattr(ref, "defs", []):
        ctx.assume(d)
    if kind == "back":
        cl = [z3.Implies(copies[p], r0 <= p) for p in copies]
        J.claim(ctx, z3.And(*cl) if cl else True, "regular 3' adapter: an error-free full copy remains in the output (cut after the leftmost copy)", mk)
    elif kind == "front":
        # leftmost copy: end of the leftmost copy bounds the cut position from above
        cl = []
        for p in copies:
            leftmost = z3.And(copies[p], *[z3.Not(copies[q]) for q in copies if q < p])
            cl.append(z3.Implies(leftmost, r1 <= p + m))
        J.claim(ctx, z3.And(*cl) if cl else True, "regular 5' adapter: cut position lies after the end of the leftmost error-free copy", mk)
    elif kind == "rightmost_front":
        cl = []
        for p in copies:
            rightmost = z3.And(copies[p], *[z3.Not(copies[q]) for q in copies if q > p])
            cl.append(z3.Implies(rightmost, r1 >= p + m))
        J.claim(ctx, z3.And(*cl) if cl else True, "rightmost 5' adapter: cut position lies before the end of the rightmost error-free copy", mk)
    elif kind == "prefix" and n >= m:
        J.claim(ctx, z3.Implies(copies[0], z3.And(a0 == 0, a1 == m, r0 == 0, r1 == m, errors == 0)), "error-free anchored 5' adapter is not removed exactly", mk)
    elif kind == "suffix" and n >= m:
        J.claim(ctx, z3.Implies(copies[n - m], z3.And(a0 == 0, a1 == m, r0 == n - m, r1 == n, errors == 0)), "error-free anchored 3' adapter is not removed exactly", mk)
    J.sample = {"class": AC.CLASSES[kind], "m": m, "n": n, "cfg": AC.cfg_name(cfg), "symbolic": ["adapter chars", "read chars", "min_overlap"]}


def run_job(job):
    J = Job(job)
    r = run_paths(J, lambda ctx: path(J, ctx, job["kind"], job["m"], job["n"], job["cfg"], job.get("prefilter", False)), max_paths=400, timeout_ms=400000 if job.get("tier") == "thorough" else 90000)
    both = J.extra.get("paths_none", 0) > 0 and J.extra.get("paths_match", 0) > 0
    r["nontrivial"] = 1 if both else 0
    r["vacuity"] = bool(J.extra.get("paths_none", 0) or J.extra.get("paths_match", 0))
    return r


def validate(seed):
    return C01.validate(seed)


def reference_occurrences(kind, cfg, adapter, read):
    """Concrete oracle: (exists error-free admissible occurrence, exists within-tolerance one, list of full exact copies)."""
    seq = AC.norm_adapter(adapter)
    m, n = len(seq), len(read)
    aw = AC.eff_adapter_wildcards(seq, cfg["adapter_wildcards"])
    rw = cfg["read_wildcards"]
    exact = tol = False
    for a0 in range(m + 1):
        for a1 in range(a0 + 1, m + 1):
            if a1 - a0 < min(cfg["min_overlap"], m):
                continue
            for r0 in range(n + 1):
                for r1 in range(r0, n + 1):
                    if not AC.placement_ok(kind, m, n, a0, a1, r0, r1):
                        continue
                    d = AC.edit_distance(seq[a0:a1], read[r0:r1], aw, rw, cfg["indels"])
                    if d is None:
                        continue
                    if d == 0:
                        exact = True
                    if d <= AC.tolerance(seq, a0, a1, cfg["rate"], aw):
                        tol = True
    copies = [p for p in range(0, n - m + 1) if AC.edit_distance(seq, read[p:p + m], aw, rw, False) == 0]
    return exact, tol, copies


def replay(cex):
    kind, cfg, ad, rd = cex["kind"], cex["cfg"], cex["adapter"], cex["read"]
    m, n = len(ad), len(rd)
    try:
        mt = AC.real_match(kind, cfg, ad, rd, prefilter=bool(cex.get("prefilter")))
    except Exception as e:  # noqa
        return True, "%s(%r).match_to(%r) raises %r" % (AC.CLASSES[kind], ad, rd, e)
    exact, tol, copies = reference_occurrences(kind, cfg, ad, rd)
    desc = "%s(%r, %s,o=%s).match_to(%r) = %r; error-free occurrence: %s, within tolerance: %s, exact full copies at %s" % (
        AC.CLASSES[kind], ad, AC.cfg_name(cfg), cfg["min_overlap"], rd, mt, exact, tol, copies)
    if mt is None:
        must = exact or (tol and ((not cfg["indels"]) or kind in WITH_INDELS_TOLERANT))
        return must, desc
    a0, a1, r0, r1 = mt[:4]
    bad = False
    if copies:
        if kind == "back":
            bad = r0 > min(copies)
        elif kind == "front":
            bad = r1 > min(copies) + m
        elif kind == "rightmost_front":
            bad = r1 < max(copies) + m
        elif kind == "prefix":
            bad = 0 in copies and (a0, a1, r0, r1, mt[5]) != (0, m, 0, m, 0)
        elif kind == "suffix":
            bad = (n - m) in copies and (a0, a1, r0, r1, mt[5]) != (0, m, n - m, n, 0)
    return bad, desc
