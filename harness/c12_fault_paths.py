"""C12 (partial: the error path of the runners at message level) - a fault never hangs the run, never ends it
normally, and never lets incomplete output through.

What is decided here, of the statement "the program terminates with a non-zero exit status and an error message, with
one core and with several, and never hangs ... records already written before the error are complete, correctly
processed records in input order":

  for the error raised by the parser at ANY chunk position (in a worker while it processes chunk f - a malformed record,
  a corrupted quality line, mismatching mates - or in the reader process after it has handed out f chunks - a truncated
  compressed stream, mates missing in one file - or when the input is opened), every chunk -> worker assignment and every
  message-level schedule of the multi-core runner:
    * the REAL main loop ParallelPipelineRunner.run (with _try_receive, OrderedChunkWriter) RAISES that error - it does
      not return (a normal end is what leads to exit status 0), does not block on a connection on which nothing more
      will arrive, and does not read a message with the wrong receive call (_ContractBreach of the C06 stand-in);
    * at that moment every output file holds exactly the single-core output of the chunks 0..k-1 for one k <= f: complete
      chunks, in input order, nothing of the faulty chunk (whose partial output stays in the worker);
    * single core: the REAL SerialPipelineRunner.run lets the error through.

The worker side is the REAL WorkerProcess.run (its except-clause forwards the error), the reader side the REAL
ReaderProcess.run (its two except-clauses forward the error to the file-format connection and to every worker), the
OS is the nondeterministic message-level stand-in of harness/c06_multicore.py (FIFO connections, wait() returns an
arbitrary non-empty subset of the connections with pending messages, a worker gets its chunks in increasing order).

NOT decided here (compiled library code and the operating system; DESIGN section 12): that dnaio/xopen/zlib detect
every truncation and corruption and raise; that cli.main maps the error to a non-zero status (a try/except over
documented exception classes; an uncaught exception ends the interpreter with status 1 as well); OS-level blocking of
full pipes and process scheduling below the message level.
"""
import logging
import pickle

from harness.e2_common import e2_jobs, e2_run_job, e2_replay
from harness import c06_multicore as M
from harness.c06_multicore import (_Conn, _Queue, _Proc, _Progress, _Scheduler, _SCHED, _ContractBreach, _build_outfiles, _write_chunk, _expected_files,
                                   _make_pipeline, _plain_contrib, _conc, NoTracing)

import cutadapt.runners as _runners
from cutadapt.runners import ParallelPipelineRunner, WorkerProcess, ReaderProcess, SerialPipelineRunner
from cutadapt.files import FileFormat

PROPERTY = "C12"
logging.disable(logging.ERROR)      # the workers log the forwarded traceback (logger.error); not part of what is checked
ENGINE = "crosshair"

_PARAM = {}


def set_param(p):
    _PARAM.clear()
    _PARAM.update(p or {})


class InputFault(Exception):
    """stands for dnaio.FileFormatError / EOFError / OSError raised by the parser or the decompressor"""


# ---------------------------------------------------------------------------------- the faulty pipeline of a process
class _FaultyPipeline:
    """process_reads() of a worker (or of the single-core run): writes the (concrete) output of the chunk into the proxied
    writers as c06's _FakePipeline does; on the faulty chunk it writes a PART of the chunk's output and raises."""

    def __init__(self, inner, fault_chunk, error):
        self.inner = inner
        self.paired = inner.paired
        self._modifiers = inner._modifiers
        self._steps = inner._steps
        self.fault_chunk = fault_chunk
        self.error = error
        self.serial_chunks = None

    def process_reads(self, infiles, progress=None):
        if self.serial_chunks is not None:
            chunks = list(range(self.serial_chunks))
        else:
            chunks = [int(infiles._files[0].getvalue())]
        n = bp1 = 0
        for c in chunks:
            if c == self.fault_chunk:
                with NoTracing():
                    _write_partial(self.inner.writers, c)
                raise self.error
            with NoTracing():
                _write_chunk(self.inner.writers, c)
            n = n + 5 + 3 * c
            bp1 = bp1 + 11 + c
        return (n, bp1, None)


def _write_partial(writers, c):
    """the records of the chunk that precede the malformed one: here the first record of every file that has one"""
    for j, (kind, w, _paths) in enumerate(writers):
        recs = M._RECORDS[(c, j)][:1]
        if kind == "T":
            for r1, _r2 in recs:
                w.write("%s\t%d\t%s\n" % (r1.name, len(r1), r1.sequence))
        elif kind == "R":
            for r1, _r2 in recs:
                w.write(r1)
        else:
            for r1, r2 in recs:
                w.write(r1, r2)


# ---------------------------------------------------------------------------------- the reader process
class _AssignQueue:
    """need-work queue as the reader sees it: get() yields the worker that asked next - the symbolic assignment for the
    chunks, then every worker once for the stop tokens"""

    def __init__(self, order):
        self.order = list(order)
        self.pos = 0

    def get(self):
        v = self.order[self.pos]
        self.pos += 1
        return v


class _WorkerBlocked(BaseException):
    """a worker waits for a message that never comes: it stays blocked and sends nothing more (not an Exception, so that
    the worker's own except-clause does not turn it into a forwarded error); whether the MAIN process then hangs is what
    the scheduler stand-in decides"""


class _WorkerInbox:
    """reader -> worker pipe (FIFO); what the reader sends is what the worker receives, in order"""

    def __init__(self):
        self.msgs = []
        self.pos = 0

    def send(self, obj):
        self.msgs.append(obj)

    def send_bytes(self, data):
        self.msgs.append(bytes(data))

    def recv(self):
        if self.pos >= len(self.msgs):
            raise _WorkerBlocked()
        v = self.msgs[self.pos]
        self.pos += 1
        return v

    recv_bytes = recv


def _run_reader(C, W, assign, fault_after, error, open_fault):
    """The REAL ReaderProcess.run over stubs of the file layer.  -> (file-format connection, worker inboxes)"""
    inboxes = [_WorkerInbox() for _ in range(W)]
    ffc = _Conn(100)
    rp = ReaderProcess.__new__(ReaderProcess)
    rp._paths = ("in.fastq",)
    rp._file_format_connection = ffc
    rp.connections = inboxes
    rp.queue = _AssignQueue([assign[c] for c in range(C)] + list(range(W)))
    rp.buffer_size = 100
    rp.stdin_fd = -1

    class _F:
        def __enter__(self):
            return self

        def __exit__(self, *a):
            return False

    def fake_open(path):
        if open_fault == "open":
            raise error
        return _F()

    def fake_detect(f):
        if open_fault == "detect":
            raise error
        return FileFormat.FASTQ

    def read_chunks(*files):
        for c in range(C):
            if fault_after is not None and c == fault_after:
                raise error
            yield (b"%d" % c,)
        if fault_after is not None and fault_after >= C:
            raise error                      # the stream ends in the middle of the last record

    old = (_runners.xopen_rb_raise_limit, _runners.detect_file_format)
    _runners.xopen_rb_raise_limit = fake_open
    _runners.detect_file_format = fake_detect
    rp._read_chunks = read_chunks
    try:
        try:
            ReaderProcess.run(rp)
        except InputFault:
            pass                             # the reader process ends with a traceback of its own; nobody waits for it
    finally:
        _runners.xopen_rb_raise_limit, _runners.detect_file_format = old
    return ffc, inboxes


# ---------------------------------------------------------------------------------- one run
def _prefix_ok(shape, C, outfiles, limit):
    """every output file holds the single-core output of chunks 0..k-1, the same k <= limit for all files"""
    files = outfiles.binary_files()
    ks = set()
    with NoTracing():
        per_k = [_expected_files(shape, k) for k in range(0, C + 1)]
        for f in files:
            got = b"".join(f.data)
            found = None
            for k in range(0, limit + 1):
                if per_k[k][f.path] == got:
                    found = k
                    break
            if found is None:
                return False
            # several k can give the same bytes when a chunk writes nothing into this file: collect all of them
            ks.add(frozenset(k for k in range(0, limit + 1) if per_k[k][f.path] == got))
    common = None
    for s in ks:
        common = s if common is None else (common & s)
    return bool(common)


def _scenario(kind, C, W, f, assign, choices, mode, rev):
    shape = _PARAM.get("files", ("R",))
    error = InputFault("malformed input in chunk %d" % f)
    with NoTracing():
        outfiles, opener, writers = _build_outfiles(shape)
        main_pipeline = _FaultyPipeline(_make_pipeline("plain", writers), f if kind == "worker" else None, error)
    if kind == "worker":
        inboxes = None
    else:
        ffc, inboxes = _run_reader(C, W, assign, f, error, None)
        if ParallelPipelineRunner._try_receive(ffc) != FileFormat.FASTQ:
            return False
    conns = []

    def start_workers(pipeline, proxy_files):
        procs = []
        for w in range(W):
            with NoTracing():
                pl, pfs = pickle.loads(pickle.dumps((pipeline.inner, proxy_files)))
            wpipe = _FaultyPipeline(pl, pipeline.fault_chunk, pipeline.error)
            conn = _Conn(w)
            wp = WorkerProcess.__new__(WorkerProcess)
            wp._id = w
            wp._pipeline = wpipe
            wp._n_input_files = 1
            wp._interleaved_input = False
            if inboxes is None:
                mine = [c for c in range(C) if assign[c] == w]
                if any(c == f for c in mine):
                    mine = [c for c in mine if c <= f]          # a worker that died asks for no more work
                    wp._read_pipe = M._ReadPipe(mine, 1)
                    wp._read_pipe.msgs.pop()                      # ... and never sees a stop token
                else:
                    wp._read_pipe = M._ReadPipe(mine, 1)
            else:
                wp._read_pipe = inboxes[w]
            wp._write_pipe = conn
            wp._need_work_queue = _Queue()
            wp._proxy_files = pfs
            wp._file_format = "fastq"
            try:
                WorkerProcess.run(wp)
            except _WorkerBlocked:
                pass
            conns.append(conn)
            procs.append(_Proc())
        return procs, list(conns)

    runner = ParallelPipelineRunner.__new__(ParallelPipelineRunner)
    runner._n_workers = W
    runner._reader_process = _Proc()
    runner._start_workers = start_workers
    progress = _Progress()
    _SCHED[0] = _Scheduler(choices, mode, rev, False)
    try:
        runner.run(main_pipeline, progress, outfiles)
    except InputFault as e:
        if e is not error:
            return False
        # what was written so far: complete chunks in input order, nothing from the faulty chunk on
        limit = f if kind == "worker" else min(f, C)
        return _prefix_ok(shape, C, outfiles, limit)
    # _ContractBreach (blocking forever, wrong receive call) and any other exception propagate: CrossHair reports them
    return False                                  # the run ended normally although the input was broken


def _assignment(As, C, W):
    return [_conc(As[c], W - 1) for c in range(C)]


def _pre_worker(f, As):
    """the worker that meets the fault asks for no more work afterwards: later chunks go to the others (protocol: a worker
    announces itself once per loop iteration, before it receives)"""
    C, W = _PARAM["C"], _PARAM["W"]
    if not (0 <= f < C):
        return False
    a = [(x if 0 <= x < W - 1 else W - 1) for x in As[:C]]      # the mapping of _conc
    return all(a[c] != a[f] for c in range(f + 1, C))


def check_worker_fault_c2(f: int, a0: int, a1: int, s0: int, s1: int, s2: int, s3: int, s4: int) -> bool:
    """
    pre: _pre_worker(f, (a0, a1))
    post: _
    """
    C, W = _PARAM["C"], _PARAM["W"]
    return _scenario("worker", C, W, _conc(f, C - 1), _assignment((a0, a1), C, W), [s0, s1, s2, s3, s4][:C + W], _PARAM.get("mode", "subsets"), _PARAM.get("rev", False))


def check_worker_fault_c3(f: int, a0: int, a1: int, a2: int, s0: int, s1: int, s2: int, s3: int, s4: int, s5: int) -> bool:
    """
    pre: _pre_worker(f, (a0, a1, a2))
    post: _
    """
    C, W = _PARAM["C"], _PARAM["W"]
    return _scenario("worker", C, W, _conc(f, C - 1), _assignment((a0, a1, a2), C, W), [s0, s1, s2, s3, s4, s5][:C + W], _PARAM.get("mode", "subsets"), _PARAM.get("rev", False))


def check_reader_fault_c2(f: int, a0: int, a1: int, s0: int, s1: int, s2: int, s3: int, s4: int) -> bool:
    """
    pre: 0 <= f <= _PARAM["C"]
    post: _
    """
    C, W = _PARAM["C"], _PARAM["W"]
    return _scenario("reader", C, W, _conc(f, C), _assignment((a0, a1), C, W), [s0, s1, s2, s3, s4][:C + W], _PARAM.get("mode", "subsets"), _PARAM.get("rev", False))


def check_reader_fault_c3(f: int, a0: int, a1: int, a2: int, s0: int, s1: int, s2: int, s3: int, s4: int, s5: int) -> bool:
    """
    pre: 0 <= f <= _PARAM["C"]
    post: _
    """
    C, W = _PARAM["C"], _PARAM["W"]
    return _scenario("reader", C, W, _conc(f, C), _assignment((a0, a1, a2), C, W), [s0, s1, s2, s3, s4, s5][:C + W], _PARAM.get("mode", "subsets"), _PARAM.get("rev", False))


def check_open_fault(which: int, w: int) -> bool:
    """
    pre: 0 <= which <= 1 and 1 <= w <= 3
    post: _
    """
    # the input cannot be opened / its format cannot be detected: the real reader forwards the error to the file-format
    # connection, from which the real ParallelPipelineRunner.__init__ receives through _try_receive
    error = InputFault("cannot open")
    W = _conc(w - 1, 2) + 1
    ffc, inboxes = _run_reader(1, W, [0], None, error, "open" if _conc(which, 1) == 0 else "detect")
    try:
        ParallelPipelineRunner._try_receive(ffc)
    except InputFault as e:
        return e is error
    return False


def check_serial_fault(f: int) -> bool:
    """
    pre: 0 <= f < _PARAM["C"]
    post: _
    """
    C = _PARAM["C"]
    shape = _PARAM.get("files", ("R",))
    error = InputFault("malformed")
    fc = _conc(f, C - 1)
    with NoTracing():
        outfiles, opener, writers = _build_outfiles(shape)
        pl = _FaultyPipeline(_make_pipeline("plain", writers), fc, error)
    pl.serial_chunks = C
    sr = SerialPipelineRunner.__new__(SerialPipelineRunner)
    sr._infiles = None
    try:
        sr.run(pl, _Progress(), outfiles)
    except InputFault as e:
        return e is error
    return False


# ---------------------------------------------------------------------------------- conditions
CONDITIONS = []
for _files in (("R",), ("T", "R")):
    _fn = "+".join(_files)
    CONDITIONS.append({"name": "worker_fault/C=2/W=2/files=%s" % _fn, "fn": "check_worker_fault_c2", "timeout": 600, "param": {"C": 2, "W": 2, "files": _files}})
    CONDITIONS.append({"name": "reader_fault/C=2/W=2/files=%s" % _fn, "fn": "check_reader_fault_c2", "timeout": 600, "param": {"C": 2, "W": 2, "files": _files}})
CONDITIONS.append({"name": "worker_fault/C=3/W=2/files=R", "fn": "check_worker_fault_c3", "timeout": 900, "param": {"C": 3, "W": 2, "files": ("R",)}})
CONDITIONS.append({"name": "reader_fault/C=3/W=2/files=R", "fn": "check_reader_fault_c3", "timeout": 900, "param": {"C": 3, "W": 2, "files": ("R",)}})
CONDITIONS.append({"name": "worker_fault/C=2/W=3/files=P", "fn": "check_worker_fault_c2", "timeout": 900, "param": {"C": 2, "W": 3, "files": ("P",)}})
CONDITIONS.append({"name": "worker_fault/C=2/W=2/singletons/rev", "fn": "check_worker_fault_c2", "timeout": 600, "param": {"C": 2, "W": 2, "files": ("R",), "mode": "singletons", "rev": True}})
CONDITIONS.append({"name": "open_fault", "fn": "check_open_fault", "timeout": 120, "param": {}})
CONDITIONS.append({"name": "serial_fault/C=3", "fn": "check_serial_fault", "timeout": 120, "param": {"C": 3, "files": ("T", "R")}})
CONDITIONS.append({"name": "worker_fault/C=3/W=3/files=T+R", "fn": "check_worker_fault_c3", "timeout": 3000, "thorough_only": True, "param": {"C": 3, "W": 3, "files": ("T", "R")}})
CONDITIONS.append({"name": "reader_fault/C=3/W=3/files=T+R", "fn": "check_reader_fault_c3", "timeout": 3000, "thorough_only": True, "param": {"C": 3, "W": 3, "files": ("T", "R")}})


def describe():
    return {
        "functions": ["runners.py:ParallelPipelineRunner.run", "runners.py:ParallelPipelineRunner._try_receive", "runners.py:OrderedChunkWriter.write/wrote_everything", "runners.py:WorkerProcess.run/_send_outfiles (incl. its except-clause)",
                      "runners.py:ReaderProcess.run/send_to_worker/shutdown (incl. both except-clauses)", "runners.py:SerialPipelineRunner.run", "files.py:OutputFiles(proxied=True), ProxyTextFile, ProxyRecordWriter"],
        "bounds": {"chunks": "2..3", "workers": "2..3", "output files": "one record file; an info-style text file and a record file; a two-file paired output", "fault": "raised by the worker pipeline on chunk f after part of the chunk's output was written to the worker's buffers (f symbolic over all chunks); raised by the reader's chunk iterator after f chunks (f symbolic, 0..C: before the first chunk .. at the end of the stream); raised when the input is opened or its format detected",
                   "schedules": "every chunk->worker assignment consistent with the protocol (a worker that failed asks for no more work) and every sequence of wait() results (arbitrary non-empty subsets of the ready connections; singletons in reversed order in one condition)"},
        "outside_bounds": ["detection of truncation/corruption inside dnaio/xopen/zlib (compiled)", "cli.main's mapping of the error to the exit status", "OS-level blocking (full pipes), process start-up and termination, signals", "more than 3 chunks/workers"],
        "stubs": ["the message-level OS stand-in of harness/c06_multicore.py (_Conn FIFO, _Scheduler for connection.wait, _Queue, _Proc)", "_FaultyPipeline: process_reads writes the chunk's concrete output, or part of it and raises on the faulty chunk",
                  "reader: xopen_rb_raise_limit / detect_file_format / _read_chunks replaced by stand-ins that raise at the chosen point; the need-work queue yields the symbolic assignment", "InputFault stands for dnaio.FileFormatError / EOFError / OSError"],
        "assumptions": ["CrossHair's models", "only 'Confirmed over all paths' counts", "processes communicate only through the connections and the queue (message level); each process is run to completion and the interleaving is explored on the receiving side"],
        "rule": "one CrossHair condition per (fault site, chunks, workers, output files); symbolic: the faulty chunk, the assignment, every scheduling choice. non-trivial = conditions with more than one explored path whose reachability twin is refuted",
    }


def jobs(tier, seed):
    return e2_jobs(CONDITIONS, tier)


def run_job(job):
    return e2_run_job(__name__, job)


def replay(cex):
    return e2_replay(cex)
