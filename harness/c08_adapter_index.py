"""C08 - an adapter index changes only speed, never what is found.

E1 (symx).  The adapters are concrete and enumerated (sets of 2-3 anchored adapters over ACGT: equal and
different lengths, Hamming neighbours, prefixes of one another, the two examples of the property text scaled
down, every order); AdapterIndex.__init__/_accept/_make_index are executed from source (the generator functions
edit_environment / hamming_sphere natively on the shadow build, their arguments being concrete), then
_match_to_one_length / _match_to_multiple_lengths / _lookup_with_n / _make_*_match are executed symbolically in
merge mode on a read whose characters are symbolic: the dictionary look-up with a symbolic key is an ite over
the keys plus a KeyError branch.
Claims: (i) every reported match is a genuine anchored occurrence (coordinates inside the read, errors = exact
distance, within the adapter's tolerance); (ii) N-free read with exactly one adapter occurring within tolerance
at the anchored end => that adapter is reported; (iii) equal lengths, no indels, N-free read, a unique nearest
adapter => the index result equals the one-by-one result, for every order of the adapters.
"""
import itertools

import z3

from harness.common import (Job, run_paths, new_interp, sym_str, model_int, model_str, zint, program, rng, V, Infeasible)
from harness import align_common as AC

PROPERTY = "C08"
ENGINE = "symx"

READ_ALPHABET = "ACGTNacgn"

SETS_QUICK = [
    ("tie_then_exact", ["TCGT", "CCGT", "ACGT"]),      # property text example 2, scaled down
    ("short_read", ["TTACG", "ACG"]),                   # property text example 1, scaled down
    ("prefix_of", ["ACGT", "ACGTA"]),
    ("far", ["ACGT", "TGCA"]),
    ("neighbours", ["AAAA", "AAAT", "AATT"]),
    ("mixed_len", ["ACG", "ACGT", "TTTT"]),
]
SETS_THOROUGH = SETS_QUICK + [
    ("len5", ["ACGTA", "ACGTT", "TCGTA"]),
    ("len6", ["ACGTAC", "ACGTAG"]),
    ("mixed2", ["GATTA", "GAT", "ATTAC"]),
    ("revs", ["AACC", "CCAA", "ACAC"]),
]


def describe():
    return {
        "functions": ["adapters.py:AdapterIndex.__init__/_accept/_make_index (concrete)", "adapters.py:AdapterIndex._match_to_one_length/_match_to_multiple_lengths/_lookup_with_n",
                      "adapters.py:AdapterIndex._make_prefix/_make_suffix/_make_prefix_match/_make_suffix_match", "adapters.py:PrefixAdapter/SuffixAdapter.match_to (N fallback)",
                      "_align.pyx:PrefixComparer/SuffixComparer/Aligner.locate (N fallback)", "_align.pyx:edit_environment/hamming_sphere (native, concrete arguments)"],
        "bounds": {"quick": {"adapter sets": [s for _, s in SETS_QUICK], "orders": "given, reversed and one rotated order (thorough: every permutation)", "errors k": "0, 1 (the same budget for all adapters; plus, for the first three sets, one adapter with budget 1 and the others 0, and the other way round)", "indels": "on/off", "ends": "5' and 3'",
                             "read": "every length 0..longest indexed string + 1, characters symbolic over " + READ_ALPHABET},
                   "thorough": {"adapter sets": [s for _, s in SETS_THOROUGH], "errors k": "0, 1, 2", "read": "0..longest + 2"}},
        "outside_bounds": ["adapter sets are enumerated, not symbolic (a dictionary over symbolic keys is out of reach)", "longer adapters, k = 3", "read characters outside " + READ_ALPHABET],
        "stubs": ["k-mer prefilter of the N-fallback adapters -> MockKmerFinder (C07)"],
        "assumptions": ["one-by-one search is represented by its specification (unique nearest adapter within tolerance), which C01/C02/C09 establish for the real code"],
        "rule": "job = (adapter set, order, end, indels, k, read length); symbolic read; claims (i)-(iii) per outcome path. non-trivial = jobs with a reachable match",
    }


def jobs(tier, seed):
    sets = SETS_QUICK if tier == "quick" else SETS_THOROUGH
    ks = (0, 1) if tier == "quick" else (0, 1, 2)
    out = []
    for sname, seqs in sets:
        perms = list(itertools.permutations(range(len(seqs))))
        if tier == "quick" and len(perms) > 2:
            perms = [perms[0], perms[-1], perms[len(perms) // 2]]     # quick: given, reversed and one rotated order
        for perm in perms:
            order = [seqs[i] for i in perm]
            for prefix in (True, False):
                for indels in (False, True):
                    for k in ks:
                        if k >= min(len(s) for s in seqs):
                            continue
                        if tier == "quick" and indels and k >= 1 and perm != perms[0] and perm != perms[-1]:
                            continue   # quick tier: with indels and errors only the given and the reversed order
                        if tier != "quick" and indels and k >= 2 and perm != perms[0] and perm != perms[-1]:
                            continue   # thorough tier: two errors with indels (3/4 of the solver time) only for the given and the reversed order
                        maxlen = max(len(s) for s in seqs) + (k if indels else 0)
                        top = maxlen + (1 if tier == "quick" else 2)
                        for n in range(0, top + 1):
                            out.append({"name": "%s/%s/%s/indels=%d/k=%d/n=%d" % (sname, "-".join(order), "5p" if prefix else "3p", indels, k, n),
                                        "seqs": order, "prefix": prefix, "indels": indels, "k": k, "n": n})
    # adapters of one index with DIFFERENT error budgets (one adapter allows one error, the others none, and the other way round)
    mixed_sets = sets[:3] if tier == "quick" else sets
    for sname, seqs in mixed_sets:
        orders = [list(seqs)]
        for order in orders:
            for prefix in (True, False):
                for indels in ((True,) if tier == "quick" else (True, False)):
                    for ks in ([1] + [0] * (len(order) - 1), [0] * (len(order) - 1) + [1]):
                        maxlen = max(len(s) for s in order) + (1 if indels else 0)
                        for n in range(0, maxlen + 2):
                            out.append({"name": "%s/%s/%s/indels=%d/budgets=%s/n=%d" % (sname, "-".join(order), "5p" if prefix else "3p", indels, "".join(map(str, ks)), n),
                                        "seqs": order, "prefix": prefix, "indels": indels, "k": 1, "ks": ks, "n": n})
    return out


def rate_for(k, length):
    return (k + 0.5) / length


def build_index(it, seqs, prefix, indels, k, ks=None):
    import cutadapt.adapters as A
    ks = ks or [k] * len(seqs)
    it.overrides["SingleAdapter._make_kmer_finder"] = lambda it_, *a, **kw: A.MockKmerFinder()
    it.merge_funcs |= {"AdapterIndex._match_to_one_length", "AdapterIndex._match_to_multiple_lengths"}
    cls = it.getattr(A, "PrefixAdapter" if prefix else "SuffixAdapter")
    ads = [it.call_value(cls, [s], {"max_errors": rate_for(kj, len(s)), "indels": indels, "name": s}) for s, kj in zip(seqs, ks)]
    idx = it.call_value(it.getattr(A, "AdapterIndex"), [ads], {"prefix": prefix})
    return ads, idx


def distances(seqs, read_chars, prefix, indels):
    """D[j][l] = distance between adapter j and the anchored read affix of length l (None where undefined)."""
    n = len(read_chars)
    out = []
    defs = []
    for j, s in enumerate(seqs):
        a = [ord(c) for c in s]
        r = list(read_chars)
        if not prefix:
            a = a[::-1]
            r = r[::-1]
        ref = AC.Ref(a, r, False, False, indels, tag="_ad%d" % j)
        tab = ref.table(0, 0)
        row = []
        for l in range(n + 1):
            row.append(tab[len(s)][l] if l < len(tab[len(s)]) else None)
        out.append(row)
        defs.extend(getattr(ref, "defs", []))
    return out, defs


def path(J, ctx, job):
    seqs, prefix, indels, k, n = job["seqs"], job["prefix"], job["indels"], job["k"], job["n"]
    it = new_interp(ctx)
    ads, idx = build_index(it, seqs, prefix, indels, k, job.get("ks"))
    read = sym_str(ctx, "r", n, alphabet=READ_ALPHABET)

    def mk(m):
        return {"seqs": seqs, "prefix": prefix, "indels": indels, "k": k, "ks": job.get("ks"), "read": model_str(m, read)}
    try:
        mt = it.call_value(it.getattr(idx, "match_to"), [read], {})
    except (AssertionError, IndexError, KeyError, TypeError, ValueError, AttributeError) as e:
        J.obligations += 1
        J.violated += 1
        if J.cex is None and ctx.is_sat([]) == "sat":
            J.cex = mk(ctx.model())
            J.cex["what"] = "index look-up raises %r" % (e,)
            J.detail = J.cex["what"]
        return
    J.safety(ctx, mk)
    D, defs = distances(seqs, [zint(c) for c in read.chars], prefix, indels)
    for d in defs:
        ctx.assume(d)
    nfree = z3.And(*[z3.Not(V.in_ranges(zint(c), [ord("N"), ord("n")])) for c in read.chars]) if n else z3.BoolVal(True)
    ks = list(job.get("ks") or [k for _ in seqs])
    # occurrence of adapter j within tolerance at the anchored end
    occ = []
    for j, s in enumerate(seqs):
        parts = [D[j][l] <= ks[j] for l in range(n + 1) if D[j][l] is not None]
        occ.append(z3.Or(*parts) if parts else z3.BoolVal(False))
    same_len = len({len(s) for s in seqs}) == 1
    L = len(seqs[0])
    if mt is None:
        J.extra["paths_none"] = J.extra.get("paths_none", 0) + 1
        exactly_one = z3.Or(*[z3.And(occ[j], *[z3.Not(occ[i]) for i in range(len(seqs)) if i != j]) for j in range(len(seqs))])
        J.claim(ctx, z3.Implies(nfree, z3.Not(exactly_one)), "exactly one adapter occurs within tolerance at the anchored end of an N-free read, but the index reports nothing", mk)
        if same_len and not indels and n >= L:
            d = [D[j][L] for j in range(len(seqs))]
            uniq = z3.Or(*[z3.And(d[j] <= ks[j], *[d[j] < d[i] for i in range(len(seqs)) if i != j]) for j in range(len(seqs))])
            J.claim(ctx, z3.Implies(nfree, z3.Not(uniq)), "one-by-one search finds the unique nearest adapter, the index reports nothing", mk)
        return
    J.extra["paths_match"] = J.extra.get("paths_match", 0) + 1
    J.nontrivial = 1
    rstart, rstop, errors = zint(mt.rstart), zint(mt.rstop), zint(mt.errors)
    ad = mt.adapter
    is_ad = []
    for a in ads:
        if isinstance(ad, V.Union):
            cs = [c for c, x in ad.alts if x is a]
            is_ad.append(z3.Or(*cs) if cs else z3.BoolVal(False))
        else:
            is_ad.append(z3.BoolVal(ad is a))
    # (i) genuine anchored occurrence
    coords = z3.And(rstart >= 0, rstart <= rstop, rstop <= n, (rstart == 0) if prefix else (rstop == n))
    J.claim(ctx, coords, "index match has coordinates outside the read", mk)
    genuine = []
    for j in range(len(seqs)):
        alts = []
        for l in range(n + 1):
            if D[j][l] is None:
                continue
            alts.append(z3.And(rstop - rstart == l, errors == D[j][l], errors <= ks[j]))
        genuine.append(z3.Implies(is_ad[j], z3.Or(*alts) if alts else z3.BoolVal(False)))
    J.claim(ctx, z3.And(z3.Or(*is_ad), *genuine), "index match is not a genuine in-tolerance occurrence with the exact error count", mk, assuming=[coords])
    # (ii) exactly one adapter occurs => it is the one reported
    only = [z3.Implies(z3.And(nfree, occ[j], *[z3.Not(occ[i]) for i in range(len(seqs)) if i != j]), is_ad[j]) for j in range(len(seqs))]
    J.claim(ctx, z3.And(*only), "the only adapter that occurs within tolerance is not the one the index reports", mk)
    # (iii) equal lengths, no indels: agreement with the one-by-one search when the nearest adapter is unique
    if same_len and not indels and n >= L:
        d = [D[j][L] for j in range(len(seqs))]
        agree = []
        for j in range(len(seqs)):
            uniq = z3.And(nfree, d[j] <= ks[j], *[d[j] < d[i] for i in range(len(seqs)) if i != j])
            agree.append(z3.Implies(uniq, z3.And(is_ad[j], errors == d[j], rstop - rstart == L)))
        nobody = z3.And(nfree, *[d[j] > ks[j] for j in range(len(seqs))])
        J.claim(ctx, z3.And(z3.Not(nobody), *agree), "indexed and one-by-one search disagree although the nearest adapter is unique", mk)
    J.sample = {"adapters": seqs, "end": "5'" if prefix else "3'", "indels": indels, "k": k, "n": n, "symbolic": ["read characters"]}


def run_job(job):
    J = Job(job)
    r = run_paths(J, lambda ctx: path(J, ctx, job), max_paths=50, timeout_ms=400000 if job.get("tier") == "thorough" else 90000)
    if r["vacuity"] is None:
        r["vacuity"] = bool(J.extra.get("paths_match") or J.extra.get("paths_none"))
    return r


# ------------------------------------------------------------------------------- concrete reference & replay
def real_index(seqs, prefix, indels, k, ks=None):
    import cutadapt.adapters as A
    cls = A.PrefixAdapter if prefix else A.SuffixAdapter
    ks = ks or [k] * len(seqs)
    ads = [cls(s, max_errors=rate_for(kj, len(s)), indels=indels, name=s) for s, kj in zip(seqs, ks)]
    return ads, A.AdapterIndex(ads, prefix=prefix)


def conc_dist(a, r, indels):
    return AC.edit_distance(a, r, False, False, indels)


def check_concrete(seqs, prefix, indels, k, read, ks=None):
    """-> list of violated clauses for one concrete read on the real build"""
    ks = list(ks or [k] * len(seqs))
    kof = dict(zip(seqs, ks))
    ads, idx = real_index(seqs, prefix, indels, k, ks)
    n = len(read)
    bad = []
    try:
        mt = idx.match_to(read)
    except Exception as e:  # noqa
        return ["index look-up raises %r" % (e,)], None
    nfree = "N" not in read.upper()

    def affix(l):
        return read[:l] if prefix else read[n - l:]
    occ = []
    for s in seqs:
        occ.append(any((conc_dist(s, affix(l), indels) is not None and conc_dist(s, affix(l), indels) <= kof[s]) for l in range(n + 1)))
    same_len = len({len(s) for s in seqs}) == 1
    L = len(seqs[0])
    if mt is None:
        if nfree and sum(occ) == 1:
            bad.append("exactly one adapter (%s) occurs within tolerance but nothing is reported" % seqs[occ.index(True)])
        if nfree and same_len and not indels and n >= L:
            d = [conc_dist(s, affix(L), False) for s in seqs]
            best = min(d)
            if d.count(best) == 1 and best <= kof[seqs[d.index(best)]]:
                bad.append("unique nearest adapter %s (distance %d) but nothing is reported" % (seqs[d.index(best)], best))
        return bad, None
    tup = (mt.adapter.sequence, mt.rstart, mt.rstop, mt.errors)
    if not (0 <= mt.rstart <= mt.rstop <= n and (mt.rstart == 0 if prefix else mt.rstop == n)):
        bad.append("coordinates outside the read")
        return bad, tup
    l = mt.rstop - mt.rstart
    dd = conc_dist(mt.adapter.sequence, affix(l), indels)
    if dd is None or dd != mt.errors or mt.errors > kof[mt.adapter.sequence]:
        bad.append("not a genuine occurrence: errors=%d, true distance %s, tolerance %d" % (mt.errors, dd, kof[mt.adapter.sequence]))
    if nfree and sum(occ) == 1 and seqs[occ.index(True)] != mt.adapter.sequence:
        bad.append("the only occurring adapter is %s" % seqs[occ.index(True)])
    if nfree and same_len and not indels and n >= L:
        d = [conc_dist(s, affix(L), False) for s in seqs]
        best = min(d)
        if d.count(best) == 1 and best <= kof[seqs[d.index(best)]] and (seqs[d.index(best)] != mt.adapter.sequence or mt.errors != best or l != L):
            bad.append("one-by-one search gives %s with %d errors" % (seqs[d.index(best)], best))
    return bad, tup


def replay(cex):
    bad, tup = check_concrete(cex["seqs"], cex["prefix"], cex["indels"], cex["k"], cex["read"], cex.get("ks"))
    return bool(bad), "AdapterIndex(%s %s, k=%d, indels=%s).match_to(%r) = %r: %s" % (
        "anchored 5'" if cex["prefix"] else "anchored 3'", cex["seqs"], cex["k"], cex["indels"], cex["read"], tup, "; ".join(bad) or "consistent with the reference")


def validate(seed):
    import random
    from symx.ctx import Ctx
    r = random.Random("c08|%s" % seed)
    mism = []
    vectors = 0
    for sname, seqs in SETS_QUICK:
        for prefix in (True, False):
            for indels in (False, True):
                ctx = Ctx()
                it = new_interp(ctx)
                k = 1
                ads, idx = build_index(it, seqs, prefix, indels, k)
                rads, ridx = real_index(seqs, prefix, indels, k)
                if sorted(ridx._index) != sorted(idx._index if isinstance(idx._index, dict) else idx._index.keys_list()):
                    mism.append("index keys differ for %s" % (seqs,))
                for _ in range(12):
                    n = r.randrange(0, 9)
                    rd = "".join(r.choice("ACGTNacg") for _ in range(n))
                    if n and r.random() < 0.5:
                        s = r.choice(seqs)
                        rd = (s + rd)[:9] if prefix else (rd + s)[-9:]
                    try:
                        want = ridx.match_to(rd)
                        want = None if want is None else (want.adapter.sequence, want.rstart, want.rstop, want.errors, want.score)
                    except Exception as e:  # noqa
                        want = type(e).__name__
                    try:
                        got = it.call_value(it.getattr(idx, "match_to"), [rd], {})
                        got = None if got is None else (got.adapter.sequence, got.rstart, got.rstop, got.errors, got.score)
                    except Exception as e:  # noqa
                        got = type(e).__name__
                    vectors += 1
                    if want != got:
                        mism.append("match_to(%r) on %s %s indels=%s: real %r encoding %r" % (rd, seqs, prefix, indels, want, got))
    return {"vectors": vectors, "mismatches": mism}
